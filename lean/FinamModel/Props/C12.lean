import FinamModel.IntegrationLemmas
/-!
  C12 — the time integration adapters conserve the integral.

  Model: `FinamModel/Integration.lean` (`stepImpl` mirrors `TimeIntegrationAdapter._source_updated` /
  `_get_data` with the lagging eviction by `_prev_time`, `AvgOverTime._interpolate`,
  `SumOverTime._interpolate`).  Specification: `specIntegral`, written independently of the loop as the
  sum over *all* pairs of consecutive publications of the full history of
  `F(clamp p1) - F(clamp p0)`, `F` the antiderivative of the linear / step interpolant on that pair.
-/
namespace Finam.Props.C12
open Finam Finam.TA Finam.TI

/-! ### The specification is the integral of the interpolant

`prim` is characterised as an antiderivative: its increments are additive by construction, the
increment of the linear one over `[x, y]` is the trapezoid `(y - x) (f x + f y) / 2` of the linear
interpolant `f` (exact for an affine function), the increment of the step one is `value × length`
on either side of the step position. -/

/-- linear interpolant of the pair `(a, b)` at `x` -/
def linAt (a b : Entry Rat) (x : Rat) : Rat := a.v + (x - a.t) / ((b.t : Rat) - a.t) * (b.v - a.v)

theorem primLin_trapezoid (a b : Entry Rat) (x y : Rat) (h : a.t < b.t) :
    primLin a b y - primLin a b x = (y - x) * (linAt a b x + linAt a b y) / 2 := by
  have hlt : (a.t : Rat) < (b.t : Rat) := Rat.intCast_lt_intCast.2 h
  have : (b.t : Rat) - (a.t : Rat) ≠ 0 := by grind
  simp only [primLin, linAt]
  grind

theorem rmin_of_ge (a b : Rat) (h : b ≤ a) : min a b = b := by
  simp only [Rat.min_def]; split
  · exact Rat.le_antisymm ‹a ≤ b› h
  · rfl

theorem rmax_of_ge (a b : Rat) (h : b ≤ a) : max a b = a := by
  simp only [Rat.max_def]; split
  · exact Rat.le_antisymm h ‹a ≤ b›
  · rfl

theorem primStep_before (s : Rat) (a b : Entry Rat) (x y : Rat)
    (hx : x ≤ y) (hy : y ≤ (a.t : Rat) + s * ((b.t : Rat) - a.t)) :
    primStep s a b y - primStep s a b x = a.v * (y - x) := by
  simp only [primStep]; grind

theorem primStep_after (s : Rat) (a b : Entry Rat) (x y : Rat)
    (hx : (a.t : Rat) + s * ((b.t : Rat) - a.t) ≤ x) (hy : x ≤ y) :
    primStep s a b y - primStep s a b x = b.v * (y - x) := by
  have hy' : (a.t : Rat) + s * ((b.t : Rat) - a.t) ≤ y := Rat.le_trans hx hy
  simp only [primStep, rmin_of_ge _ _ hx, rmin_of_ge _ _ hy', rmax_of_ge _ _ hx, rmax_of_ge _ _ hy']
  grind

/-! ### Refinement: every served request equals the exact integral -/

theorem inv_run (c : Cfg) : ∀ (evs : List Ev) (s : IState), TI.Inv s → TI.preAllB c s evs = true →
    TI.Inv (TI.runFinal c s evs) := by
  intro evs
  induction evs with
  | nil => intro s hi _; exact hi
  | cons ev evs ih =>
    intro s hi hpre
    simp only [TI.preAllB, Bool.and_eq_true] at hpre
    exact ih _ (TI.inv_step c s hi ev (TI.pre_of_preB s ev hpre.1)) hpre.2

theorem answers_agree (c : Cfg) (s : IState) (hi : TI.Inv s) (ev : Ev) (v : Rat)
    (h : TI.answerSpec c s ev = some v) : (TI.stepImpl c s ev).2 = some (.ok v) := by
  cases ev with
  | push t x => simp [TI.answerSpec] at h
  | pull t =>
    simp only [TI.answerSpec] at h
    cases hp : s.prev with
    | none => simp [hp] at h
    | some p =>
      simp only [hp] at h
      split at h
      · rename_i hc
        cases h
        exact pull_eq_integral c s hi p t hp hc.1 hc.2
      · cases h

theorem integration_refines_spec_inv (c : Cfg) : ∀ (evs : List Ev) (s : IState), TI.Inv s →
    TI.preAllB c s evs = true → ∀ p ∈ TI.runBoth c s evs, ∀ v, p.2 = some v → p.1 = some (.ok v) := by
  intro evs
  induction evs with
  | nil => intro s _ _ p hp; cases hp
  | cons ev evs ih =>
    intro s hi hpre p hp v hv
    simp only [TI.preAllB, Bool.and_eq_true] at hpre
    simp only [TI.runBoth] at hp
    cases hp with
    | head => exact answers_agree c s hi ev v hv
    | tail _ h => exact ih _ (TI.inv_step c s hi ev (TI.pre_of_preB s ev hpre.1)) hpre.2 p h v hv

/-- **C12, both adapters, every configuration.** For every interleaving of publications (strictly
    increasing) and requests (non-decreasing), every request at `p1` inside the published range that
    follows a request (or the first publication) at `p0 < p1` is answered with the property's value
    computed from the *full* publication history — although the adapter discards buffer entries. -/
theorem integration_refines_spec (c : Cfg) (evs : List Ev) (h : TI.preAllB c TI.init evs = true) :
    ∀ p ∈ TI.runBoth c TI.init evs, ∀ v, p.2 = some v → p.1 = some (.ok v) :=
  integration_refines_spec_inv c evs _ TI.init_inv h

/-- **SumOverTime**: the exact integral over `[p0, p1]` of the linear (`step = none`) or step
    interpolant; in value·seconds for `per_time` data, the plain weighted sum (each source interval
    has weight one) otherwise. -/
theorem sum_eq_integral (step : Option Rat) (perTime : Bool) (initUs : Int) (evs : List Ev)
    (h : TI.preAllB ⟨step, .sum perTime initUs⟩ TI.init evs = true) :
    ∀ p ∈ TI.runBoth ⟨step, .sum perTime initUs⟩ TI.init evs, ∀ v, p.2 = some v → p.1 = some (.ok v) :=
  integration_refines_spec _ evs h

/-- **AvgOverTime**: that integral divided by `p1 - p0`. -/
theorem avg_eq_integral_div (step : Option Rat) (evs : List Ev)
    (h : TI.preAllB ⟨step, .avg⟩ TI.init evs = true) :
    ∀ p ∈ TI.runBoth ⟨step, .avg⟩ TI.init evs, ∀ v, p.2 = some v → p.1 = some (.ok v) :=
  integration_refines_spec _ evs h

/-- what the specification value is, spelled out -/
theorem spec_formula (step : Option Rat) (h : List (Entry Rat)) (p0 p1 : Int) :
    specValue ⟨step, .avg⟩ h p0 p1 = specIntegral step true h p0 p1 / (((p1 - p0 : Int) : Rat) / 1000000) ∧
    (∀ i, specValue ⟨step, .sum true i⟩ h p0 p1 = specIntegral step true h p0 p1) ∧
    (∀ i, specValue ⟨step, .sum false i⟩ h p0 p1 = specIntegral step false h p0 p1) :=
  ⟨rfl, fun _ => rfl, fun _ => rfl⟩

/-- non-vacuity: hourly-scale series with irregular gaps, requests finer and coarser than the source
    steps, evictions; the precondition holds and the answers are the integrals -/
def exEvs : List Ev := [.push 0 2, .pull 0, .push 4000000 6, .push 6000000 0, .pull 1000000, .pull 5000000,
                        .push 16000000 10, .pull 16000000, .pull 17000000]
example :
    TI.preAllB ⟨none, .sum true 0⟩ TI.init exEvs = true ∧
    (TI.runBoth ⟨none, .sum true 0⟩ TI.init exEvs).filterMap (·.1) =
      [.ok 0, .ok (5/2), .ok 18, .ok (103/2), .error .timeErr] ∧
    (TI.runBoth ⟨none, .sum true 0⟩ TI.init exEvs).filterMap (·.2) = [5/2, 18, 103/2] ∧
    (TI.runFinal ⟨none, .sum true 0⟩ TI.init exEvs).buf.length = 3 := by decide +kernel
example :
    (TI.runBoth ⟨some (1/4), .avg⟩ TI.init exEvs).filterMap (·.1) =
      [.ok 2, .ok 2, .ok (21/4), .ok (75/11), .error .timeErr] ∧
    (TI.runBoth ⟨some (1/4), .avg⟩ TI.init exEvs).filterMap (·.2) = [2, 21/4, 75/11] := by decide +kernel

/-! ### Additivity: totals do not depend on the partition -/

/-- **C12, conservation.** `I(p0, p1) + I(p1, p2) = I(p0, p2)` for every series, every three times,
    linear and every step position, time-scaled and plain. -/
theorem sum_additive (step : Option Rat) (scaled : Bool) (h : List (Entry Rat)) (p0 p1 p2 : Int) :
    specIntegral step scaled h p0 p1 + specIntegral step scaled h p1 p2 = specIntegral step scaled h p0 p2 := by
  induction h with
  | nil => simp only [specIntegral]; grind
  | cons a l ih =>
    cases l with
    | nil => simp only [specIntegral]; grind
    | cons b rest =>
      simp only [specIntegral, pairIntegral] at *
      grind

/-- total delivered over a partition `p0 ≤ … ≤ pn` of a period: the sum of the per-step integrals -/
def partitionTotal (step : Option Rat) (scaled : Bool) (h : List (Entry Rat)) (p0 : Int) : List Int → Rat
  | [] => 0
  | p1 :: ps => specIntegral step scaled h p0 p1 + partitionTotal step scaled h p1 ps

def lastOf (p0 : Int) : List Int → Int
  | [] => p0
  | p :: ps => lastOf p ps

theorem spec_self (step : Option Rat) (scaled : Bool) (h : List (Entry Rat)) (p : Int) :
    specIntegral step scaled h p p = 0 := by
  have := sum_additive step scaled h p p p
  grind

/-- **C12, partition independence.** However the consumer's steps partition a period, the total
    delivered is the integral over the whole period. -/
theorem partition_independent (step : Option Rat) (scaled : Bool) (h : List (Entry Rat)) :
    ∀ (ps : List Int) (p0 : Int), partitionTotal step scaled h p0 ps = specIntegral step scaled h p0 (lastOf p0 ps) := by
  intro ps
  induction ps with
  | nil => intro p0; simp [partitionTotal, lastOf, spec_self]
  | cons p1 ps ih =>
    intro p0
    simp only [partitionTotal, lastOf]
    rw [ih p1, sum_additive]

example : partitionTotal none true [⟨0, 2⟩, ⟨4000000, 6⟩, ⟨6000000, 0⟩, ⟨16000000, 10⟩] 0 [1000000, 5000000, 16000000] =
    partitionTotal none true [⟨0, 2⟩, ⟨4000000, 6⟩, ⟨6000000, 0⟩, ⟨16000000, 10⟩] 0 [7000001, 16000000] := by
  decide +kernel

/-! ### Averages stay within the range of the contributing values -/

/-- **C12, range.** For a request interval `[p0, p1]`, `p0 < p1`, inside the published range, the average
    lies between any lower bound `m` and upper bound `M` of the published values that contribute to
    it (`contrib`: the ends of the overlapped source intervals; for a step interpolant only the side
    of the step position that is actually overlapped). -/
theorem avg_in_range (step : Option Rat) (e0 : Entry Rat) (es : List (Entry Rat)) (p0 p1 : Int) (m M : Rat)
    (hs : Sorted (e0 :: es)) (h0 : e0.t ≤ p0) (h01 : p0 < p1) (h1 : p1 ≤ (lastE e0 es).t)
    (hc : ∀ v ∈ contrib step (e0 :: es) p0 p1, m ≤ v ∧ v ≤ M) :
    m ≤ specValue ⟨step, .avg⟩ (e0 :: es) p0 p1 ∧ specValue ⟨step, .avg⟩ (e0 :: es) p0 p1 ≤ M := by
  obtain ⟨hl, hu⟩ := spec_bounds step m M es e0 p0 p1 hs (by omega) hc
  have c0 : (e0.t : Rat) ≤ (p0 : Rat) := Rat.intCast_le_intCast.2 h0
  have c1 : (p0 : Rat) < (p1 : Rat) := Rat.intCast_lt_intCast.2 h01
  have c2 : (p1 : Rat) ≤ ((lastE e0 es).t : Rat) := Rat.intCast_le_intCast.2 h1
  have hlen : lenSum (e0 :: es) p0 p1 = (p1 : Rat) - (p0 : Rat) := by
    rw [lenSum_eq es e0 p0 p1 hs]
    simp only [clampR]; grind
  rw [hlen] at hl hu
  simp only [specValue, secs]
  push_cast
  have hpos : (0 : Rat) < ((p1 : Rat) - (p0 : Rat)) / 1000000 := by
    have : (0 : Rat) < (p1 : Rat) - (p0 : Rat) := by grind
    grind
  constructor
  · rw [TI.le_div_iff' hpos]; grind
  · rw [TI.div_le_iff' hpos]; grind

example : contrib (some (1/4)) [⟨0, 2⟩, ⟨4000000, 6⟩, ⟨6000000, 0⟩, ⟨16000000, 10⟩] 5000000 16000000 = [0, 0, 10] ∧
    specValue ⟨some (1/4), .avg⟩ [⟨0, 2⟩, ⟨4000000, 6⟩, ⟨6000000, 0⟩, ⟨16000000, 10⟩] 5000000 16000000 = 75/11 := by
  decide +kernel

/-! ### Discarding buffer entries never changes a later result -/

/-- **C12, eviction (one step).** On any strictly increasing buffer, `_clear_cached_data(m)` with `m` not
    behind the lower bound `p` of the next request interval `[p, t]`, `p < t`, leaves the answer —
    value or error — unchanged.  (The run-level statement is `integration_refines_spec`: the evicting
    adapter always answers like the definition on the full history.) -/
theorem evict_invariant (c : Cfg) (d : List (Entry Rat)) (m p t : Int) (hs : Sorted d) (hm : m ≤ p) (hpt : p < t) :
    TI.getData c (clear d m) p t = TI.getData c d p t := by
  fun_induction clear d m with
  | case1 e0 e1 es m h ih =>
    rw [ih hs.2 hm]
    have h01 := hs.1
    simp only [TI.getData, checkRange, lastE]
    by_cases hgt : t > (lastE e1 es).t
    · simp [hgt]
    · have n1 : ¬ t < e1.t := by omega
      have n0 : ¬ t < e0.t := by omega
      simp only [hgt, n1, n0, if_false]
      cases es with
      | nil => simp only [lastE] at hgt; omega
      | cons e2 es' =>
        have a1 : ¬ t ≤ e1.t := by omega
        have a0 : ¬ t ≤ e0.t := by omega
        have ge : p ≥ e1.t := by omega
        cases hmode : c.mode <;>
          simp [TI.interp, hmode, avgInterp, sumInterp, a1, a0, TI.loop, ge]
  | case2 => rfl
  | case3 => rfl

example : TI.getData ⟨none, .avg⟩ (clear [⟨0, 2⟩, ⟨4000000, 6⟩, ⟨6000000, 0⟩, ⟨16000000, 10⟩] 5000000) 5000000 16000000 =
    .ok (103/22) := by decide +kernel

end Finam.Props.C12
