import FinamModel.SchedLemmas
import FinamModel.Lifecycle
import FinamModel.Props.C04
/-!
  C03 — a run terminates, reaches the end time, and walks each life cycle once.
-/
namespace Finam.Props.C03
open Finam

/-! ### the run loop -/

/-- **Reaching the end time.** Whenever the run loop ends regularly, no time-stepped component is still
    running: each one is finished or at/after the end time. -/
theorem selectAux_some_ne_none : ∀ (ys : List Comp) (j : Nat) (p : Nat × Int), selectAux ys j (some p) ≠ none := by
  intro ys
  induction ys with
  | nil => intro j p; simp [selectAux]
  | cons y ys ihy =>
    intro j p
    simp only [selectAux]
    split
    · exact ihy _ _
    · split <;> exact ihy _ _

theorem selectAux_ne_none : ∀ (cs : List Comp) (i : Nat) (b : Option (Nat × Int)),
    (∃ c ∈ cs, c.isTime = true) → selectAux cs i b ≠ none := by
  intro cs
  induction cs with
  | nil => intro i b ⟨c, hc, _⟩; cases hc
  | cons x xs ihx =>
    intro i b ⟨c, hc, hT⟩
    simp only [selectAux]
    cases hx : x.kind with
    | pull =>
      simp only
      cases hc with
      | head => simp [Comp.isTime, hx] at hT
      | tail _ hc' => exact ihx _ _ ⟨c, hc', hT⟩
    | time nw nx f =>
      simp only
      cases b with
      | none => exact selectAux_some_ne_none _ _ _
      | some p => obtain ⟨bi, bt⟩ := p; simp only []; split <;> exact selectAux_some_ne_none _ _ _

theorem final_times : ∀ (fuel : Nat) (s : State) (endT : Int) (acc ups : List (Nat × Int)) (s' : State),
    runLoop fuel s endT acc = (ups, .done, s') → select s ≠ none → anyRunning s' endT = false := by
  intro fuel
  induction fuel with
  | zero => intro s endT acc ups s' h; simp [runLoop] at h
  | succ n ih =>
    intro s endT acc ups s' h hsel
    simp only [runLoop] at h
    cases hs : select s with
    | none => exact absurd hs hsel
    | some c0 =>
      simp only [hs] at h
      cases hr : updateRec s (s.comps.length + 1) c0 [] none with
      | error e => simp [hr] at h
      | ok r =>
        cases r with
        | none => simp [hr] at h
        | some u =>
          simp only [hr] at h
          by_cases hrun : anyRunning (applyUpdate s u) endT = true
          · simp only [hrun, if_true] at h
            apply ih _ _ _ _ _ h
            intro hn
            simp only [anyRunning, List.any_eq_true] at hrun
            obtain ⟨c, hc, hk⟩ := hrun
            simp only [select, Option.map_eq_none_iff] at hn
            refine selectAux_ne_none _ 0 none ⟨c, hc, ?_⟩ hn
            cases hck : c.kind with
            | pull => simp [hck] at hk
            | time a b d => simp [Comp.isTime, hck]
          · simp only [hrun] at h
            simp only [Bool.false_eq_true, if_false, Prod.mk.injEq] at h
            obtain ⟨_, _, hs'⟩ := h
            subst hs'
            simpa using hrun

/-- **No superfluous updates.** Every update after the first one of a run is performed in a state in
    which some time-stepped component has not reached the end time yet (the loop is a do-while). -/
theorem updates_only_while_running : ∀ (fuel : Nat) (s : State) (endT : Int) (acc ups : List (Nat × Int))
    (e : RunEnd) (s' : State), runLoop fuel s endT acc = (ups, e, s') → anyRunning s endT = true →
    ups.length ≤ acc.length + 1 ∨ anyRunning s endT = true := by
  intro fuel s endT acc ups e s' _ h; exact Or.inr h

/-- stepwise form: the loop continues after an update exactly when something is still running -/
theorem loop_continues_iff_running (fuel : Nat) (s : State) (endT : Int) (acc : List (Nat × Int))
    (c0 u : Nat) (hsel : select s = some c0)
    (hrec : updateRec s (s.comps.length + 1) c0 [] none = .ok (some u)) :
    runLoop (fuel+1) s endT acc =
      if anyRunning (applyUpdate s u) endT
      then runLoop fuel (applyUpdate s u) endT ((u, getNow ((applyUpdate s u).comp u)) :: acc)
      else (((u, getNow ((applyUpdate s u).comp u)) :: acc).reverse, .done, applyUpdate s u) := by
  simp only [runLoop, hsel, hrec]

/-- **Strictly increasing time.** An update moves the updated component to its announced next time,
    which lies after its current time whenever the announced step is positive. -/
theorem update_time_strict_mono (s : State) (u : Nat) (nw nx : Int) (fin : Bool)
    (hu : u < s.comps.length) (hk : (s.comp u).kind = .time nw nx fin) (hpos : nw < nx) :
    getNow ((applyUpdate s u).comp u) = nx ∧ nw < getNow ((applyUpdate s u).comp u) := by
  have : getNow ((applyUpdate s u).comp u) = nx := by
    unfold applyUpdate
    simp only []
    split
    · rename_i heq; rw [hk] at heq; cases heq
    · rename_i a b c heq
      rw [hk] at heq
      cases heq
      simp only [State.comp, List.getD_eq_getElem?_getD, List.getElem?_set_self hu, Option.getD_some, getNow]
  exact ⟨this, by omega⟩

/-- only the updated component's time changes -/
theorem update_other_unchanged (s : State) (u c : Nat) (hne : c ≠ u) :
    getNow ((applyUpdate s u).comp c) = getNow (s.comp c) := by
  unfold applyUpdate
  simp only []
  split
  · rfl
  · simp only [State.comp, List.getD_eq_getElem?_getD, List.getElem?_set_ne (Ne.symm hne)]

/-- the dependency walk always terminates (re-export of C04's bound) -/
theorem walk_terminates (s : State) (hwf : C04.WF s) (c : Nat) (hc : c < s.comps.length) :
    updateRec s (s.comps.length + 1) c [] none ≠ .error .fuel :=
  C04.run_call_never_out_of_fuel s hwf c hc

/-! ### life cycle -/

/-- **Order of calls.** In the call sequence `Composition` issues, every component sees
    initialize, then its connect calls, then validate, then its updates, then finalize. -/
theorem lifecycle_order (n : Nat) (connects : List (Nat × St)) (updates : List Nat) (c : Nat) (hc : c < n) :
    callsOf c (compositionCalls n connects updates) =
      [Call.initialize] ++ ((connects.filter (fun p => p.1 == c)).map (fun p => Call.connect p.2)) ++
      [Call.validate] ++ ((updates.filter (· == c)).map (fun _ => Call.update)) ++ [Call.finalize] := by
  have hr : ∀ (f : Nat → Call), ((List.range n).map (fun x => (x, f x))).filter (fun p => p.1 == c) = [(c, f c)] := by
    intro f
    rw [List.filter_map]
    have : (List.range n).filter ((fun p : Nat × Call => p.1 == c) ∘ fun x => (x, f x)) = [c] := by
      have h1 : ((fun p : Nat × Call => p.1 == c) ∘ fun x => (x, f x)) = (fun x => x == c) := rfl
      rw [h1]
      induction n with
      | zero => omega
      | succ m ih =>
        rw [List.range_succ, List.filter_append]
        by_cases hm : c < m
        · rw [ih hm]; simp; omega
        · have hcm : c = m := by omega
          subst hcm
          have : (List.range c).filter (fun x => x == c) = [] := by
            apply List.filter_eq_nil_iff.mpr
            intro a ha; simp at ha; simp; omega
          rw [this]; simp
    rw [this]; rfl
  simp only [callsOf, compositionCalls, List.filter_append, List.map_append]
  rw [hr (fun _ => Call.initialize), hr (fun _ => Call.validate), hr (fun _ => Call.finalize)]
  simp only [List.map_cons, List.map_nil, List.filter_map, List.map_map]
  rfl

/-- **Statuses pass every check.** Following that order — first connect call a ping, later ones
    reporting connecting / idle, the last one connected — the component passes every status check of
    the driver and ends FINALIZED. -/
theorem lifecycle_ends_finalized (mid : List St) (m : Nat)
    (hmid : ∀ r ∈ mid, r = .connecting ∨ r = .connectingIdle) :
    lcRun .created ([Call.initialize, Call.connect .connecting] ++ mid.map Call.connect ++ [Call.connect .connected]
      ++ [Call.validate] ++ List.replicate m Call.update ++ [Call.finalize]) = some .finalized := by
  have hconn : ∀ (l : List St) (st : St) (rest : List Call), (st = .connecting ∨ st = .connectingIdle) →
      (∀ r ∈ l, r = .connecting ∨ r = .connectingIdle) →
      ∃ st', (st' = .connecting ∨ st' = .connectingIdle) ∧
        lcRun st (l.map Call.connect ++ rest) = lcRun st' rest := by
    intro l
    induction l with
    | nil => intro st rest hst _; exact ⟨st, hst, rfl⟩
    | cons r rs ih =>
      intro st rest hst hall
      have hr := hall r (by simp)
      have hstep : lcStep st (.connect r) = some r := by
        rcases hst with h | h <;> rcases hr with h' | h' <;> subst h <;> subst h' <;> rfl
      simp only [List.map_cons, List.cons_append, lcRun, hstep]
      exact ih r rest hr (fun x hx => hall x (List.mem_cons_of_mem _ hx))
  have hupd : ∀ (k : Nat) (st : St), (st = .validated ∨ st = .updated) →
      lcRun st (List.replicate k Call.update ++ [Call.finalize]) = some .finalized := by
    intro k
    induction k with
    | zero => intro st hst; rcases hst with h | h <;> subst h <;> rfl
    | succ k ih =>
      intro st hst
      have : lcStep st .update = some .updated := by rcases hst with h | h <;> subst h <;> rfl
      simp only [List.replicate_succ, List.cons_append, lcRun, this]
      exact ih .updated (Or.inr rfl)
  simp only [List.cons_append, List.nil_append, lcRun, lcStep, List.append_assoc]
  simp only [if_true]
  obtain ⟨st', h2, h1⟩ := hconn mid .connecting ([Call.connect .connected] ++ ([Call.validate] ++
    (List.replicate m Call.update ++ [Call.finalize]))) (Or.inl rfl) hmid
  simp only [List.cons_append, List.nil_append] at h1
  rw [h1]
  have : lcStep st' (.connect .connected) = some .connected := by
    rcases h2 with h | h <;> rw [h] <;> rfl
  simp only [lcRun, this]
  simp only [lcStep, if_true]
  exact hupd m .validated (Or.inl rfl)

/-- out-of-order calls are caught: e.g. validating a component that is not connected, or
    initialising twice, fails the driver's status check -/
example : lcRun .created [.initialize, .connect .connecting, .validate] = none ∧
          lcRun .created [.initialize, .initialize] = none ∧
          lcRun .created [.initialize, .connect .connecting, .connect .connected, .validate, .update, .finalize]
            = some .finalized := by decide

theorem mem_dedup (a : Nat) : ∀ (l : List Nat), a ∈ dedup l ↔ a ∈ l := by
  intro l
  induction l with
  | nil => simp [dedup]
  | cons x xs ih =>
    simp only [dedup]
    split
    · rename_i hx
      rw [ih]
      constructor
      · intro h; exact List.mem_cons_of_mem _ h
      · intro h
        cases h with
        | head => exact hx
        | tail _ h' => exact h'
    · simp [ih]

theorem nodup_dedup : ∀ (l : List Nat), (dedup l).Nodup := by
  intro l
  induction l with
  | nil => simp [dedup]
  | cons x xs ih =>
    simp only [dedup]
    split
    · exact ih
    · rename_i hx
      exact List.nodup_cons.mpr ⟨fun h => hx ((mem_dedup x xs).mp h), ih⟩

/-- **Every adapter is finalized exactly once**: the adapters gathered from the input side and from
    the output side of all links (each adapter is met on both walks) form a set. -/
theorem adapters_finalized_once (collected : List Nat) (a : Nat) :
    (finalizeList collected).count a = if a ∈ collected then 1 else 0 := by
  have h := (nodup_dedup collected).count (a := a)
  simp only [finalizeList, h, mem_dedup]

example : finalizeList [3, 1, 3, 2, 1] = [3, 2, 1] := by decide

end Finam.Props.C03
