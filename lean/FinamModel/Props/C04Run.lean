import FinamModel.Props.C03Run
/-!
  C04, second sentence at run level — a composition whose cycles carry enough delay runs to completion:
  the driver never reports a circular coupling, never gets stuck, and `run(end_time)` ends normally.

  "Enough delay" is stated through a *potential* `π` on the components: for every (non-static) link from
  producer `p` to consumer `c`,  `π p + M c − delay(link) ≤ π c`,  where `M c` bounds the steps of `c` and
  `delay(link)` is the accumulated delay of the link's `DelayFixed` adapters that take effect on the
  request (those in front of the first push-based adapter, seen from the consumer).  Such a potential
  exists exactly when every cycle carries at least the sum of the largest steps of its components
  (shortest-path duality); on a ring it can be written down directly (example below: ring A(3)/B(4) with
  the delay split 4 + 3 over two adapters on one link).

  Argument: along every edge of the dependency walk the level `time + π` strictly decreases
  (`edge_level`: the producer lags behind `next(c) − delay ≤ time(c) + M c − delay`), so the walk cannot
  close a cycle (`no_lag_cycle`), hence by `C04.circular_sound` no circular-coupling error
  (`no_circular`); with `C03Run.run_terminates`, `C04.updateRec_fuel_enough` and the absence of finished
  components every outcome but normal completion is excluded (`sufficient_delay_run_completes`).
  Scope: time-stepped components, adapters pass-through / push-based / no-dependency / fixed delay.
-/
namespace Finam.Props.C04Run
open Finam Finam.Props.C05Run Finam.Props.C03Run

/-- accumulated delay that takes effect on a consumer's request -/
def delayOf : List Ad → Int
  | [] => 0
  | .pass :: r => delayOf r
  | .cache :: _ => 0
  | .dfix d _ :: r => d + delayOf r
  | _ :: r => delayOf r

/-- delays are non-negative and the clamps (`initial_time`) lie at or before `I` -/
def initsLe (I : Int) (ads : List Ad) : Prop :=
  ∀ a ∈ ads, match a with | .dfix d i => 0 ≤ d ∧ i ≤ I | _ => True

theorem delayOf_nonneg : ∀ (ads : List Ad) (I : Int), initsLe I ads → 0 ≤ delayOf ads := by
  intro ads
  induction ads with
  | nil => intro I _; simp [delayOf]
  | cons a r ih =>
    intro I h
    have hr : initsLe I r := fun x hx => h x (List.mem_cons_of_mem _ hx)
    have ha := h a List.mem_cons_self
    cases a with
    | dfix d i => simp only [delayOf]; have := ih I hr; simp only at ha; omega
    | cache => simp [delayOf]
    | pass => simp only [delayOf]; exact ih I hr
    | nodep => simp only [delayOf]; exact ih I hr
    | dpush => simp only [delayOf]; exact ih I hr
    | dpull _ _ _ _ => simp only [delayOf]; exact ih I hr

/-- the requirement of a link is the request minus the accumulated delay, or a clamp -/
theorem need_le_delay : ∀ (ads : List Ad) (t lt I : Int), (∀ a ∈ ads, adSimple a = true) → initsLe I ads →
    need [] ads t = some lt → lt ≤ t - delayOf ads ∨ lt ≤ I := by
  intro ads
  induction ads with
  | nil => intro t lt I _ _ h; simp [need] at h; left; simp [delayOf]; omega
  | cons a r ih =>
    intro t lt I hs hi h
    have hsr : ∀ a ∈ r, adSimple a = true := fun x hx => hs x (List.mem_cons_of_mem _ hx)
    have hir : initsLe I r := fun x hx => hi x (List.mem_cons_of_mem _ hx)
    have hsa := hs a List.mem_cons_self
    have hia := hi a List.mem_cons_self
    cases a with
    | pass => simp only [need] at h; simp only [delayOf]; exact ih t lt I hsr hir h
    | cache => simp [need] at h; left; simp [delayOf]; omega
    | nodep => simp [need] at h
    | dpush => simp [adSimple] at hsa
    | dpull _ _ _ _ => simp [adSimple] at hsa
    | dfix d i =>
      simp only [need] at h
      simp only at hia
      have hD := delayOf_nonneg r I hir
      simp only [delayOf]
      rcases ih _ lt I hsr hir h with h' | h'
      · simp only [Ad.withDelay, imin] at h'
        split at h'
        · split at h' <;> first | (left; omega) | (right; omega)
        · left; omega
      · exact Or.inr h'

/-- the invariant of "enough delay" compositions -/
structure CycOk (M : Int) (Mc π : Nat → Int) (s : State) : Prop where
  wft : WFT M s
  allTime : ∀ c, c < s.comps.length → (s.comp c).isTime = true
  notFin : ∀ c, isFinished (s.comp c) = false
  simple : ∀ c l, l ∈ (s.comp c).inputs → ∀ a ∈ l.ads, adSimple a = true
  stepc : ∀ c, c < s.comps.length → getNext (s.comp c) ≤ getNow (s.comp c) + Mc c ∧ ∀ x ∈ (s.comp c).steps, x ≤ Mc c
  inits : ∀ c l, l ∈ (s.comp c).inputs → initsLe (getNow (s.comp (s.out l.src).owner)) l.ads
  potential : ∀ c l, l ∈ (s.comp c).inputs → l.static = false → π (s.out l.src).owner + Mc c - delayOf l.ads ≤ π c

/-- along an edge of the dependency walk the level `time + π` strictly decreases -/
theorem edge_level {M : Int} {Mc π : Nat → Int} {s : State} (h : CycOk M Mc π s) {c p : Nat} {tgt tgt' : Option Int}
    (he : C04.Edge s (c, tgt) (p, tgt')) : getNow (s.comp p) + π p < getNow (s.comp c) + π c := by
  generalize ha : (c, tgt) = a at he
  generalize hb : (p, tgt') = b at he
  cases he with
  | time c1 tgt1 o lt hmem hT hlag =>
    cases ha; cases hb
    obtain ⟨l, hl, hst, hsrc, hn, _⟩ := C02.findDeps_mem_link s c _ o lt hmem
    have hc : c < s.comps.length := by
      rcases Nat.lt_or_ge c s.comps.length with h' | h'
      · exact h'
      · rw [comp_default s c h'] at hl; cases hl
    have hTc := h.allTime c hc
    rw [need_simple s.dp l.ads _ (h.simple c l hl), targetOf_time tgt hTc] at hn
    have ho : o < s.outs.length := by rw [← hsrc]; exact h.wft.srcLt c l hl
    have hot := h.wft.outTime o ho hT
    have hin := h.inits c l hl
    rw [hsrc] at hin
    have hpot := h.potential c l hl hst
    rw [hsrc] at hpot
    have hstep := (h.stepc c hc).1
    rcases need_le_delay l.ads _ lt _ (h.simple c l hl) hin hn with h1 | h1
    · omega
    · omega
  | pull c1 tgt1 o lt hmem hP =>
    cases ha; cases hb
    obtain ⟨l, hl, _, hsrc, _, _⟩ := C02.findDeps_mem_link s c _ o lt hmem
    have ho : o < s.outs.length := by rw [← hsrc]; exact h.wft.srcLt c l hl
    have := h.allTime _ (h.wft.owners o)
    rw [this] at hP; cases hP

theorem star_level {M : Int} {Mc π : Nat → Int} {s : State} (h : CycOk M Mc π s) {a b : Nat × Option Int}
    (hs : C04.Star s a b) : getNow (s.comp b.1) + π b.1 ≤ getNow (s.comp a.1) + π a.1 := by
  induction hs with
  | refl => exact Int.le_refl _
  | @step a m b e _ ih =>
    obtain ⟨ac, atg⟩ := a
    obtain ⟨mc, mt⟩ := m
    have := edge_level h e
    simp only at ih this ⊢
    omega

/-- **No cycle of lagging dependencies** exists in a state of an "enough delay" composition. -/
theorem no_lag_cycle {M : Int} {Mc π : Nat → Int} {s : State} (h : CycOk M Mc π s) (x : Nat) (t1 t2 : Option Int) :
    ¬ C04.Plus s (x, t1) (x, t2) := by
  intro hp
  cases hp with
  | mk e hs =>
    rename_i m
    obtain ⟨mc, mt⟩ := m
    have h1 := edge_level h e
    have h2 := star_level h hs
    simp only at h1 h2
    omega

/-- **No circular-coupling error**: the dependency walk of the run loop never reports a cycle. -/
theorem no_circular {M : Int} {Mc π : Nat → Int} {s : State} (h : CycOk M Mc π s) (fuel c : Nat) :
    updateRec s fuel c [] none ≠ .error .circular := by
  intro he
  obtain ⟨x, t1, t2, _, hp⟩ := C04.circular_sound s fuel c he
  exact no_lag_cycle h x t1 t2 hp

/-! ### the remaining outcomes -/

theorem not_finished_aux (s : State) (hnf : ∀ c, isFinished (s.comp c) = false) : ∀ (fuel : Nat),
    (∀ c chain tgt, updateRec s fuel c chain tgt ≠ .error .finished) ∧
    (∀ chain deps, depsLoop s fuel chain deps ≠ .error .finished) := by
  intro fuel
  induction fuel with
  | zero =>
    constructor
    · intro c chain tgt h; simp [updateRec] at h
    · intro chain deps
      induction deps with
      | nil => intro h; simp [depsLoop] at h
      | cons p ps ih =>
        obtain ⟨o, lt⟩ := p
        intro h
        simp only [depsLoop] at h
        split at h
        · split at h
          · simp [updateRec] at h
          · exact ih h
        · simp [updateRec] at h
  | succ n ihn =>
    obtain ⟨ihU, ihL⟩ := ihn
    have hU : ∀ c chain tgt, updateRec s (n+1) c chain tgt ≠ .error .finished := by
      intro c chain tgt h
      simp only [updateRec] at h
      split at h
      · cases h
      · split at h
        · rename_i e he; cases h; exact ihL _ _ he
        · cases h
        · split at h
          · rename_i a b fin hk
            split at h
            · rename_i hf
              have := hnf c
              simp only [isFinished, hk] at this
              rw [this] at hf; cases hf
            · cases h
          · cases h
    refine ⟨hU, ?_⟩
    intro chain deps
    induction deps with
    | nil => intro h; simp [depsLoop] at h
    | cons p ps ih =>
      obtain ⟨o, lt⟩ := p
      intro h
      simp only [depsLoop] at h
      split at h
      · split at h
        · exact hU _ _ _ h
        · exact ih h
      · split at h
        · rename_i e he; cases h; exact hU _ _ _ he
        · cases h
        · exact ih h

theorem time_not_none (s : State) (fuel c : Nat) (chain : List Nat) (tgt : Option Int)
    (hT : (s.comp c).isTime = true) : updateRec s fuel c chain tgt ≠ .ok none := by
  intro h
  cases fuel with
  | zero => simp [updateRec] at h
  | succ n =>
    simp only [updateRec] at h
    split at h
    · cases h
    · split at h
      · cases h
      · cases h
      · split at h
        · split at h <;> cases h
        · rename_i hk; simp [Comp.isTime, hk] at hT

/-- `CycOk` is preserved by an update -/
theorem cycOk_update {M : Int} {Mc π : Nat → Int} {s : State} (h : CycOk M Mc π s) (hMc : ∀ c, 1 ≤ Mc c) (u : Nat)
    (hu : u < s.comps.length) (hT : (s.comp u).isTime = true) : CycOk M Mc π (applyUpdate s u) where
  wft := wft_update h.wft u hu hT
  allTime := by
    intro c hc
    rw [applyUpdate_len] at hc
    rw [applyUpdate_comp s u hu hT c]
    split
    · rename_i e; subst e; rw [adv1_isTime]; exact hT
    · exact h.allTime c hc
  notFin := by
    intro c
    rw [applyUpdate_comp s u hu hT c]
    split
    · rw [adv1_fin]; exact h.notFin u
    · exact h.notFin c
  simple := by
    intro c l hl
    rw [applyUpdate_inputs s u hu hT c] at hl
    exact h.simple c l hl
  stepc := by
    intro c hc
    rw [applyUpdate_len] at hc
    rw [applyUpdate_comp s u hu hT c]
    by_cases hcu : c = u
    · subst hcu
      simp only [if_true]
      have hs := h.stepc c hc
      refine ⟨?_, by rw [adv1_steps]; exact hs.2⟩
      unfold adv1
      cases hk : (s.comp c).kind with
      | pull => simp [Comp.isTime, hk] at hT
      | time nw nx fin =>
        simp only [getNow, getNext]
        by_cases he : (s.comp c).steps.isEmpty = true
        · simp only [he, if_true]; have := hMc c; omega
        · simp only [he]
          have hlen : 0 < (s.comp c).steps.length := by
            cases hs' : (s.comp c).steps with
            | nil => simp [hs'] at he
            | cons a l => simp
          have hlt : ((s.comp c).k + 1) % (s.comp c).steps.length < (s.comp c).steps.length := Nat.mod_lt _ hlen
          have : (s.comp c).steps.getD (((s.comp c).k + 1) % (s.comp c).steps.length) 1 =
              (s.comp c).steps[((s.comp c).k + 1) % (s.comp c).steps.length] := by
            simp [List.getD_eq_getElem?_getD, List.getElem?_eq_getElem hlt]
          have hb := hs.2 _ (List.getElem_mem hlt)
          simp only [Bool.false_eq_true, if_false]
          omega
    · simp only [hcu, if_false]; exact h.stepc c hc
  inits := by
    intro c l hl
    rw [applyUpdate_inputs s u hu hT c] at hl
    have ho := h.wft.srcLt c l hl
    have hold := h.inits c l hl
    have howner : ((applyUpdate s u).out l.src).owner = (s.out l.src).owner := by
      rw [applyUpdate_out s u hT l.src ho]; split <;> rfl
    rw [howner, applyUpdate_comp s u hu hT _]
    intro a ha
    have := hold a ha
    by_cases hou : (s.out l.src).owner = u
    · simp only [hou, if_true, adv1_now]
      rw [hou] at this
      have hpos := (h.wft.steps u hu hT).1
      cases a with
      | dfix d i => simp only at this ⊢; omega
      | _ => trivial
    · simp only [hou, if_false]; exact this
  potential := by
    intro c l hl hst
    rw [applyUpdate_inputs s u hu hT c] at hl
    have ho := h.wft.srcLt c l hl
    have howner : ((applyUpdate s u).out l.src).owner = (s.out l.src).owner := by
      rw [applyUpdate_out s u hT l.src ho]; split <;> rfl
    rw [howner]; exact h.potential c l hl hst

/-- **A composition whose cycles carry enough delay runs to completion.**  From a state in which
    something is behind the end time, with fuel above the potential of `C03Run.run_terminates`, the run loop
    ends `.done`: no circular-coupling error, no other error, no exhaustion. -/
theorem sufficient_delay_run_completes {M : Int} {Mc π : Nat → Int} (hMc : ∀ c, 1 ≤ Mc c) (endT : Int) :
    ∀ (fuel : Nat) (s : State) (acc : List (Nat × Int)), CycOk M Mc π s → anyRunning s endT = true →
    phi (bound M endT s) s < fuel → (runLoop fuel s endT acc).2.1 = .done := by
  intro fuel
  induction fuel with
  | zero => intro s acc _ _ h; omega
  | succ n ih =>
    intro s acc hc hrun hphi
    obtain ⟨c, hcl, nw, nx, f, hkc, hlt⟩ := anyRunning_witness s endT hrun
    simp only [runLoop]
    cases hsel : select s with
    | none => simp
    | some c0 =>
      simp only []
      obtain ⟨hc0, hT0, hmin, _⟩ := C02.select_least s c0 hsel
      have hnow0 : getNow (s.comp c0) < endT := by
        have := hmin c hcl (by simp [Comp.isTime, hkc])
        have e : getNow (s.comp c) = nw := by simp only [getNow, hkc]
        omega
      cases hr : updateRec s (s.comps.length + 1) c0 [] none with
      | error e =>
        exfalso
        cases e with
        | circular => exact no_circular hc _ c0 hr
        | finished => exact (not_finished_aux s hc.notFin _).1 c0 [] none hr
        | fuel => exact C04.run_call_never_out_of_fuel s hc.wft.owners c0 hc0 hr
      | ok r =>
        cases r with
        | none => exact absurd hr (time_not_none s _ c0 [] none hT0)
        | some u =>
          simp only []
          obtain ⟨hu, hTu, hbelow⟩ := updated_below hc.wft endT c0 u hc0 hT0 hnow0 hr
          by_cases hrun' : anyRunning (applyUpdate s u) endT = true
          · simp only [hrun', if_true]
            apply ih _ _ (cycOk_update hc hMc u hu hTu) hrun'
            have hb : bound M endT (applyUpdate s u) = bound M endT s := by simp only [bound, applyUpdate_len]
            rw [hb]
            have := phi_update hc.wft (bound M endT s) u hu hTu hbelow
            omega
          · simp [hrun']

/-! ### non-vacuity: the ring A(3) / B(4) with the delay split 4 + 3 on the link A → B -/

def exRing : State :=
  { comps := [⟨.time 0 3 false, [⟨[], 1, false⟩], [3], 0⟩,
              ⟨.time 0 4 false, [⟨[.dfix 4 0, .dfix 3 0], 0, false⟩], [4], 0⟩],
    outs := [⟨0, 0⟩, ⟨1, 0⟩], dp := [] }

def exMc : Nat → Int := fun c => if c = 0 then 3 else 4
def exPi : Nat → Int := fun c => if c = 0 then 3 else 0

theorem exRing_comp_ge (c : Nat) (h : 2 ≤ c) : exRing.comp c = ⟨.pull, [], [], 0⟩ :=
  comp_default exRing c (by simpa [exRing] using h)

theorem exRing_wft : WFT 4 exRing where
  mpos := by decide
  steps := by
    intro c hc _
    have : c = 0 ∨ c = 1 := by simp [exRing] at hc; omega
    rcases this with h | h <;> subst h <;>
      (refine ⟨?_, ?_, ?_⟩ <;> simp [exRing, State.comp, getNow, getNext])
  ads := by
    intro c l hl a ha
    rcases Nat.lt_or_ge c 2 with h | h
    · have : c = 0 ∨ c = 1 := by omega
      rcases this with h | h <;> subst h <;> simp [exRing, State.comp] at hl <;> subst hl <;> simp at ha
      rcases ha with ha | ha <;> subst ha <;> simp [C01.Ad.wf]
    · rw [exRing_comp_ge c h] at hl; cases hl
  owners := by
    intro o
    rcases Nat.lt_or_ge o 2 with h | h
    · have : o = 0 ∨ o = 1 := by omega
      rcases this with h | h <;> subst h <;> simp [exRing, State.out]
    · rw [out_default exRing o (by simpa [exRing] using h)]; simp [exRing]
  srcLt := by
    intro c l hl
    rcases Nat.lt_or_ge c 2 with h | h
    · have : c = 0 ∨ c = 1 := by omega
      rcases this with h | h <;> subst h <;> simp [exRing, State.comp] at hl <;> subst hl <;> simp [exRing]
    · rw [exRing_comp_ge c h] at hl; cases hl
  outTime := by
    intro o ho _
    have : o = 0 ∨ o = 1 := by simp [exRing] at ho; omega
    rcases this with h | h <;> subst h <;> rfl

theorem exRing_ok : CycOk 4 exMc exPi exRing where
  wft := exRing_wft
  allTime := by
    intro c hc
    have : c = 0 ∨ c = 1 := by simp [exRing] at hc; omega
    rcases this with h | h <;> subst h <;> rfl
  notFin := by
    intro c
    rcases Nat.lt_or_ge c 2 with h | h
    · have : c = 0 ∨ c = 1 := by omega
      rcases this with h | h <;> subst h <;> rfl
    · rw [exRing_comp_ge c h]; rfl
  simple := by
    intro c l hl a ha
    rcases Nat.lt_or_ge c 2 with h | h
    · have : c = 0 ∨ c = 1 := by omega
      rcases this with h | h <;> subst h <;> simp [exRing, State.comp] at hl <;> subst hl <;> simp at ha
      rcases ha with ha | ha <;> subst ha <;> rfl
    · rw [exRing_comp_ge c h] at hl; cases hl
  stepc := by
    intro c hc
    have : c = 0 ∨ c = 1 := by simp [exRing] at hc; omega
    rcases this with h | h <;> subst h <;> simp [exRing, State.comp, getNow, getNext, exMc]
  inits := by
    intro c l hl a ha
    rcases Nat.lt_or_ge c 2 with h | h
    · have : c = 0 ∨ c = 1 := by omega
      rcases this with h | h <;> subst h <;> simp [exRing, State.comp] at hl <;> subst hl <;> simp at ha
      rcases ha with ha | ha <;> subst ha <;> simp [exRing, State.comp, State.out, getNow]
    · rw [exRing_comp_ge c h] at hl; cases hl
  potential := by
    intro c l hl _
    rcases Nat.lt_or_ge c 2 with h | h
    · have : c = 0 ∨ c = 1 := by omega
      rcases this with h | h <;> subst h <;> simp [exRing, State.comp] at hl <;> subst hl <;>
        simp [exRing, State.out, exMc, exPi, delayOf]
    · rw [exRing_comp_ge c h] at hl; cases hl

/-- the ring with split delay never reports a circular coupling and runs to completion (end time 12) -/
example : ∀ acc, (runLoop 57 exRing 12 acc).2.1 = .done :=
  fun acc => sufficient_delay_run_completes (M := 4) (Mc := exMc) (π := exPi)
    (fun c => by simp only [exMc]; split <;> decide) 12 57 exRing acc exRing_ok (by decide) (by decide)

end Finam.Props.C04Run
