import FinamModel.SchedLemmas
import FinamModel.DataPath
/-!
  C13 — delay adapters deliver exactly the source's data for the shifted time.

  Domain: requests at or after the start time (`initial_time`, the time of the exchanged metadata);
  delays are not negative.
-/
namespace Finam.Props.C13
open Finam

/-- **Fixed delay.** A request for `t ≥ start` is forwarded as `max (t - delay) start`. -/
theorem dfix_request (dp : DP) (d init t : Int) (hd : 0 ≤ d) (ht : init ≤ t) :
    (Ad.dfix d init).withDelay dp t = max (t - d) init := by
  simp only [Ad.withDelay, imin]
  split <;> (try split) <;> omega

/-- the `n`-th most recent request (1-based) among the requests `h` made so far, or the start time
    while fewer than `n` pulls have happened -/
def nthPrev (n : Nat) (init : Int) (h : List Int) : Int := h.reverse.getD (n - 1) init

/-- the table entry of a `DelayToPull(steps = n)` adapter after the requests `h` (original times):
    `_pulled` appends and trims from the front; the first `with_delay` seeds the table with the
    start time -/
def tableAfter (n : Nat) (init : Int) (h : List Int) : List Int :=
  h.foldl (fun tab t => trimTo n ((if tab.isEmpty then [init] else tab) ++ [t])) []

theorem trim_trim_append (n : Nat) (hn : 0 < n) (l : List Int) (t : Int) :
    trimTo n (trimTo n l ++ [t]) = trimTo n (l ++ [t]) := by
  simp only [trimTo, List.length_append, List.length_drop, List.length_cons, List.length_nil]
  by_cases hle : n ≤ l.length
  · have h1 : l.length - (l.length - n) + (0 + 1) - n = 1 := by omega
    have h2 : l.length + (0 + 1) - n = (l.length - n) + 1 := by omega
    rw [h1, h2]
    rw [List.drop_append_of_le_length (by simp; omega), List.drop_drop]
    rw [List.drop_append_of_le_length (by omega)]
    try (congr 2; omega)
  · have h0 : l.length - n = 0 := by omega
    rw [h0]
    simp only [List.drop_zero, Nat.sub_zero]

theorem trim_nonempty (n : Nat) (hn : 0 < n) (x : Int) (l : List Int) : (trimTo n (x :: l)).isEmpty = false := by
  have hl : (trimTo n (x :: l)).length = min n (l.length + 1) := by
    simp only [trimTo, List.length_drop, List.length_cons]; omega
  cases htl : trimTo n (x :: l) with
  | nil => rw [htl] at hl; simp at hl; omega
  | cons _ _ => rfl

theorem table_fold (n : Nat) (hn : 0 < n) (init : Int) : ∀ (h pre : List Int),
    h.foldl (fun tab t => trimTo n ((if tab.isEmpty then [init] else tab) ++ [t])) (trimTo n (init :: pre)) =
      trimTo n (init :: (pre ++ h)) := by
  intro h
  induction h with
  | nil => intro pre; simp
  | cons t h ih =>
    intro pre
    simp only [List.foldl_cons, trim_nonempty n hn, Bool.false_eq_true, if_false]
    rw [trim_trim_append n hn]
    have := ih (pre ++ [t])
    simp only [List.cons_append, List.append_assoc, List.singleton_append] at this ⊢
    exact this

/-- invariant of the request table: it holds the last `n` elements of `start :: requests` -/
theorem tableAfter_eq (n : Nat) (hn : 0 < n) (init : Int) (h : List Int) (hne : h ≠ []) :
    tableAfter n init h = trimTo n (init :: h) := by
  cases h with
  | nil => exact absurd rfl hne
  | cons t h' =>
    simp only [tableAfter, List.foldl_cons, List.isEmpty_nil, if_true]
    have := table_fold n hn init h' [t]
    simpa using this

theorem trim_head (n : Nat) (hn : 0 < n) (init : Int) (h : List Int) :
    ((trimTo n (init :: h)).head?).getD init = nthPrev n init h := by
  simp only [trimTo, nthPrev, List.head?_drop, List.length_cons, List.getD_eq_getElem?_getD]
  by_cases hle : n ≤ h.length
  · have h1 : h.length + 1 - n = (h.length - n) + 1 := by omega
    rw [h1, List.getElem?_cons_succ, List.getElem?_reverse (by omega)]
    congr 2
    omega
  · have h0 : h.length + 1 - n = 0 := by omega
    rw [h0]
    simp only [List.getElem?_cons_zero, Option.getD_some]
    rw [List.getElem?_eq_none (by simp; omega)]
    rfl

/-- head of the table = the `n`-th previous request -/
theorem table_head (n : Nat) (hn : 0 < n) (init : Int) (h : List Int) :
    ((tableAfter n init h).head?).getD init = nthPrev n init h := by
  by_cases hnil : h = []
  · subst hnil; simp [tableAfter, nthPrev]
  · rw [tableAfter_eq n hn init h hnil]; exact trim_head n hn init h

/-- **Delay to pull.** With `n` steps, a request for `t` is forwarded as the time of the `n`-th
    previous request minus the extra delay, not before the start time (and never after `t`). -/
theorem dpull_request (dp : DP) (id n : Nat) (hn : 0 < n) (add init t : Int) (h : List Int)
    (htab : dp.getD id [] = tableAfter n init h) :
    (Ad.dpull id n add init).withDelay dp t = imin t (max (nthPrev n init h - add) init) := by
  simp only [Ad.withDelay]
  rw [htab, table_head n hn init h]
  congr 1
  split <;> omega

/-- **Delay to push.** A request for `t` is forwarded as `min t (newest publication)`. -/
theorem dpush_request (dp : DP) (newest : Int) (r : List Ad) (t : Int) :
    reach dp newest (.dpush :: r) t = reach dp newest r (imin t newest) := rfl

/-- two fixed delays in a row act like one fixed delay by the sum -/
theorem dfix_compose (dp : DP) (d1 d2 init t : Int) (h1 : 0 ≤ d1) (h2 : 0 ≤ d2) :
    (Ad.dfix d2 init).withDelay dp ((Ad.dfix d1 init).withDelay dp t) = (Ad.dfix (d1 + d2) init).withDelay dp t := by
  simp only [Ad.withDelay, imin]
  split <;> split <;> (try split) <;> (try split) <;> omega

/-- **Delays of chained adapters add up**, also with pass-through adapters in between: a chain of
    fixed delays `d₁ … d_k` (consumer side first) demands `t - Σ dᵢ` of the source, clamped at the
    start time. -/
def sumDelays : List Ad → Int
  | [] => 0
  | .dfix d _ :: r => d + sumDelays r
  | _ :: r => sumDelays r

def onlyFixAndPass (init : Int) : List Ad → Prop
  | [] => True
  | .dfix d i :: r => 0 ≤ d ∧ i = init ∧ onlyFixAndPass init r
  | .pass :: r => onlyFixAndPass init r
  | _ :: _ => False

theorem chain_delays_add (dp : DP) (init : Int) : ∀ (ads : List Ad) (t : Int), onlyFixAndPass init ads → init ≤ t →
    need dp ads t = some (max (t - sumDelays ads) init) ∧ 0 ≤ sumDelays ads := by
  intro ads
  induction ads with
  | nil =>
    intro t _ ht
    simp only [need, sumDelays]
    refine ⟨?_, by omega⟩
    congr 1
    omega
  | cons a r ih =>
    intro t hw ht
    cases a with
    | pass =>
      simp only [onlyFixAndPass] at hw
      simpa [need, sumDelays] using ih t hw ht
    | dfix d i =>
      simp only [onlyFixAndPass] at hw
      obtain ⟨hd, hi, hr⟩ := hw
      subst hi
      simp only [need, sumDelays]
      have hreq := dfix_request dp d i t hd ht
      rw [hreq]
      have := ih (max (t - d) i) hr (by omega)
      constructor
      · rw [this.1]; congr 1; omega
      · omega
    | cache => simp [onlyFixAndPass] at hw
    | nodep => simp [onlyFixAndPass] at hw
    | dpush => simp [onlyFixAndPass] at hw
    | dpull _ _ _ _ => simp [onlyFixAndPass] at hw

def noBarrier : List Ad → Bool
  | [] => true
  | .cache :: _ => false
  | .nodep :: _ => false
  | .dpush :: _ => false
  | _ :: r => noBarrier r

/-- **Assumed = actual.** On a link of delay and pass-through adapters the time the driver checks
    (`walk`) is the time that actually reaches the source output (`reach`). -/
theorem sched_assumed_eq_actual (dp : DP) (newest : Int) : ∀ (ads : List Ad) (t : Int), noBarrier ads = true →
    ∃ lt, walk dp ads t false = some lt ∧ reach dp newest ads t = .atSource lt := by
  intro ads
  induction ads with
  | nil => intro t _; exact ⟨t, rfl, rfl⟩
  | cons a r ih =>
    intro t hb
    rw [Finam.walk_eq_need]
    cases a with
    | pass => simp only [need, reach]; rw [← Finam.walk_eq_need]; exact ih t (by simpa [noBarrier] using hb)
    | dfix d i => simp only [need, reach]; rw [← Finam.walk_eq_need]; exact ih _ (by simpa [noBarrier] using hb)
    | dpull id n a i => simp only [need, reach]; rw [← Finam.walk_eq_need]; exact ih _ (by simpa [noBarrier] using hb)
    | cache => simp [noBarrier] at hb
    | nodep => simp [noBarrier] at hb
    | dpush => simp [noBarrier] at hb

example : (Ad.dfix 3 0).withDelay [] 10 = 7 ∧ (Ad.dfix 3 5).withDelay [] 6 = 5 ∧
    need [] [.dfix 2 0, .pass, .dfix 3 0] 10 = some 5 ∧
    nthPrev 2 0 [4, 6, 9] = 6 ∧ nthPrev 2 0 [4] = 0 ∧ tableAfter 2 0 [4, 6, 9] = [6, 9] ∧
    (Ad.dpull 0 2 1 0).withDelay [[6, 9]] 12 = 5 := by decide

end Finam.Props.C13
