import FinamModel.Sched
/-! Lemmas about the scheduler model (ported from the design-phase spike and extended). -/
namespace Finam

theorem Ad.withDelay_mono (dp : DP) (a : Ad) {t t' : Int} (h : t' ≤ t) : a.withDelay dp t' ≤ a.withDelay dp t := by
  cases a <;> simp only [Ad.withDelay, imin] <;> grind

theorem walk_pushed (dp : DP) : ∀ (r : List Ad) (lt : Int), walk dp r lt true = some lt := by
  intro r
  induction r with
  | nil => intro lt; rfl
  | cons a r ih => intro lt; simp [walk, ih]

/-- **The scheduler's assumed time is the semantic requirement** (C01, C02, C13): for every adapter
    chain, request time and request-history table, the loop of `_find_dependencies` computes exactly
    what the data path demands of the source. -/
theorem walk_eq_need (dp : DP) : ∀ (ads : List Ad) (t : Int), walk dp ads t false = need dp ads t := by
  intro ads
  induction ads with
  | nil => intro t; rfl
  | cons a r ih =>
    intro t
    cases a with
    | pass => simp only [walk, need]; exact ih t
    | cache => simp only [walk, need]; exact walk_pushed dp r t
    | nodep => simp [walk, need]
    | dpush => simp [walk, need]
    | dfix d i => simp only [walk, need]; exact ih _
    | dpull id n a i => simp only [walk, need]; exact ih _

theorem need_mono (dp : DP) : ∀ (ads : List Ad) {t t' : Int}, t' ≤ t → ∀ lt', need dp ads t' = some lt' →
    ∃ lt, need dp ads t = some lt ∧ lt' ≤ lt := by
  intro ads
  induction ads with
  | nil => intro t t' h lt' h'; simp [need] at *; omega
  | cons a r ih =>
    intro t t' h lt' h'
    cases a with
    | pass => simp only [need] at *; exact ih h lt' h'
    | cache => simp [need] at *; omega
    | nodep => simp [need] at h'
    | dpush => simp [need] at h'
    | dfix d i => simp only [need] at *; exact ih (Ad.withDelay_mono dp _ h) lt' h'
    | dpull id n a i => simp only [need] at *; exact ih (Ad.withDelay_mono dp _ h) lt' h'

theorem Avail.mono {s : State} {o : Nat} {t : Int} (h : Avail s o t) : ∀ {t'}, t' ≤ t → Avail s o t' := by
  induction h with
  | time o t ht hle => intro t' h'; exact .time o t' ht (by omega)
  | pull o t hp _ ih =>
    intro t' h'
    refine .pull o t' hp ?_
    intro l hl hs lt' hn
    obtain ⟨lt, hlt, hle⟩ := need_mono s.dp l.ads h' lt' hn
    exact ih l hl hs lt hlt hle

/-- every dep recorded in the dict is available ⇒ component ready -/
def DepsAvail (s : State) (deps : List (Nat × Int)) : Prop := ∀ p ∈ deps, Avail s p.1 p.2

theorem depsInsert_mem {deps : List (Nat × Int)} {o : Nat} {t : Int} :
    ∃ t', (o, t') ∈ depsInsert deps o t ∧ t ≤ t' := by
  induction deps with
  | nil => exact ⟨t, by simp [depsInsert], by omega⟩
  | cons p r ih =>
    obtain ⟨o', t'⟩ := p
    simp only [depsInsert]
    by_cases h : o' = o
    · subst h; simp only [if_true]; by_cases h2 : t > t'
      · exact ⟨t, by simp [h2], by omega⟩
      · exact ⟨t', by simp [h2], by omega⟩
    · simp only [h, if_false]; obtain ⟨t'', hm, hle⟩ := ih; exact ⟨t'', by simp [hm], hle⟩

theorem depsInsert_keeps {deps : List (Nat × Int)} {o : Nat} {t : Int} {p : Nat × Int} (hp : p ∈ deps) :
    ∃ t', (p.1, t') ∈ depsInsert deps o t ∧ p.2 ≤ t' := by
  induction deps with
  | nil => cases hp
  | cons q r ih =>
    obtain ⟨o', t'⟩ := q
    simp only [depsInsert]
    by_cases h : o' = o
    · subst h; simp only [if_true]
      cases hp with
      | head => by_cases h2 : t > t'
                · exact ⟨t, by simp [h2], by simp; omega⟩
                · exact ⟨t', by simp [h2], by simp⟩
      | tail _ hr => exact ⟨p.2, List.mem_cons_of_mem _ hr, by omega⟩
    · simp only [h, if_false]
      cases hp with
      | head => exact ⟨t', by simp, by simp⟩
      | tail _ hr => obtain ⟨t'', hm, hle⟩ := ih hr; exact ⟨t'', by simp [hm], hle⟩


/-- fold invariant: everything a link needs is either available or recorded (with a time ≥ need) -/
def Covers (s : State) (deps : List (Nat × Int)) (l : Link) (target : Int) : Prop :=
  l.static = false → ∀ lt, need s.dp l.ads target = some lt →
    Avail s l.src lt ∨ ∃ t', (l.src, t') ∈ deps ∧ lt ≤ t'

theorem findDeps_covers (s : State) (c : Nat) (target : Int) :
    ∀ l ∈ (s.comp c).inputs, Covers s (findDeps s c target) l target := by
  unfold findDeps
  simp only [walk_eq_need]
  generalize (s.comp c).inputs = ls
  -- generalised over the accumulator
  suffices H : ∀ (ls : List Link) (acc : List (Nat × Int)) (seen : List Link),
      (∀ l ∈ seen, Covers s acc l target) →
      ∀ l, (l ∈ seen ∨ l ∈ ls) → Covers s (ls.foldl (fun deps l =>
        if l.static then deps else
        match need s.dp l.ads target with
        | none => deps
        | some lt =>
          let o := s.out l.src
          if (s.comp o.owner).isTime && !(o.time < lt) then deps else depsInsert deps l.src lt) acc) l target by
    intro l hl; exact H ls [] [] (by simp) l (Or.inr hl)
  intro ls
  induction ls with
  | nil => intro acc seen hseen l hl; simp at hl; simpa using hseen l hl
  | cons x xs ih =>
    intro acc seen hseen l hl
    simp only [List.foldl_cons]
    apply ih _ (x :: seen)
    · intro l' hl'
      -- new accumulator still covers all seen links, and covers x
      intro hst lt hn
      by_cases hx : l' = x
      · subst hx
        simp only [hst]
        simp only [hn]
        by_cases hcond : ((s.comp (s.out l'.src).owner).isTime && !decide ((s.out l'.src).time < lt)) = true
        · left
          simp only [Bool.and_eq_true, Bool.not_eq_true', decide_eq_false_iff_not] at hcond
          exact .time _ _ hcond.1 (by omega)
        · right
          simp only [hcond]
          exact depsInsert_mem
      · have hmem : l' ∈ seen := by
          cases hl' with
          | head => exact absurd rfl hx
          | tail _ h => exact h
        rcases hseen l' hmem hst lt hn with h | ⟨t', hm, hle⟩
        · exact Or.inl h
        · right
          by_cases hxs : x.static = true
          · simp only [hxs, if_true]; exact ⟨t', hm, hle⟩
          · simp only [hxs]
            cases hnx : need s.dp x.ads target with
            | none => exact ⟨t', hm, hle⟩
            | some ltx =>
              by_cases hc : ((s.comp (s.out x.src).owner).isTime && !decide ((s.out x.src).time < ltx)) = true
              · simp only [hc, if_true]; exact ⟨t', hm, hle⟩
              · simp only [hc]
                obtain ⟨t'', hm', hle'⟩ := depsInsert_keeps (o := x.src) (t := ltx) hm
                exact ⟨t'', hm', by simp at hle'; omega⟩
    · rcases hl with h | h
      · exact Or.inl (List.mem_cons_of_mem _ h)
      · cases h with
        | head => exact Or.inl (List.mem_cons_self)
        | tail _ h => exact Or.inr h


def targetOf (s : State) (c : Nat) (tgt : Option Int) : Int :=
  match (s.comp c).kind with | .time _ nx _ => nx | .pull => tgt.getD 0

theorem ready_of_deps (s : State) (c : Nat) (target : Int)
    (h : DepsAvail s (findDeps s c target)) : Ready s c target := by
  intro l hl hst lt hn
  rcases findDeps_covers s c target l hl hst lt hn with h' | ⟨t', hm, hle⟩
  · exact h'
  · exact (h _ hm).mono hle

/-- Main scheduler safety theorem (C01, upper bound):
    whatever `updateRec` decides to update is ready; a pull component answering `none` is ready. -/
theorem updateRec_sound (s : State) : ∀ (fuel : Nat),
    (∀ c chain tgt r, updateRec s fuel c chain tgt = .ok r →
      match r with
      | some u => ∃ nw nx, (s.comp u).kind = .time nw nx false ∧ Ready s u nx
      | none => (s.comp c).isTime = false ∧ Ready s c (tgt.getD 0)) ∧
    (∀ chain deps r, depsLoop s fuel chain deps = .ok r →
      match r with
      | some u => ∃ nw nx, (s.comp u).kind = .time nw nx false ∧ Ready s u nx
      | none => DepsAvail s deps) := by
  intro fuel
  induction fuel with
  | zero =>
    constructor
    · intro c chain tgt r h; simp [updateRec] at h
    · intro chain deps
      induction deps with
      | nil => intro r h; simp [depsLoop] at h; subst h; intro p hp; cases hp
      | cons p ps ih =>
        intro r h
        obtain ⟨o, lt⟩ := p
        simp only [depsLoop] at h
        split at h
        · split at h
          · simp [updateRec] at h
          · have := ih r h
            cases r with
            | some u => exact this
            | none =>
              intro q hq
              cases hq with
              | head => rename_i hT hlag; exact .time o lt hT (by simp only [Int.not_lt] at hlag; exact hlag)
              | tail _ hq' => exact this q hq'
        · simp [updateRec] at h
  | succ n ihn =>
    obtain ⟨ihU, ihL⟩ := ihn
    -- first the loop at level n+1 needs updateRec at level n+1, so prove updateRec first
    have hU : ∀ c chain tgt r, updateRec s (n+1) c chain tgt = .ok r →
      match r with
      | some u => ∃ nw nx, (s.comp u).kind = .time nw nx false ∧ Ready s u nx
      | none => (s.comp c).isTime = false ∧ Ready s c (tgt.getD 0) := by
      intro c chain tgt r h
      simp only [updateRec] at h
      split at h
      · cases h
      · split at h
        · cases h
        · rename_i u hloop
          cases h
          exact ihL _ _ _ hloop
        · rename_i hloop
          have hdeps := ihL _ _ _ hloop
          cases hk : (s.comp c).kind with
          | time nw nx fin =>
            simp only [hk] at h hdeps
            split at h
            · cases h
            · cases h
              rename_i hfin
              refine ⟨nw, nx, ?_, ready_of_deps s c nx hdeps⟩
              simp at hfin; simp [hk, hfin]
          | pull =>
            simp only [hk] at h hdeps
            cases h
            exact ⟨by simp [Comp.isTime, hk], ready_of_deps s c _ hdeps⟩
    refine ⟨hU, ?_⟩
    intro chain deps
    induction deps with
    | nil => intro r h; simp [depsLoop] at h; subst h; intro p hp; cases hp
    | cons p ps ih =>
      intro r h
      obtain ⟨o, lt⟩ := p
      simp only [depsLoop] at h
      split at h
      · split at h
        · have := hU _ _ _ _ h
          cases r with
          | some u => exact this
          | none => rename_i hT _; simp [hT] at this
        · have := ih r h
          cases r with
          | some u => exact this
          | none =>
            intro q hq
            cases hq with
            | head => rename_i hT hlag; exact .time o lt hT (by simp only [Int.not_lt] at hlag; exact hlag)
            | tail _ hq' => exact this q hq'
      · rename_i hP
        cases hm : updateRec s (n+1) (s.out o).owner chain (some lt) with
        | error e => simp [hm] at h
        | ok ro =>
          cases ro with
          | some u => simp [hm] at h; subst h; exact hU _ _ _ _ hm
          | none =>
            simp only [hm] at h
            have hp := hU _ _ _ _ hm
            have := ih r h
            cases r with
            | some u => exact this
            | none =>
              intro q hq
              cases hq with
              | head =>
                simp at hp
                exact .pull o lt (by simpa using hP) hp.2
              | tail _ hq' => exact this q hq'

end Finam
