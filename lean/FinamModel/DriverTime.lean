import FinamModel.DriverUtil
import FinamModel.TimeAdapters
import FinamModel.Integration
import FinamModel.Spill
/-! Line-protocol handlers for the time adapters (C11). -/
namespace Finam.Driver
open Lean Finam

def parseKind (j : Json) : TA.Kind :=
  match getStr j "kind" with
  | "next" => .next
  | "prev" => .prev
  | "linear" => .linear
  | _ => .step (asRat (getObj j "pos"))

/-- events of one cell: `["push", t, [v_cell0, v_cell1, ...]]`, `["pull", t]` -/
def parseTAEv (cell : Nat) (j : Json) : Option TA.Ev :=
  match arr j with
  | [k, a, b] => if asStr k == "push" then some (.push (asInt a) (asRat ((arr b).getD cell Json.null))) else none
  | [k, a] => if asStr k == "pull" then some (.pull (asInt a)) else none
  | _ => none

def cellCount (evs : List Json) : Nat :=
  (evs.filterMap fun j => match arr j with | [_, _, b] => some (arr b).length | _ => none).head?.getD 1

/-- combine per-cell answers of one event: an error in any cell is the event's error -/
def combine (rs : List (Option (Except Err Rat))) : Json :=
  match rs with
  | [] => Json.null
  | none :: _ => Json.null
  | some _ :: _ =>
    let errs := rs.filterMap fun r => match r with | some (.error e) => some e | _ => none
    match errs with
    | e :: _ => jErr e
    | [] => Json.mkObj [("ok", jList jRat (rs.filterMap fun r => match r with | some (.ok v) => some v | _ => none))]

def transpose {α} (n : Nat) (cols : List (List α)) : List (List α) :=
  (List.range n).map fun i => cols.filterMap fun c => c[i]?

/-- C11: run a notification/request history through the adapter model and through the definition -/
def handleC11 (j : Json) : Json :=
  let k := parseKind j
  let evsJ := getArr j "events"
  let nc := cellCount evsJ
  let perCell := (List.range nc).map fun c => evsJ.filterMap (parseTAEv c)
  let both := perCell.map fun evs => TA.runBoth k TA.init evs
  let n := evsJ.length
  let implRows := transpose n (both.map fun b => b.map (·.1))
  let specRows := transpose n (both.map fun b => b.map (·.2))
  let evs0 := perCell.headD []
  Json.mkObj [
    ("impl", jList combine implRows),
    ("spec", jList combine specRows),
    ("lens", jList jNat (TA.runLens k TA.init evs0)),
    ("pre", Json.bool (TA.preAllB k TA.init evs0))]

def parseCfg (j : Json) : TI.Cfg :=
  let step := if hasKey j "step" then some (asRat (getObj j "step")) else none
  let mode := if getStr j "mode" == "avg" then TI.Mode.avg
              else TI.Mode.sum (getBool j "per_time") (getInt j "init_us")
  ⟨step, mode⟩

def combineSpec (rs : List (Option Rat)) : Json :=
  if rs.all Option.isSome && !rs.isEmpty then jList jRat (rs.filterMap id) else Json.null

/-- C12: run a notification/request history through the integration adapter model; `spec` is the
    exact integral of the interpolant of the full history where the property defines it -/
def handleC12 (j : Json) : Json :=
  let c := parseCfg j
  let evsJ := getArr j "events"
  let nc := cellCount evsJ
  let perCell := (List.range nc).map fun k => evsJ.filterMap (parseTAEv k)
  let both := perCell.map fun evs => TI.runBoth c TI.init evs
  let n := evsJ.length
  let implRows := transpose n (both.map fun b => b.map (·.1))
  let specRows := transpose n (both.map fun b => b.map (·.2))
  let evs0 := perCell.headD []
  Json.mkObj [
    ("impl", jList combine implRows),
    ("spec", jList combineSpec specRows),
    ("lens", jList jNat (TI.runLens c TI.init evs0)),
    ("pre", Json.bool (TI.preAllB c TI.init evs0))]

def parseSlotKind (j : Json) : SP.SlotKind :=
  let step := if hasKey j "step" then some (asRat (getObj j "step")) else none
  match getStr j "kind" with
  | "output" => .output
  | "next" => .next
  | "prev" => .prev
  | "linear" => .linear
  | "step" => .step (asRat (getObj j "pos"))
  | "stack" => .stack
  | "avg" => .avg step
  | _ => .sum step (getBool j "per_time") (getInt j "init_us")

/-- `["push", t, [cells], nbytes]`, `["pull", k, t]`, `["finalize"]` -/
def parseSPEv (cell : Nat) (j : Json) : Option SP.Ev :=
  match arr j with
  | [k, a, b, c] => if asStr k == "push" then some (.push (asInt a) (asRat ((arr b).getD cell Json.null)) (asNat c)) else none
  | [k, a, b] => if asStr k == "pull" then some (.pull (asNat a) (asInt b)) else none
  | [k] => if asStr k == "finalize" then some .finalize else none
  | _ => none

def cellCountSP (evs : List Json) : Nat :=
  (evs.filterMap fun j => match arr j with | [_, _, b, _] => some (arr b).length | _ => none).head?.getD 1

/-- per event: rows = cells, each a list over stacked entries -> `{"ok": [[cells] per entry]}` -/
def combineSP (rs : List (Option (Except Err (List Rat)))) : Json :=
  match rs with
  | [] => Json.null
  | none :: _ => Json.null
  | some _ :: _ =>
    let errs := rs.filterMap fun r => match r with | some (.error e) => some e | _ => none
    match errs with
    | e :: _ => jErr e
    | [] =>
      let cells := rs.filterMap fun r => match r with | some (.ok v) => some v | _ => none
      let m := (cells.headD []).length
      Json.mkObj [("ok", jList (jList jRat) (transpose m cells))]

/-- C10: run an event history through the spilling slot and through the all-in-RAM reference -/
def handleC10 (j : Json) : Json :=
  let kind := parseSlotKind j
  let limit := getOptInt j "limit"
  let c := SP.mkCfg kind limit (some "loc") 0 0
  let nEnds := if hasKey j "n_ends" then getNat j "n_ends" else 1
  let evsJ := getArr j "events"
  let nc := cellCountSP evsJ
  let perCell := (List.range nc).map fun k => evsJ.filterMap (parseSPEv k)
  let n := evsJ.length
  let spill := perCell.map fun evs => SP.runS c (SP.initS nEnds) evs
  let ram := perCell.map fun evs => SP.runR kind (SP.initR nEnds) evs
  let evs0 := perCell.headD []
  let states := SP.statesS c (SP.initS nEnds) evs0
  Json.mkObj [
    ("answers", jList combineSP (transpose n spill)),
    ("ref", jList combineSP (transpose n ram)),
    ("files", jList (fun s => jList (fun p => jNat p.1.n) s.fs) states),
    ("total", jList (fun s => jInt s.total) states),
    ("lens", jList (fun s => jNat s.data.length) states),
    ("created", jNat ((states.getLast?.map fun s => s.created.length).getD 0))]

def timeHandlers : List (String × (Json → Json)) := [
  ("c11", handleC11),
  ("c12", handleC12),
  ("c10", handleC10)
]

end Finam.Driver
