import FinamModel.DriverUtil
import FinamModel.TimeAdapters
/-! Line-protocol handlers for the time adapters (C11). -/
namespace Finam.Driver
open Lean Finam

def parseKind (j : Json) : TA.Kind :=
  match getStr j "kind" with
  | "next" => .next
  | "prev" => .prev
  | "linear" => .linear
  | _ => .step (asRat (getObj j "pos"))

/-- events of one cell: `["push", t, [v_cell0, v_cell1, ...]]`, `["pull", t]` -/
def parseTAEv (cell : Nat) (j : Json) : Option TA.Ev :=
  match arr j with
  | [k, a, b] => if asStr k == "push" then some (.push (asInt a) (asRat ((arr b).getD cell Json.null))) else none
  | [k, a] => if asStr k == "pull" then some (.pull (asInt a)) else none
  | _ => none

def cellCount (evs : List Json) : Nat :=
  (evs.filterMap fun j => match arr j with | [_, _, b] => some (arr b).length | _ => none).head?.getD 1

/-- combine per-cell answers of one event: an error in any cell is the event's error -/
def combine (rs : List (Option (Except Err Rat))) : Json :=
  match rs with
  | [] => Json.null
  | none :: _ => Json.null
  | some _ :: _ =>
    let errs := rs.filterMap fun r => match r with | some (.error e) => some e | _ => none
    match errs with
    | e :: _ => jErr e
    | [] => Json.mkObj [("ok", jList jRat (rs.filterMap fun r => match r with | some (.ok v) => some v | _ => none))]

def transpose {α} (n : Nat) (cols : List (List α)) : List (List α) :=
  (List.range n).map fun i => cols.filterMap fun c => c[i]?

/-- C11: run a notification/request history through the adapter model and through the definition -/
def handleC11 (j : Json) : Json :=
  let k := parseKind j
  let evsJ := getArr j "events"
  let nc := cellCount evsJ
  let perCell := (List.range nc).map fun c => evsJ.filterMap (parseTAEv c)
  let both := perCell.map fun evs => TA.runBoth k TA.init evs
  let n := evsJ.length
  let implRows := transpose n (both.map fun b => b.map (·.1))
  let specRows := transpose n (both.map fun b => b.map (·.2))
  let evs0 := perCell.headD []
  Json.mkObj [
    ("impl", jList combine implRows),
    ("spec", jList combine specRows),
    ("lens", jList jNat (TA.runLens k TA.init evs0)),
    ("pre", Json.bool (TA.preAllB k TA.init evs0))]

def timeHandlers : List (String × (Json → Json)) := [
  ("c11", handleC11)
]

end Finam.Driver
