import FinamModel.Canonical
/-
  Model of the mask tools: `to_compressed` / `from_compressed`, `mask_specified`,
  `masks_compatible`, `masks_equal` (finam/data/tools/mask.py:117-378), the mask part of
  `Info.accepts` (finam/data/tools/info.py:173-215) and the mask/shape part of `prepare`
  (finam/data/tools/core.py:26-158).

  Values are `Int` (the harness uses `arange`-filled payloads); units are carried as a flag
  (`quantified`) because the mask helpers only re-wrap them.
-/
namespace Finam

/-- a mask specification as stored in `Info.mask` or passed to the helpers -/
inductive MaskSpec where
  | pyNone               -- Python `None`
  | flex                 -- `Mask.FLEX`
  | none_                -- `Mask.NONE`
  | nomask               -- `np.ma.nomask`
  | arr (m : Arr Bool)   -- boolean array

namespace MaskSpec

/-- `mask_specified` (mask.py:364-378): everything that is not a member of the `Mask` enum -/
def specified : MaskSpec → Bool
  | .flex => false
  | .none_ => false
  | _ => true

/-- `np.ma.is_mask` -/
def isMask : MaskSpec → Bool
  | .nomask => true
  | .arr _ => true
  | _ => false

def isPyNone : MaskSpec → Bool
  | .pyNone => true
  | _ => false

end MaskSpec

/-- grids as seen by `masks_equal`: only `to_canonical` matters; `NoGrid` and unstructured grids
    inherit the identity of `GridBase.to_canonical` -/
inductive GridRef where
  | structured (g : SGrid)
  | plain

def GridRef.toCanonical {α : Type} : GridRef → Arr α → Except Err (Arr α)
  | .structured g, a => g.toCanonical a
  | .plain, a => .ok a

/-- a data payload: values, masked-array state, unit wrapper -/
structure Payload where
  data : Arr Int
  /-- `none`: plain `ndarray`; `some none`: `MaskedArray` with `nomask`; `some (some m)`: masked -/
  dmask : Option (Option (Arr Bool))
  quantified : Bool

/-- `to_compressed(xdata, order, mask)` (mask.py:117-149); returns the flat values, the unit
    wrapper is kept as it was. -/
def toCompressed (x : Payload) (o : Order) (mask : MaskSpec) : Except Err (List Int) :=
  let isMasked := x.dmask.isSome
  if isMasked || (!mask.isPyNone && mask.specified) then
    let flat := x.data.flat o
    -- `mask = xdata.mask if is_masked else mask`
    let eff : Option (Arr Bool) :=
      match x.dmask with
      | some dm => dm
      | none => match mask with | .arr m => some m | _ => none
    match eff with
    | none => .ok flat                                   -- `mask is np.ma.nomask`
    | some m => .ok (compressNot (m.flat o) flat)
  else .ok (x.data.flat o)                               -- `np.reshape(xdata, -1, order=order)`

/-- result of `from_compressed`: values (`none` = never written: masked position) and mask state -/
structure Expanded where
  data : Arr (Option Int)
  dmask : Option (Option (Arr Bool))

/-- `from_compressed(xdata, shape, order, mask, **kwargs)` (mask.py:152-205); `kwargs` says whether
    keyword arguments for `np.ma.array` were given. -/
def fromCompressed (vals : List Int) (shape : List Nat) (o : Order) (mask : MaskSpec) (kwargs : Bool) :
    Except Err Expanded :=
  match mask with
  | .arr m =>
    let mflat := m.flat o
    -- boolean index must have the length of the flat buffer
    if mflat.length != prod shape then .error .other
    else
      let n := countNot mflat
      -- numpy broadcasts a single value
      let vs := if vals.length == 1 && n != 1 then List.replicate n (vals.getD 0 0) else vals
      if vs.length != n then .error .other
      else
        let filled := scatterNot mflat vs
        -- `np.ma.array(data, mask=mask)`: a mask of another shape but the same size is reshaped (C)
        let m' := if m.shape == shape then m else m.reshape .C shape
        .ok ⟨Arr.ofFlat o shape filled none, some (some m')⟩
  | _ =>
    -- `mask is None or mask is np.ma.nomask or not mask_specified(mask)`
    if kwargs && (match mask with | .none_ => true | _ => false) then .error .dataErr
    else if vals.length != prod shape then .error .other
    else
      let data := Arr.ofFlat o shape (vals.map some) none
      let masked := kwargs || (match mask with | .nomask => true | _ => false)
      .ok ⟨data, if masked then some none else none⟩

def allFalse (l : List Bool) : Bool := l.all (· == false)

/-- `masks_equal(this, other, this_grid, other_grid)` (mask.py:292-337) -/
def masksEqual (this other : MaskSpec) (tg og : Option GridRef) : Except Err Bool :=
  match this, other with
  | .pyNone, .pyNone => .ok true
  | .flex, .flex => .ok true
  | .none_, .none_ => .ok true
  | .flex, .none_ => .ok false
  | .none_, .flex => .ok false
  | .nomask, .nomask => .ok true
  | .nomask, .arr m => .ok (allFalse m.toList)
  | .arr m, .nomask => .ok (allFalse m.toList)
  | .arr a, .arr b =>
    if a.ndim != b.ndim then .ok false
    else
      match tg, og with
      | some t, some g =>
        match t.toCanonical a with
        | .error e => .error e
        | .ok ca =>
          match g.toCanonical b with
          | .error e => .error e
          | .ok cb => .ok (ca.shape == cb.shape && ca.toList == cb.toList)
      | _, _ => .ok (a.shape == b.shape && a.toList == b.toList)
  | _, _ => .ok false        -- `not np.ma.is_mask(this) or not np.ma.is_mask(other)`

/-- `masks_compatible(this, incoming, incoming_donwstream, this_grid, incoming_grid)` (mask.py:243-289) -/
def masksCompatible (this incoming : MaskSpec) (down : Bool) (tg ig : Option GridRef) : Except Err Bool :=
  let upstream := if down then this else incoming
  let downstream := if down then incoming else this
  let upGrid := if down then tg else ig
  let downGrid := if down then ig else tg
  if upstream.isPyNone then .ok false
  else if !downstream.specified then
    if !upstream.specified then
      .ok ((match downstream with | .flex => true | _ => false) || (match upstream with | .none_ => true | _ => false))
    else .ok (match downstream with | .flex => true | _ => false)
  else if !upstream.specified then .ok false
  else masksEqual downstream upstream downGrid upGrid

/-- the mask clause of `Info.accepts` (info.py:198-203): `true` = no `"mask"` entry in `fail_info` -/
def acceptsMask (self incoming : MaskSpec) (down : Bool) (sg ig : Option GridRef) : Except Err Bool :=
  if self.isPyNone then .ok true
  else
    match masksCompatible self incoming down sg ig with
    | .error e => .error e
    | .ok true => .ok true
    | .ok false => .ok (down && incoming.isPyNone)

/-- `np.ma.array(data=…, mask=mask, shrink=False)` as used by `prepare`: a mask of another shape is
    resized (one element) or reshaped in C order (same size); anything else is a `MaskError` -/
def attachMask (shape : List Nat) : MaskSpec → Except Err (Arr Bool)
  | .arr m =>
    if m.shape == shape then .ok m
    else if prod m.shape == 1 then .ok ⟨shape, fun _ => m.get (unravelC m.shape 0)⟩
    else if prod m.shape == prod shape then .ok (m.reshape .C shape)
    else .error .other
  | _ => .ok ⟨shape, fun _ => false⟩       -- `nomask` with `shrink=False`: nothing masked

/-- `prepare`, first step (core.py:66-74): flat data is given in grid order, so an n-dimensional
    mask is flattened the same way before it is attached -/
def prepMask (o : Order) (infoMask : MaskSpec) (x : Payload) : MaskSpec :=
  match infoMask with
  | .arr m =>
    if x.data.ndim == 1 && decide (m.ndim > 1) then
      .arr ⟨[prod m.shape], fun i => m.get (unravel o m.shape (i.getD 0 0))⟩
    else .arr m
  | other => other

/-- `prepare`, second step (core.py:75-107): `if info.is_masked and not np.ma.isarray(data)` the
    payload becomes a masked array with the (possibly flattened) info mask -/
def prepAttach (infoMask mask : MaskSpec) (x : Payload) : Except Err Payload :=
  if infoMask.specified && x.dmask.isNone then
    match attachMask x.data.shape mask with
    | .error e => .error e
    | .ok m => .ok { x with dmask := some (some m) }
  else .ok x

/-- `_check_input_shape` (core.py:120-158) for a `Grid` with `data_shape = gshape`, `order = o`,
    `time_entries = 1` -/
def checkInputShape (gshape : List Nat) (o : Order) (y : Payload) : Except Err Payload :=
  let te := if y.data.ndim == gshape.length + 1 then y.data.shape.headD 1 else 1
  if y.data.size != te * prod gshape then .error .dataErr
  else if y.data.ndim != 1 then
    if y.data.shape.tail != gshape then
      if y.data.shape == gshape then
        .ok { y with data := y.data.expandDims0,
                     dmask := y.dmask.map (fun dm => dm.map Arr.expandDims0) }
      else .error .dataErr
    else .ok y
  else
    .ok { y with data := y.data.reshape o (1 :: gshape),
                 dmask := y.dmask.map (fun dm => dm.map (Arr.reshape o (1 :: gshape))) }

/-- mask and shape handling of `prepare(data, info)` for an info whose grid is a `Grid` with
    `data_shape = gshape` and `order = o` (core.py:26-158; `time_entries = 1`). -/
def prepare (gshape : List Nat) (o : Order) (infoMask : MaskSpec) (x : Payload) : Except Err Payload :=
  match prepAttach infoMask (prepMask o infoMask x) x with
  | .error e => .error e
  | .ok y => checkInputShape gshape o y

end Finam
