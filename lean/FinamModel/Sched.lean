import FinamModel.Basic
/-
  Model of the driver in `finam/schedule.py`: the dependency walk `_find_dependencies`, the
  recursive selection `_update_recursive`, the run loop of `Composition.run`, and what a
  consumer's request turns into along an adapter chain (`need`, derived from the data path of
  `Adapter.get_data` / `TimeDelayAdapter.get_data` / `TimeCachingAdapter`).

  Times are integers (any unit).  Adapter chains are listed from the consumer side to the source.
-/
namespace Finam

/-- adapter kinds as far as time and dependencies are concerned -/
inductive Ad where
  | pass                                        -- pass-through (Scale, Callback, regridding, …)
  | cache                                       -- push-based `TimeCachingAdapter`: serves from its buffer
  | nodep                                       -- bare `NoDependencyAdapter` marker
  | dpush                                       -- `DelayToPush` (delay + no-dependency marker)
  | dfix (d init : Int)                         -- `DelayFixed(d)`, `initial_time`
  | dpull (id steps : Nat) (add init : Int)     -- `DelayToPull(steps, add)`; `_pulls` lives in the table `dp`
deriving Repr, DecidableEq

/-- request history table of the `DelayToPull` adapters, by adapter id -/
abbrev DP := List (List Int)

def imin (a b : Int) : Int := if a ≤ b then a else b

/-- `with_delay` of the delay adapters (identity for everything else).
    DelayFixed: `off = t - d; if off < init: return min(t, init); return off`.
    DelayToPull: `t0 = _pulls[0]` (the initial time if nothing was pulled yet);
    `off = max(t0 - add, init); return min(t, off)`. -/
def Ad.withDelay (dp : DP) : Ad → Int → Int
  | .dfix d i, t => if t - d < i then imin t i else t - d
  | .dpull id _ a i, t =>
    let f := ((dp.getD id []).head?).getD i
    imin t (if f - a < i then i else f - a)
  | _, t => t

/-- **What a consumer's request for `t` demands of the source output** (semantic requirement on the
    newest publication time; `none` = nothing is demanded).  Derived from the data path: a
    pass-through adapter forwards the request unchanged, a delay adapter forwards the shifted time,
    a push-based adapter answers from its buffer, which holds one entry per publication of the
    source — so the newest publication must be at or beyond the time arriving *at that adapter*,
    whatever sits upstream of it; `DelayToPush` never asks beyond the newest publication and a
    `NoDependencyAdapter` declares that nothing is demanded. -/
def need (dp : DP) : List Ad → Int → Option Int
  | [], t => some t
  | .pass :: r, t => need dp r t
  | .cache :: _, t => some t
  | .nodep :: _, _ => none
  | .dpush :: _, _ => none
  | a :: r, t => need dp r (a.withDelay dp t)

/-- mirror of the loop in `_find_dependencies`:
    ```
    while isinstance(inp, IInput):
        inp = inp.source
        if pushed: continue
        if isinstance(inp, NoDependencyAdapter): break
        if isinstance(inp, ITimeDelayAdapter): local_time = inp.with_delay(local_time)
        if isinstance(inp, IAdapter) and inp.needs_push: pushed = True
    ```
    `none` = the loop ended on a `NoDependencyAdapter`. -/
def walk (dp : DP) : List Ad → Int → Bool → Option Int
  | [], lt, _ => some lt
  | a :: r, lt, pushed =>
    if pushed then walk dp r lt true
    else match a with
      | .nodep => none
      | .dpush => none
      | .dfix d i => walk dp r ((Ad.dfix d i).withDelay dp lt) false
      | .dpull id n ad i => walk dp r ((Ad.dpull id n ad i).withDelay dp lt) false
      | .cache => walk dp r lt true
      | .pass => walk dp r lt false

structure Link where
  ads : List Ad
  src : Nat            -- index of the source output
  static : Bool        -- source output is static
deriving Repr

inductive CompKind where
  | time (now next : Int) (finished : Bool)
  | pull
deriving Repr

structure Comp where
  kind : CompKind
  inputs : List Link
  steps : List Int := []     -- scripted step lengths (cyclic), used by the run loop only
  k : Nat := 0               -- number of updates so far
deriving Repr

structure Out where
  owner : Nat
  time : Int                 -- newest publication (meaningful for time-stepped owners)
deriving Repr

structure State where
  comps : List Comp
  outs : List Out
  dp : DP := []
deriving Repr

def State.comp (s : State) (c : Nat) : Comp := s.comps.getD c ⟨.pull, [], [], 0⟩
def State.out (s : State) (o : Nat) : Out := s.outs.getD o ⟨0, 0⟩

def Comp.isTime (c : Comp) : Bool := match c.kind with | .time .. => true | .pull => false

/-- Python dict insert keeping the first insertion position, larger time wins
    (`if inp not in deps or local_time > deps[inp][0]`) -/
def depsInsert : List (Nat × Int) → Nat → Int → List (Nat × Int)
  | [], o, t => [(o, t)]
  | (o', t') :: r, o, t => if o' = o then (o', if t > t' then t else t') :: r else (o', t') :: depsInsert r o t

/-- `_find_dependencies(component, output_owners, target_time)` -/
def findDeps (s : State) (c : Nat) (target : Int) : List (Nat × Int) :=
  (s.comp c).inputs.foldl (fun deps l =>
    if l.static then deps else
    match walk s.dp l.ads target false with
    | none => deps
    | some lt =>
      let o := s.out l.src
      if (s.comp o.owner).isTime && !(o.time < lt) then deps else depsInsert deps l.src lt) []

inductive SErr where | circular | finished | fuel
deriving Repr, DecidableEq

mutual
/-- `Composition._update_recursive(comp, chain, target_time)`; `chain` = components on the active
    dependency chain (a pull-based component leaves it again when nothing upstream of it lags) -/
def updateRec (s : State) : Nat → Nat → List Nat → Option Int → Except SErr (Option Nat)
  | 0, _, _, _ => .error .fuel
  | fuel+1, c, chain, tgt =>
    if c ∈ chain then .error .circular else
    let chain := c :: chain
    let k := (s.comp c).kind
    let target := match k with | .time _ nx _ => nx | .pull => tgt.getD 0
    match depsLoop s fuel chain (findDeps s c target) with
    | .error e => .error e
    | .ok (some u) => .ok (some u)
    | .ok none =>
      match k with
      | .time _ _ fin => if fin then .error .finished else .ok (some c)
      | .pull => .ok none
/-- the `for dep, (local_time, delayed) in deps.items()` loop -/
def depsLoop (s : State) : Nat → List Nat → List (Nat × Int) → Except SErr (Option Nat)
  | _, _, [] => .ok none
  | fuel, chain, (o, lt) :: r =>
    let ow := (s.out o).owner
    if (s.comp ow).isTime then
      if (s.out o).time < lt then updateRec s fuel ow chain none else depsLoop s fuel chain r
    else
      match updateRec s fuel ow chain (some lt) with
      | .error e => .error e
      | .ok (some u) => .ok (some u)
      | .ok none => depsLoop s fuel chain r
end

/-- specification: output `o` can serve a request whose requirement on the newest publication is `t` -/
inductive Avail (s : State) : Nat → Int → Prop where
  | time (o t) : (s.comp (s.out o).owner).isTime = true → t ≤ (s.out o).time → Avail s o t
  | pull (o t) : (s.comp (s.out o).owner).isTime = false →
      (∀ l ∈ (s.comp (s.out o).owner).inputs, l.static = false →
        ∀ lt, need s.dp l.ads t = some lt → Avail s l.src lt) →
      Avail s o t

/-- component `c` can perform all its pulls for `target` -/
def Ready (s : State) (c : Nat) (target : Int) : Prop :=
  ∀ l ∈ (s.comp c).inputs, l.static = false → ∀ lt, need s.dp l.ads target = some lt → Avail s l.src lt

/-! ### the run loop -/

def getNext (c : Comp) : Int := match c.kind with | .time _ nx _ => nx | .pull => 0
def getNow (c : Comp) : Int := match c.kind with | .time nw _ _ => nw | .pull => 0
def isFinished (c : Comp) : Bool := match c.kind with | .time _ _ f => f | .pull => false

/-- index of the first time component with minimal time (`sort(key=time)` is stable, element 0) -/
def selectAux : List Comp → Nat → Option (Nat × Int) → Option (Nat × Int)
  | [], _, best => best
  | c :: cs, i, best =>
    match c.kind with
    | .pull => selectAux cs (i+1) best
    | .time nw _ _ =>
      match best with
      | none => selectAux cs (i+1) (some (i, nw))
      | some (_, bt) => if nw < bt then selectAux cs (i+1) (some (i, nw)) else selectAux cs (i+1) best

def select (s : State) : Option Nat := (selectAux s.comps 0 none).map (·.1)

/-- `DelayToPull._pulled`: append, then drop from the front while longer than `steps` -/
def trimTo (n : Nat) (l : List Int) : List Int := l.drop (l.length - n)

/-- effect of one pull at `t` through a chain on the request histories; returns the time that
    reaches the source output (none if the pull ends at a push-based adapter) -/
def pullChain (s : State) (dp : DP) : List Ad → Nat → Int → DP × Option Int
  | [], _, t => (dp, some t)
  | .pass :: r, src, t => pullChain s dp r src t
  | .nodep :: r, src, t => pullChain s dp r src t
  | .cache :: _, _, _ => (dp, none)
  | .dpush :: r, src, t => pullChain s dp r src (imin t (s.out src).time)
  | .dfix d i :: r, src, t => pullChain s dp r src ((Ad.dfix d i).withDelay dp t)
  | .dpull id n a i :: r, src, t =>
    let t' := (Ad.dpull id n a i).withDelay dp t
    let old := dp.getD id []
    let old := if old.isEmpty then [i] else old
    let dp1 := if id < dp.length then dp.set id (trimTo n (old ++ [t])) else dp
    -- the upstream pull happens before `_pulled`, with the old table
    let (dp2, res) := pullChain s dp r src t'
    (if id < dp2.length then dp2.set id (dp1.getD id []) else dp2, res)

/-- all pulls of component `c` at `t` (pull-based sources forward the request to their own inputs) -/
def pullAll (s : State) : Nat → DP → Nat → Int → DP
  | 0, dp, _, _ => dp
  | fuel+1, dp, c, t =>
    (s.comp c).inputs.foldl (fun dp l =>
      if l.static then dp else
      let (dp', reach) := pullChain s dp l.ads l.src t
      match reach with
      | none => dp'
      | some t' =>
        let ow := (s.out l.src).owner
        if (s.comp ow).isTime then dp' else pullAll s fuel dp' ow t') dp

/-- `comp.update()` of time component `u`: pulls at the announced time, advances, publishes -/
def applyUpdate (s : State) (u : Nat) : State :=
  let c := s.comp u
  match c.kind with
  | .pull => s
  | .time _ nx fin =>
    let dp' := pullAll s (s.comps.length + 1) s.dp u nx
    let k' := c.k + 1
    let step := if c.steps.isEmpty then 1 else c.steps.getD (k' % c.steps.length) 1
    let c' : Comp := { c with kind := .time nx (nx + step) fin, k := k' }
    { comps := s.comps.set u c',
      outs := s.outs.map (fun o => if o.owner = u then { o with time := nx } else o),
      dp := dp' }

def anyRunning (s : State) (endT : Int) : Bool :=
  s.comps.any fun c => match c.kind with | .time nw _ fin => !fin && nw < endT | .pull => false

inductive RunEnd where | done | err (e : SErr) | outOfFuel
deriving Repr, DecidableEq

/-- the `while` loop of `Composition.run` (a do-while: one update always happens) -/
def runLoop : Nat → State → Int → List (Nat × Int) → List (Nat × Int) × RunEnd × State
  | 0, s, _, acc => (acc.reverse, .outOfFuel, s)
  | fuel+1, s, endT, acc =>
    match select s with
    | none => (acc.reverse, .done, s)
    | some c0 =>
      match updateRec s (s.comps.length + 1) c0 [] none with
      | .error e => (acc.reverse, .err e, s)
      | .ok none => (acc.reverse, .err .fuel, s)      -- unreachable for a time component
      | .ok (some u) =>
        let s' := applyUpdate s u
        let acc' := (u, getNow (s'.comp u)) :: acc
        if anyRunning s' endT then runLoop fuel s' endT acc' else (acc'.reverse, .done, s')

/-! ### the same loop with the listing order as a parameter (C05)

`runLoop` scans `s.comps` in index order, i.e. the listing order is the index order.  To compare
different listings of *one* composition without renaming indices, `runLoopOrd` takes the listing as a
list of component indices: `sort(key=time)` is stable, so element 0 is the first component *in the
listing* among the least advanced ones. -/

def selectOrd (s : State) : List Nat → Option (Nat × Int) → Option (Nat × Int)
  | [], best => best
  | i :: r, best =>
    match (s.comp i).kind with
    | .pull => selectOrd s r best
    | .time nw _ _ =>
      match best with
      | none => selectOrd s r (some (i, nw))
      | some (_, bt) => if nw < bt then selectOrd s r (some (i, nw)) else selectOrd s r best

def runLoopOrd (order : List Nat) : Nat → State → Int → List (Nat × Int) → List (Nat × Int) × RunEnd × State
  | 0, s, _, acc => (acc.reverse, .outOfFuel, s)
  | fuel+1, s, endT, acc =>
    match (selectOrd s order none).map (·.1) with
    | none => (acc.reverse, .done, s)
    | some c0 =>
      match updateRec s (s.comps.length + 1) c0 [] none with
      | .error e => (acc.reverse, .err e, s)
      | .ok none => (acc.reverse, .err .fuel, s)
      | .ok (some u) =>
        let s' := applyUpdate s u
        let acc' := (u, getNow (s'.comp u)) :: acc
        if anyRunning s' endT then runLoopOrd order fuel s' endT acc' else (acc'.reverse, .done, s')

end Finam
