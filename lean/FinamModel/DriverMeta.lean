import FinamModel.DriverUtil
import FinamModel.Validate
import FinamModel.Units
import FinamModel.Info
/-! Line-protocol handlers for C19 (validation), C17 (units), C07 (metadata exchange). -/
namespace Finam.Driver
open Lean

namespace C19
open Finam.Validate

def parseElem (j : Json) : Elem :=
  match arr j with
  | [a, b, c, d, e] => ⟨asBool a, asBool b, asBool c, asBool d, asBool e⟩
  | _ => default

partial def parseTree (j : Json) : Tree :=
  let e := parseElem (getObj j "e")
  if getBool j "input" then .input e else .node e ((getArr j "kids").map parseTree)

def parsePos (j : Json) : Pos := (arr j).map asNat

def parseComp (j : Json) : Comp :=
  ⟨(getArr j "inputs").map parsePos, (getArr j "outputs").map asNat⟩

def jPos (p : Pos) : Json := jList jNat p

/-- C19: validate a topology and list its links -/
def handle (j : Json) : Json :=
  let F := (getArr j "forest").map parseTree
  let cs := (getArr j "comps").map parseComp
  let r := validate cs F
  let tr := connect cs F (.ok ())
  Json.mkObj [
    ("result", match r with | .ok _ => Json.str "ok" | .error x => Json.str x.toString),
    ("connect", match tr.result with | .ok _ => Json.str "ok" | .error e => Json.str e.toString),
    ("links", jList (fun ab => Json.arr #[jPos ab.1, jPos ab.2]) (links cs F)),
    ("exchanged", jNat tr.exchanged.length)]
end C19

namespace C17
open Finam.Units

def parseOp (j : Json) : Option (Op Nat) :=
  match arr j with
  | [k] => if asStr k = "clear" then some .clear else none
  | [k, a, b] =>
    match asStr k with
    | "compat" => some (.compat (asNat a) (asNat b))
    | "equiv" => some (.equiv (asNat a) (asNat b))
    | _ => none
  | [k, v, a, b] =>
    match asStr k with
    | "prepare" => some (.prepare (asRat v) (if a.isNull then none else some (asNat a)) (asNat b))
    | _ => none
  | [k, v, a, b, c] =>
    match asStr k with
    | "to_units" => some (.toUnits (asRat v) (asNat a) (asNat b) (asBool c))
    | "link" => some (.link (asRat v) (asNat a) (asNat b) (if c.isNull then none else some (asNat c)))
    | _ => none
  | _ => none

def jAns : Ans Nat → Json
  | .bool b => Json.mkObj [("b", Json.bool b)]
  | .value v l c => Json.mkObj [("v", jRat v), ("label", jNat l),
      ("conv", match c with | none => Json.null | some (a, b) => Json.arr #[jNat a, jNat b])]
  | .err e => jErr e
  | .unit => Json.null

/-- C17: a query history through the memo and through the unmemoised functions -/
def handle (j : Json) : Json :=
  let reps := (getArr j "reps").map asStr
  let unitOf : Nat → U := fun k => ((reps[k]?).bind unitOfName).getD one
  let ops := (getArr j "ops").filterMap parseOp
  let r := runMemo unitOf closeTol [] ops
  Json.mkObj [
    ("memo", jList jAns r.1),
    ("pure", jList (fun op => jAns (stepPure unitOf closeTol op)) ops),
    ("cache", jList (fun e => Json.arr #[jNat e.1.1, jNat e.1.2, Json.bool e.2.1, Json.bool e.2.2]) r.2),
    ("nops", jNat ops.length)]

/-- the catalogue table: name, dimension exponents, factor, offset -/
def table (_ : Json) : Json :=
  Json.mkObj [("table", jList (fun e => Json.arr #[Json.str e.1, jList jInt e.2.dim.toList, jRat e.2.factor, jRat e.2.offset]) catalogue)]
end C17

namespace C07
open Finam.Info

def pairIn (l : List (Nat × Nat)) (a b : Nat) : Bool := l.contains (a, b)

def parsePairs (j : Json) (k : String) : List (Nat × Nat) :=
  (getArr j k).filterMap fun e => match arr e with | [a, b] => some (asNat a, asNat b) | _ => none

def optNat (j : Json) : Option Nat := if j.isNull then none else some (asNat j)

def parseRel (j : Json) : Rel :=
  let gc := parsePairs j "gridCompat"
  let ge := parsePairs j "gridEq"
  let tr := parsePairs j "transformOk"
  let uc := parsePairs j "unitsCompat"
  let ts := parsePairs j "timesSecond"
  let me : List (Nat × Nat × Option Nat × Option Nat) :=
    (getArr j "maskEq").filterMap fun e => match arr e with
      | [a, b, c, d] => some (asNat a, asNat b, optNat c, optNat d) | _ => none
  { gridCompat := pairIn gc, gridEq := pairIn ge, transformOk := pairIn tr, unitsCompat := pairIn uc,
    maskEq := fun a b c d => me.contains (a, b, c, d),
    maskFits := pairIn (parsePairs j "maskFits"),
    noGrid := getNat j "noGrid",
    timesSecond := fun u => (ts.lookup u).getD 0 }

def parseMask (j : Json) : Option MaskSpec :=
  if j.isNull then none
  else match j.getStr? with
    | .ok "flex" => some .flex
    | .ok "none" => some .none
    | _ => some (.explicit (asNat j))

def parseInfo (j : Json) : Info :=
  { time := (getObj j "time").getInt?.toOption,
    grid := optNat (getObj j "grid"),
    units := optNat (getObj j "units"),
    mask := parseMask (getObj j "mask"),
    extra := (getArr j "meta").filterMap fun e => match arr e with
      | [k, v] => some (asStr k, optNat v) | _ => none }

def parseKind (j : Json) : AKind :=
  match asStr j with
  | "g2v" => .gridToValue
  | "sum" => .sumOverTime
  | "regrid" => .regrid
  | _ => .identity

def parseBranch (j : Json) : Branch :=
  ⟨(getArr j "chain").map fun k => { kind := parseKind k },
   (getArr j "inputs").map fun i => { info := parseInfo i }⟩

def jOptNat : Option Nat → Json | some n => jNat n | none => Json.null
def jMask : Option MaskSpec → Json
  | none => Json.null
  | some .flex => Json.str "flex"
  | some .none => Json.str "none"
  | some (.explicit m) => jNat m

def jInfo (i : Info) : Json :=
  Json.mkObj [("time", jOptInt i.time), ("grid", jOptNat i.grid), ("units", jOptNat i.units), ("mask", jMask i.mask),
    ("meta", jList (fun e => Json.arr #[Json.str e.1, jOptNat e.2]) i.extra)]
def jOptInfo : Option Info → Json | some i => jInfo i | none => Json.null

/-- C07: the exchanges of all consumers of one output, in the given order -/
def handle (j : Json) : Json :=
  let R := parseRel (getObj j "rel")
  let o : OutState := ⟨some (parseInfo (getObj j "out")), 0, getBool j "static"⟩
  let bs := (getArr j "branches").map parseBranch
  let order := parsePairs j "order"
  match exchangeAll R order bs o with
  | .error e => jErr e
  | .ok (bs', o') =>
    Json.mkObj [("ok", Json.mkObj [
      ("out", jOptInfo o'.info), ("exchanged", jNat o'.exchanged),
      ("branches", jList (fun (b : Branch) => Json.mkObj [
        ("chain", jList (fun (a : AState) => Json.mkObj [("in", jOptInfo a.inInfo), ("out", jOptInfo a.outInfo)]) b.chain),
        ("inputs", jList (fun (i : InState) => Json.mkObj [("info", jInfo i.info), ("delivered", jOptInfo i.delivered),
            ("exchanged", Json.bool i.exchanged)]) b.inputs)]) bs')])]
end C07

def handlersMeta : List (String × (Json → Json)) := [
  ("c19", C19.handle),
  ("c17", C17.handle),
  ("c17table", C17.table),
  ("c07", C07.handle)
]

end Finam.Driver
