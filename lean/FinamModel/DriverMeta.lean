import FinamModel.DriverUtil
import FinamModel.Validate
import FinamModel.Units
/-! Line-protocol handlers for C19 (validation), C17 (units), C07 (metadata exchange). -/
namespace Finam.Driver
open Lean

namespace C19
open Finam.Validate

def parseElem (j : Json) : Elem :=
  match arr j with
  | [a, b, c, d, e] => ⟨asBool a, asBool b, asBool c, asBool d, asBool e⟩
  | _ => default

partial def parseTree (j : Json) : Tree :=
  let e := parseElem (getObj j "e")
  if getBool j "input" then .input e else .node e ((getArr j "kids").map parseTree)

def parsePos (j : Json) : Pos := (arr j).map asNat

def parseComp (j : Json) : Comp :=
  ⟨(getArr j "inputs").map parsePos, (getArr j "outputs").map asNat⟩

def jPos (p : Pos) : Json := jList jNat p

/-- C19: validate a topology and list its links -/
def handle (j : Json) : Json :=
  let F := (getArr j "forest").map parseTree
  let cs := (getArr j "comps").map parseComp
  let r := validate cs F
  let tr := connect cs F (.ok ())
  Json.mkObj [
    ("result", match r with | .ok _ => Json.str "ok" | .error x => Json.str x.toString),
    ("connect", match tr.result with | .ok _ => Json.str "ok" | .error e => Json.str e.toString),
    ("links", jList (fun ab => Json.arr #[jPos ab.1, jPos ab.2]) (links cs F)),
    ("exchanged", jNat tr.exchanged.length)]
end C19

namespace C17
open Finam.Units

def parseOp (j : Json) : Option (Op Nat) :=
  match arr j with
  | [k] => if asStr k = "clear" then some .clear else none
  | [k, a, b] =>
    match asStr k with
    | "compat" => some (.compat (asNat a) (asNat b))
    | "equiv" => some (.equiv (asNat a) (asNat b))
    | _ => none
  | [k, v, a, b] =>
    match asStr k with
    | "prepare" => some (.prepare (asRat v) (if a.isNull then none else some (asNat a)) (asNat b))
    | _ => none
  | [k, v, a, b, c] =>
    match asStr k with
    | "to_units" => some (.toUnits (asRat v) (asNat a) (asNat b) (asBool c))
    | "link" => some (.link (asRat v) (asNat a) (asNat b) (if c.isNull then none else some (asNat c)))
    | _ => none
  | _ => none

def jAns : Ans Nat → Json
  | .bool b => Json.mkObj [("b", Json.bool b)]
  | .value v l c => Json.mkObj [("v", jRat v), ("label", jNat l),
      ("conv", match c with | none => Json.null | some (a, b) => Json.arr #[jNat a, jNat b])]
  | .err e => jErr e
  | .unit => Json.null

/-- C17: a query history through the memo and through the unmemoised functions -/
def handle (j : Json) : Json :=
  let reps := (getArr j "reps").map asStr
  let unitOf : Nat → U := fun k => ((reps[k]?).bind unitOfName).getD one
  let ops := (getArr j "ops").filterMap parseOp
  let r := runMemo unitOf closeTol [] ops
  Json.mkObj [
    ("memo", jList jAns r.1),
    ("pure", jList (fun op => jAns (stepPure unitOf closeTol op)) ops),
    ("cache", jList (fun e => Json.arr #[jNat e.1.1, jNat e.1.2, Json.bool e.2.1, Json.bool e.2.2]) r.2),
    ("nops", jNat ops.length)]

/-- the catalogue table: name, dimension exponents, factor, offset -/
def table (_ : Json) : Json :=
  Json.mkObj [("table", jList (fun e => Json.arr #[Json.str e.1, jList jInt e.2.dim.toList, jRat e.2.factor, jRat e.2.offset]) catalogue)]
end C17

def handlersMeta : List (String × (Json → Json)) := [
  ("c19", C19.handle),
  ("c17", C17.handle),
  ("c17table", C17.table)
]

end Finam.Driver
