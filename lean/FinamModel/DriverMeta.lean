import FinamModel.DriverUtil
import FinamModel.Validate
/-! Line-protocol handlers for C19 (validation), C17 (units), C07 (metadata exchange). -/
namespace Finam.Driver
open Lean

namespace C19
open Finam.Validate

def parseElem (j : Json) : Elem :=
  match arr j with
  | [a, b, c, d, e] => ⟨asBool a, asBool b, asBool c, asBool d, asBool e⟩
  | _ => default

partial def parseTree (j : Json) : Tree :=
  let e := parseElem (getObj j "e")
  if getBool j "input" then .input e else .node e ((getArr j "kids").map parseTree)

def parsePos (j : Json) : Pos := (arr j).map asNat

def parseComp (j : Json) : Comp :=
  ⟨(getArr j "inputs").map parsePos, (getArr j "outputs").map asNat⟩

def jPos (p : Pos) : Json := jList jNat p

/-- C19: validate a topology and list its links -/
def handle (j : Json) : Json :=
  let F := (getArr j "forest").map parseTree
  let cs := (getArr j "comps").map parseComp
  let r := validate cs F
  let tr := connect cs F (.ok ())
  Json.mkObj [
    ("result", match r with | .ok _ => Json.str "ok" | .error x => Json.str x.toString),
    ("connect", match tr.result with | .ok _ => Json.str "ok" | .error e => Json.str e.toString),
    ("links", jList (fun ab => Json.arr #[jPos ab.1, jPos ab.2]) (links cs F)),
    ("exchanged", jNat tr.exchanged.length)]
end C19

def handlersMeta : List (String × (Json → Json)) := [
  ("c19", C19.handle)
]

end Finam.Driver
