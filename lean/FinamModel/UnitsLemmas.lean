import FinamModel.Units
/-!
  Helper lemmas for the units model: the memo invariant and its preservation by every
  operation that goes through `_UNIT_PAIRS_CACHE`.
-/
namespace Finam.Units

variable {κ : Type} [DecidableEq κ] (unitOf : κ → U) (close : Rat → Bool)

/-- every stored entry is the value `_cache_units` computes for its key -/
def Inv (c : Cache κ) : Prop :=
  ∀ a b r, c.lookup (a, b) = some r → r = cacheUnits close (unitOf a) (unitOf b)

theorem inv_nil : Inv unitOf close ([] : Cache κ) := by
  intro a b r h; simp at h

theorem cached_fst {c : Cache κ} (h : Inv unitOf close c) (a b : κ) :
    (cached unitOf close c a b).1 = cacheUnits close (unitOf a) (unitOf b) := by
  simp only [cached]
  cases hl : c.lookup (a, b) with
  | none => rfl
  | some r => exact h a b r hl

theorem cached_inv {c : Cache κ} (h : Inv unitOf close c) (a b : κ) :
    Inv unitOf close (cached unitOf close c a b).2 := by
  simp only [cached]
  cases hl : c.lookup (a, b) with
  | some r => exact h
  | none =>
    intro x y r hr
    simp only [List.lookup_cons] at hr
    split at hr
    · rename_i heq
      simp only [beq_iff_eq, Prod.mk.injEq] at heq
      obtain ⟨rfl, rfl⟩ := heq
      cases hr; rfl
    · exact h x y r hr

theorem toUnitsM_spec {c : Cache κ} (h : Inv unitOf close c) (v : Rat) (s d : κ) (chk : Bool) :
    (toUnitsM unitOf close c v s d chk).1 = toUnitsPure unitOf close v s d chk ∧
    Inv unitOf close (toUnitsM unitOf close c v s d chk).2 := by
  simp only [toUnitsM, toUnitsPure, equivalent]
  by_cases h1 : d = s
  · simp [h1, h]
  · simp only [h1, if_false]
    cases chk with
    | false =>
      simp only [Bool.false_eq_true, if_false, Bool.false_and]
      cases pintTo (unitOf s) (unitOf d) v <;> exact ⟨rfl, h⟩
    | true =>
      simp only [if_true, Bool.true_and, cached_fst unitOf close h]
      have hi := cached_inv unitOf close h d s
      split
      · exact ⟨rfl, hi⟩
      · cases pintTo (unitOf s) (unitOf d) v <;> exact ⟨rfl, hi⟩

theorem prepareM_spec {c : Cache κ} (h : Inv unitOf close c) (v : Rat) (s : Option κ) (d : κ) :
    (prepareM unitOf close c v s d).1 = preparePure unitOf close v s d ∧
    Inv unitOf close (prepareM unitOf close c v s d).2 := by
  cases s with
  | none => exact ⟨rfl, h⟩
  | some s =>
    simp only [prepareM, preparePure]
    have h1 := cached_inv unitOf close h s d
    have h2 := cached_inv unitOf close h1 s d
    simp only [cached_fst unitOf close h, cached_fst unitOf close h1]
    split
    · exact ⟨rfl, h1⟩
    · split
      · exact ⟨rfl, h2⟩
      · exact ⟨rfl, h2⟩

theorem linkM_spec {c : Cache κ} (h : Inv unitOf close c) (v : Rat) (a b : κ) (pub : Option κ) :
    (linkM unitOf close c v a b pub).1 = linkPure unitOf close v a b pub ∧
    Inv unitOf close (linkM unitOf close c v a b pub).2 := by
  simp only [linkM, linkPure]
  have h1 := cached_inv unitOf close h a b
  have h2 := cached_inv unitOf close h1 b a
  simp only [cached_fst unitOf close h, cached_fst unitOf close h1]
  split
  · exact ⟨rfl, h1⟩
  · split
    · exact ⟨rfl, h2⟩
    · obtain ⟨e3, h3⟩ := prepareM_spec unitOf close h2 v pub a
      rw [← e3]
      cases hp : prepareM unitOf close (cached unitOf close (cached unitOf close c a b).2 b a).2 v pub a with
      | mk ans c' =>
        rw [hp] at h3
        cases ans with
        | value x lab cv =>
          simp only
          obtain ⟨e4, h4⟩ := toUnitsM_spec unitOf close h3 x lab b true
          rw [← e4]
          cases ht : toUnitsM unitOf close c' x lab b true with
          | mk ans2 c'' =>
            rw [ht] at h4
            cases ans2 with
            | value y lab' cv' =>
              simp only [cached_fst unitOf close h4]
              have h5 := cached_inv unitOf close h4 b lab'
              split <;> exact ⟨rfl, h5⟩
            | bool _ => exact ⟨rfl, h4⟩
            | err _ => exact ⟨rfl, h4⟩
            | unit => exact ⟨rfl, h4⟩
        | bool _ => exact ⟨rfl, h3⟩
        | err _ => exact ⟨rfl, h3⟩
        | unit => exact ⟨rfl, h3⟩

theorem stepMemo_spec {c : Cache κ} (h : Inv unitOf close c) (op : Op κ) :
    (stepMemo unitOf close c op).1 = stepPure unitOf close op ∧
    Inv unitOf close (stepMemo unitOf close c op).2 := by
  cases op with
  | compat a b => exact ⟨by simp [stepMemo, stepPure, cached_fst unitOf close h], cached_inv unitOf close h a b⟩
  | equiv a b => exact ⟨by simp [stepMemo, stepPure, cached_fst unitOf close h], cached_inv unitOf close h a b⟩
  | toUnits v s d chk => exact toUnitsM_spec unitOf close h v s d chk
  | prepare v s d => exact prepareM_spec unitOf close h v s d
  | link v a b pub => exact linkM_spec unitOf close h v a b pub
  | clear => exact ⟨rfl, inv_nil unitOf close⟩

end Finam.Units
