import Lean.Data.Json
import FinamModel.Basic
/-! JSON helpers for the line-protocol driver (not part of the model). -/
namespace Finam.Driver
open Lean

def getInt (j : Json) (k : String) : Int := (j.getObjValAs? Int k).toOption.getD 0
def getNat (j : Json) (k : String) : Nat := (j.getObjValAs? Nat k).toOption.getD 0
def getStr (j : Json) (k : String) : String := (j.getObjValAs? String k).toOption.getD ""
def getBool (j : Json) (k : String) : Bool := (j.getObjValAs? Bool k).toOption.getD false
def getArr (j : Json) (k : String) : List Json :=
  match j.getObjVal? k with
  | .ok v => (v.getArr?.toOption.getD #[]).toList
  | _ => []
def getObj (j : Json) (k : String) : Json := (j.getObjVal? k).toOption.getD Json.null
def hasKey (j : Json) (k : String) : Bool := match j.getObjVal? k with | .ok v => !v.isNull | _ => false
def getOptInt (j : Json) (k : String) : Option Int :=
  match j.getObjVal? k with
  | .ok v => v.getInt?.toOption
  | _ => none
def arr (j : Json) : List Json := (j.getArr?.toOption.getD #[]).toList
def asInt (j : Json) : Int := j.getInt?.toOption.getD 0
def asNat (j : Json) : Nat := j.getNat?.toOption.getD 0
def asStr (j : Json) : String := j.getStr?.toOption.getD ""
def asBool (j : Json) : Bool := j.getBool?.toOption.getD false
def asOptInt (j : Json) : Option Int := j.getInt?.toOption

def jInt (i : Int) : Json := Json.num (JsonNumber.fromInt i)
def jNat (n : Nat) : Json := Json.num (JsonNumber.fromNat n)
def jOptInt : Option Int → Json | some i => jInt i | none => Json.null
def jList {α} (f : α → Json) (l : List α) : Json := Json.arr (l.map f).toArray
def jErr (e : Err) : Json := Json.mkObj [("err", Json.str e.toString)]
def jRes {α} (f : α → Json) : Except Err α → Json
  | .ok v => Json.mkObj [("ok", f v)]
  | .error e => jErr e

/-- rationals as [num, den] -/
def jRat (q : Rat) : Json := Json.arr #[jInt q.num, jNat q.den]
def asRat (j : Json) : Rat :=
  match arr j with
  | [n, d] => (asInt n : Rat) / (asInt d : Rat)
  | _ => match j.getInt? with | .ok i => (i : Rat) | _ => 0

end Finam.Driver
