import FinamModel.TimeAdapters
/-
  Model of `finam/adapters/time_integration.py`: `TimeIntegrationAdapter._source_updated` /
  `_get_data` / `_prev_time`, and the `_interpolate` bodies of `AvgOverTime` and `SumOverTime`
  (per-interval loop with the trapezoid / two-piece step area and the clamps, `per_time`,
  the initial-interval rule).

  Times are `Int` microseconds; `timedelta.total_seconds()` is `µs / 10^6` as an exact `Rat`.
  Values are `Rat` in the units of the adapter's source; a `per_time` sum and the intermediate
  sums of the average are in (source units · second).
-/
namespace Finam.TI
open Finam Finam.TA

/-- `timedelta.total_seconds()` -/
def secs (d : Int) : Rat := (d : Rat) / 1000000

inductive Mode where
  | avg                                        -- `AvgOverTime`
  | sum (perTime : Bool) (initUs : Int)         -- `SumOverTime(per_time, initial_interval)`
deriving Repr, DecidableEq

structure Cfg where
  step : Option Rat      -- `None` = linear interpolation between publications
  mode : Mode
deriving Repr, DecidableEq

/-- contribution of one source interval `[old.t, new.t]` (the body of the `for` loop behind the
    `continue` / `break` tests): `dt1 = max((prev - t_old) / range, 0.0)`,
    `dt2 = min((time - t_old) / range, 1.0)`, trapezoid or two-piece step area, optionally
    `value *= time_range.total_seconds()`. -/
def piece (step : Option Rat) (scaled : Bool) (old new : Entry Rat) (prev t : Int) : Rat :=
  let dt1 := max (frac old.t new.t prev) 0
  let dt2 := min (frac old.t new.t t) 1
  let value := match step with
    | none => (dt2 - dt1) * (1/2) * (lerp old.v new.v dt1 + lerp old.v new.v dt2)
    | some s => (min s dt2 - min dt1 s) * old.v + (max s dt2 - max s dt1) * new.v
  if scaled then value * secs (new.t - old.t) else value

/-- the `for i in range(len(self.data) - 1)` loop; `acc = none` is Python's `sum_value = None` -/
def loop (step : Option Rat) (scaled : Bool) (prev t : Int) (old : Entry Rat) :
    List (Entry Rat) → Option Rat → Option Rat
  | [], acc => acc
  | new :: rest, acc =>
    if prev ≥ new.t then loop step scaled prev t new rest acc
    else if t ≤ old.t then acc
    else loop step scaled prev t new rest (some (acc.getD 0 + piece step scaled old new prev t))

/-- `AvgOverTime._interpolate` -/
def avgInterp (step : Option Rat) : List (Entry Rat) → Int → Int → Except Err Rat
  | [], _, _ => .error .timeErr
  | [e], _, _ => .ok e.v
  | e0 :: es, prev, t =>
    if t ≤ e0.t then .ok e0.v
    else if t - prev > 0 then
      match loop step true prev t e0 es none with
      | some s => .ok (s / secs (t - prev))
      | none => .error .other           -- `None /= ...` (TypeError)
    else .error .timeErr                -- "Can't calculate average over zero-length time duration."

/-- value of the first buffer entry, scaled by `initial_interval` for `per_time` sums -/
def initVal (perTime : Bool) (initUs : Int) (e : Entry Rat) : Rat :=
  if perTime then e.v * secs initUs else e.v

/-- `SumOverTime._interpolate` -/
def sumInterp (step : Option Rat) (perTime : Bool) (initUs : Int) : List (Entry Rat) → Int → Int → Except Err Rat
  | [], _, _ => .error .timeErr
  | [e], _, _ => .ok (initVal perTime initUs e)
  | e0 :: es, prev, t =>
    if t ≤ e0.t then .ok (initVal perTime initUs e0)
    else match loop step perTime prev t e0 es none with
      | some s => .ok s
      | none => .error .other           -- `None.to_reduced_units()` / a `None` payload

def interp (c : Cfg) (d : List (Entry Rat)) (prev t : Int) : Except Err Rat :=
  match c.mode with
  | .avg => avgInterp c.step d prev t
  | .sum perTime initUs => sumInterp c.step perTime initUs d prev t

/-- `_get_data` up to the eviction: emptiness, range check, `_interpolate` -/
def getData (c : Cfg) (d : List (Entry Rat)) (prev t : Int) : Except Err Rat :=
  match checkRange d t with
  | .error e => .error e
  | .ok () => interp c d prev t

/-- `hist` = every notification (ghost), `buf` = `self.data`, `prev` = `self._prev_time` -/
structure IState where
  hist : List (Entry Rat)
  buf  : List (Entry Rat)
  prev : Option Int

def init : IState := ⟨[], [], none⟩

/-- `_source_updated` and `_get_data` of `TimeIntegrationAdapter`; eviction uses the *previous*
    request time and happens before `_prev_time` is advanced -/
def stepImpl (c : Cfg) (s : IState) : Ev → IState × Option (Except Err Rat)
  | .push t v =>
    ({ hist := s.hist ++ [⟨t, v⟩], buf := s.buf ++ [⟨t, v⟩],
       prev := match s.prev with | none => some t | some p => some p }, none)
  | .pull t =>
    match s.buf, s.prev with
    | [], _ => (s, some (.error .noData))
    | _, none => (s, some (.error .other))   -- unreachable: `_prev_time` is set with the first entry
    | _, some p =>
      match getData c s.buf p t with
      | .ok v => ({ s with buf := clear s.buf p, prev := some t }, some (.ok v))
      | .error e => (s, some (.error e))

/-! ### Specification: the exact integral of the interpolant of the full history -/

/-- antiderivative (from `a.t`, in value·µs) of the linear interpolant on `[a.t, b.t]` -/
def primLin (a b : Entry Rat) (x : Rat) : Rat :=
  a.v * (x - a.t) + (b.v - a.v) / ((b.t : Rat) - a.t) * ((x - a.t) * (x - a.t) / 2)

/-- antiderivative of the step interpolant with relative step position `s` on `[a.t, b.t]`:
    `a.v` up to `σ = a.t + s (b.t - a.t)`, `b.v` behind it -/
def primStep (s : Rat) (a b : Entry Rat) (x : Rat) : Rat :=
  a.v * (min x ((a.t : Rat) + s * ((b.t : Rat) - a.t)) - a.t) +
  b.v * (max x ((a.t : Rat) + s * ((b.t : Rat) - a.t)) - ((a.t : Rat) + s * ((b.t : Rat) - a.t)))

def prim (step : Option Rat) (a b : Entry Rat) (x : Rat) : Rat :=
  match step with
  | none => primLin a b x
  | some s => primStep s a b x

/-- `x` clamped into `[a, b]` -/
def clampR (a b x : Rat) : Rat := max a (min b x)

/-- weight of a value·µs area: seconds for time-scaled sums; the fraction of the source interval for
    the plain weighted sum -/
def weight (scaled : Bool) (a b : Entry Rat) : Rat :=
  if scaled then 1 / 1000000 else 1 / ((b.t : Rat) - a.t)

/-- integral of the interpolant over `[p0, p1] ∩ [a.t, b.t]` -/
def pairIntegral (step : Option Rat) (scaled : Bool) (a b : Entry Rat) (p0 p1 : Int) : Rat :=
  (prim step a b (clampR a.t b.t p1) - prim step a b (clampR a.t b.t p0)) * weight scaled a b

/-- integral over `[p0, p1]` of the piecewise interpolant of a whole series: the sum over *all*
    pairs of consecutive publications -/
def specIntegral (step : Option Rat) (scaled : Bool) : List (Entry Rat) → Int → Int → Rat
  | a :: b :: rest, p0, p1 => pairIntegral step scaled a b p0 p1 + specIntegral step scaled (b :: rest) p0 p1
  | _, _, _ => 0

/-- the published values that contribute to the integral over `[p0, p1]` on the pair `(a, b)`: both
    ends for the linear interpolant when the overlap has positive length; for the step interpolant
    `a.v` if the overlap with the part before the step position has positive length, `b.v` likewise
    for the part behind it -/
def pairContrib (step : Option Rat) (a b : Entry Rat) (p0 p1 : Int) : List Rat :=
  match step with
  | none => if clampR a.t b.t p0 < clampR a.t b.t p1 then [a.v, b.v] else []
  | some s =>
    (if min (clampR a.t b.t p0) ((a.t : Rat) + s * ((b.t : Rat) - a.t)) <
        min (clampR a.t b.t p1) ((a.t : Rat) + s * ((b.t : Rat) - a.t)) then [a.v] else []) ++
    (if max (clampR a.t b.t p0) ((a.t : Rat) + s * ((b.t : Rat) - a.t)) <
        max (clampR a.t b.t p1) ((a.t : Rat) + s * ((b.t : Rat) - a.t)) then [b.v] else [])

def contrib (step : Option Rat) : List (Entry Rat) → Int → Int → List Rat
  | a :: b :: rest, p0, p1 => pairContrib step a b p0 p1 ++ contrib step (b :: rest) p0 p1
  | _, _, _ => []

/-- the property's answer for a request at `p1` following a request (or the first publication) at
    `p0 < p1` -/
def specValue (c : Cfg) (h : List (Entry Rat)) (p0 p1 : Int) : Rat :=
  match c.mode with
  | .avg => specIntegral c.step true h p0 p1 / secs (p1 - p0)
  | .sum perTime _ => specIntegral c.step perTime h p0 p1

def inRange (h : List (Entry Rat)) (t : Int) : Bool :=
  match h with
  | [] => false
  | e0 :: es => decide (e0.t ≤ t) && decide (t ≤ (lastE e0 es).t)

/-- what the property demands of one event: a value for a request at `t` inside the published range
    that follows a request (or the first publication) at `p < t`; nothing otherwise -/
def answerSpec (c : Cfg) (s : IState) : Ev → Option Rat
  | .push _ _ => none
  | .pull t => match s.prev with
    | some p => if p < t ∧ inRange s.hist t = true then some (specValue c s.hist p t) else none
    | none => none

def runBoth (c : Cfg) : IState → List Ev → List (Option (Except Err Rat) × Option Rat)
  | _, [] => []
  | s, ev :: evs => ((stepImpl c s ev).2, answerSpec c s ev) :: runBoth c (stepImpl c s ev).1 evs

def runFinal (c : Cfg) : IState → List Ev → IState
  | s, [] => s
  | s, ev :: evs => runFinal c (stepImpl c s ev).1 evs

def runLens (c : Cfg) : IState → List Ev → List Nat
  | _, [] => []
  | s, ev :: evs => (stepImpl c s ev).1.buf.length :: runLens c (stepImpl c s ev).1 evs

/-- precondition of one event: publications strictly increase, requests do not decrease -/
def preB (s : IState) : Ev → Bool
  | .push t _ => s.hist.all fun e => decide (e.t < t)
  | .pull t => match s.prev with | some a => decide (a ≤ t) | none => true

def preAllB (c : Cfg) : IState → List Ev → Bool
  | _, [] => true
  | s, ev :: evs => preB s ev && preAllB c (stepImpl c s ev).1 evs

end Finam.TI
