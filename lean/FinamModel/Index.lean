import FinamModel.Basic
/-
  n-dimensional index maps: the part of numpy that FINAM's grid, mask and `prepare` code relies on.

  An array is a shape and a function from multi-indices to values (`Arr`).  Every numpy operation
  used by `finam/data/grid_tools.py`, `grid_base.py`, `tools/mask.py`, `tools/core.py` is one
  definition here:

  * `np.ravel_multi_index` / `np.unravel_index` in C and F order (`ravel`, `unravel`),
  * `np.ravel(a, order)` / `a.reshape(-1, order=…)` (`Arr.flat`), `np.reshape(flat, shape, order)`
    (`Arr.ofFlat`), `a.reshape(shape, order)` (`Arr.reshape`),
  * `np.transpose` (full axis reversal), `np.flip(a, axis)`, `np.moveaxis(a, 0, -1)`,
    `np.moveaxis(a, -1, 0)`, `np.expand_dims(a, 0)`,
  * `a.compress(np.logical_not(mask))` and `data[np.logical_not(mask)] = values` on flat arrays.

  numpy itself is trusted to implement these maps; the correspondence engines check that on
  `arange`-filled arrays.
-/
namespace Finam

/-- `np.prod(shape)` -/
def prod : List Nat → Nat
  | [] => 1
  | n :: ns => n * prod ns

/-- multi-index `ix` lies inside `shape` (same rank, every entry below its axis length) -/
def InB : List Nat → List Nat → Prop
  | [], [] => True
  | n :: ns, i :: is => i < n ∧ InB ns is
  | _, _ => False

def inB : List Nat → List Nat → Bool
  | [], [] => true
  | n :: ns, i :: is => decide (i < n) && inB ns is
  | _, _ => false

/-- C-order (row-major, last axis fastest) flat position of a multi-index -/
def ravelC : List Nat → List Nat → Nat
  | _ :: ns, i :: is => i * prod ns + ravelC ns is
  | _, _ => 0

/-- C-order multi-index of a flat position -/
def unravelC : List Nat → Nat → List Nat
  | [], _ => []
  | _ :: ns, k => (k / prod ns) :: unravelC ns (k % prod ns)

/-- memory order flag of numpy (`order="C"` / `order="F"`) -/
inductive Order where
  | C | F
deriving DecidableEq, Repr, Inhabited

/-- Fortran order is C order on the reversed shape and the reversed index. -/
def ravel : Order → List Nat → List Nat → Nat
  | .C, sh, ix => ravelC sh ix
  | .F, sh, ix => ravelC sh.reverse ix.reverse

def unravel : Order → List Nat → Nat → List Nat
  | .C, sh, k => unravelC sh k
  | .F, sh, k => (unravelC sh.reverse k).reverse

/-- all multi-indices of a shape in C order (`np.ndindex`) -/
def allIdx (sh : List Nat) : List (List Nat) := (List.range (prod sh)).map (unravelC sh)

/-- An n-dimensional array: shape and element function. Elements outside the shape are junk. -/
structure Arr (α : Type) where
  shape : List Nat
  get : List Nat → α

namespace Arr
variable {α : Type}

def ndim (a : Arr α) : Nat := a.shape.length
def size (a : Arr α) : Nat := prod a.shape

/-- `np.ravel(a, order)` as a list -/
def flat (o : Order) (a : Arr α) : List α :=
  (List.range (prod a.shape)).map fun k => a.get (unravel o a.shape k)

/-- `np.reshape(flat, shape, order)` of a flat list (`d` pads a list that is too short; the callers
    check the length first) -/
def ofFlat (o : Order) (sh : List Nat) (l : List α) (d : α) : Arr α :=
  ⟨sh, fun i => l.getD (ravel o sh i) d⟩

/-- `a.reshape(shape, order=o)` for `prod shape = a.size` -/
def reshape (o : Order) (sh : List Nat) (a : Arr α) : Arr α :=
  ⟨sh, fun i => a.get (unravel o a.shape (ravel o sh i))⟩

/-- `np.transpose(a)`: all axes reversed -/
def transpose (a : Arr α) : Arr α := ⟨a.shape.reverse, fun i => a.get i.reverse⟩

/-- index map of `np.flip(a, axis=k)` -/
def flipIdx : List Nat → Nat → List Nat → List Nat
  | n :: _, 0, i :: is => (n - 1 - i) :: is
  | _ :: ns, k + 1, i :: is => i :: flipIdx ns k is
  | _, _, is => is

/-- `np.flip(a, axis=k)` -/
def flip (k : Nat) (a : Arr α) : Arr α := ⟨a.shape, fun i => a.get (flipIdx a.shape k i)⟩

/-- `np.moveaxis(a, 0, -1)` -/
def moveFirstToLast (a : Arr α) : Arr α :=
  ⟨a.shape.tail ++ a.shape.take 1, fun i => a.get (i.drop (i.length - 1) ++ i.take (i.length - 1))⟩

/-- `np.moveaxis(a, -1, 0)` -/
def moveLastToFirst (a : Arr α) : Arr α :=
  ⟨a.shape.drop (a.shape.length - 1) ++ a.shape.take (a.shape.length - 1),
   fun i => a.get (i.tail ++ i.take 1)⟩

/-- `np.expand_dims(a, 0)` -/
def expandDims0 (a : Arr α) : Arr α := ⟨1 :: a.shape, fun i => a.get i.tail⟩

/-- `a[t, ...]` -/
def slice0 (t : Nat) (a : Arr α) : Arr α := ⟨a.shape.tail, fun i => a.get (t :: i)⟩

/-- all elements in C order -/
def toList (a : Arr α) : List α := a.flat .C

/-- extensional equality on the in-bounds indices -/
def Eqv (a b : Arr α) : Prop := a.shape = b.shape ∧ ∀ i, InB a.shape i → a.get i = b.get i

def map {β : Type} (f : α → β) (a : Arr α) : Arr β := ⟨a.shape, fun i => f (a.get i)⟩

end Arr

/-- `xs.compress(np.logical_not(mask))`: keep the entries whose mask flag is `false`.
    (numpy stops at the shorter of the two, like this definition.) -/
def compressNot {α : Type} : List Bool → List α → List α
  | m :: ms, x :: xs => if m then compressNot ms xs else x :: compressNot ms xs
  | _, _ => []

/-- `out = empty(n); out[np.logical_not(mask)] = vals`: walk the mask, consume one value per
    unmasked position; masked positions stay undefined (`none`). -/
def scatterNot {α : Type} : List Bool → List α → List (Option α)
  | [], _ => []
  | true :: ms, vs => none :: scatterNot ms vs
  | false :: ms, v :: vs => some v :: scatterNot ms vs
  | false :: ms, [] => none :: scatterNot ms []

/-- number of unmasked positions -/
def countNot : List Bool → Nat
  | [] => 0
  | m :: ms => (if m then 0 else 1) + countNot ms

end Finam
