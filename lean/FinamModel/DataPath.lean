import FinamModel.Sched
/-
  The data path of one pull along an adapter chain (consumer side first), as far as request
  times are concerned: `Input.pull_data` → `Adapter.get_data` (pass-through: same time) →
  `TimeDelayAdapter.get_data` (`with_delay`) → `TimeCachingAdapter._get_data` (answers from its
  buffer; range check against the newest buffered notification) → `Output.get_data` (range check
  against the newest publication).  Every push-based adapter is notified on every publication and
  buffers an entry for it, and `DelayToPush.push_time` is the newest notification, so both equal
  the newest publication time of the source (`newest`).
-/
namespace Finam

/-- where the request ends up being range-checked, and for which time -/
inductive Check where
  | atCache (t : Int)      -- answered by a push-based adapter's buffer
  | atSource (t : Int)     -- reaches `Output.get_data`
deriving Repr, DecidableEq

def Check.time : Check → Int
  | .atCache t => t
  | .atSource t => t

def reach (dp : DP) (newest : Int) : List Ad → Int → Check
  | [], t => .atSource t
  | .pass :: r, t => reach dp newest r t
  | .nodep :: r, t => reach dp newest r t
  | .cache :: _, t => .atCache t
  | .dpush :: r, t => reach dp newest r (imin t newest)
  | .dfix d i :: r, t => reach dp newest r ((Ad.dfix d i).withDelay dp t)
  | .dpull id n a i :: r, t => reach dp newest r ((Ad.dpull id n a i).withDelay dp t)

/-- the upper range check of the element that answers (`time > newest` ⇒ FinamTimeError) -/
def upperOk (newest : Int) (c : Check) : Prop := c.time ≤ newest

instance (newest : Int) (c : Check) : Decidable (upperOk newest c) := by unfold upperOk; infer_instance

def hasBareNoDep : List Ad → Bool
  | [] => false
  | .nodep :: _ => true
  | .cache :: _ => false          -- whatever is upstream of a push-based adapter is not on the pull's way
  | _ :: r => hasBareNoDep r

end Finam
