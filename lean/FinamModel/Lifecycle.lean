import FinamModel.Basic
/-
  Life cycle of components as driven by `Composition` (`__init__`, `connect`, `run`,
  `_finalize_components`) and the status handling of `Component` (`sdk/component.py`).
-/
namespace Finam

inductive St where
  | created | initialized | connecting | connectingIdle | connected | validated | updated | finished
  | finalized | failed
deriving Repr, DecidableEq

inductive Call where
  | initialize
  | connect (result : St)     -- status set by `try_connect` inside `_connect` (ignored for the ping call)
  | validate
  | update
  | finalize
deriving Repr, DecidableEq

/-- one driver call on one component: the component's status change followed by the driver's
    `_check_status` (a failed check raises `FinamStatusError`: `none`) -/
def lcStep (st : St) : Call → Option St
  | .initialize =>
    -- `__init__` checks CREATED first; `initialize` sets INITIALIZED
    if st = .created then some .initialized else none
  | .connect r =>
    -- only called while status ≠ CONNECTED; first call pings (INITIALIZED → CONNECTING),
    -- later calls end in whatever `try_connect` reports; driver accepts the three connect states
    if st = .initialized then some .connecting
    else if st = .connecting ∨ st = .connectingIdle then
      (if r = .connecting ∨ r = .connectingIdle ∨ r = .connected then some r else none)
    else none
  | .validate =>
    -- the connect loop only ends when every component is CONNECTED
    if st = .connected then some .validated else none
  | .update =>
    -- `update()` sets UPDATED; the run loop then accepts VALIDATED or UPDATED
    if st = .validated ∨ st = .updated then some .updated else none
  | .finalize =>
    if st = .validated ∨ st = .updated ∨ st = .finished then some .finalized else none

def lcRun : St → List Call → Option St
  | st, [] => some st
  | st, c :: cs => match lcStep st c with | some st' => lcRun st' cs | none => none

def Call.isConnect : Call → Bool | .connect _ => true | _ => false

/-- the order in which `Composition` issues calls to `n` components: all initialize, then the connect
    loop, then all validate, then the run loop's updates, then all finalize -/
def compositionCalls (n : Nat) (connects : List (Nat × St)) (updates : List Nat) : List (Nat × Call) :=
  (List.range n).map (fun c => (c, Call.initialize)) ++
  connects.map (fun p => (p.1, Call.connect p.2)) ++
  (List.range n).map (fun c => (c, Call.validate)) ++
  updates.map (fun u => (u, Call.update)) ++
  (List.range n).map (fun c => (c, Call.finalize))

def callsOf (c : Nat) (tr : List (Nat × Call)) : List Call := (tr.filter (fun p => p.1 == c)).map (·.2)

/-- `_collect_adapters`: adapters are gathered walking up from every input and down from every
    output into a *set*; the finalisation loop visits each member once -/
def dedup : List Nat → List Nat
  | [] => []
  | a :: as => if a ∈ as then dedup as else a :: dedup as

def finalizeList (collected : List Nat) : List Nat := dedup collected

end Finam
