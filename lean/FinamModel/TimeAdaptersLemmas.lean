import FinamModel.TimeAdapters
/-! Helper lemmas for the time-interpolation adapter model (C11). -/
namespace Finam.TA
open Finam

theorem firstAtOrAfter_cons {α} (e : Entry α) (es : List (Entry α)) (t : Int) :
    firstAtOrAfter (e :: es) t = if t ≤ e.t then some e else firstAtOrAfter es t := by
  simp only [firstAtOrAfter, List.find?_cons]
  by_cases h : t ≤ e.t <;> simp [h]

theorem lastAtOrBefore_cons {α} (e : Entry α) (es : List (Entry α)) (t : Int) :
    lastAtOrBefore (e :: es) t =
      if e.t ≤ t then some ((lastAtOrBefore es t).getD e) else lastAtOrBefore es t := by
  simp only [lastAtOrBefore, List.filter_cons]
  by_cases h : e.t ≤ t
  · simp [h, List.getLast?_cons]
  · simp [h]

theorem sorted_head_lt {α} : ∀ (l : List (Entry α)) (e : Entry α), Sorted (e :: l) → ∀ x ∈ l, e.t < x.t := by
  intro l
  induction l with
  | nil => intro e _ x hx; cases hx
  | cons a l ih =>
    intro e hs x hx
    cases hx with
    | head => exact hs.1
    | tail _ hx' => have := ih a hs.2 x hx'; have := hs.1; omega

/-- nothing at or before `t` behind an entry that is already later than or at `t` -/
theorem lastAtOrBefore_none {α} (e : Entry α) (es : List (Entry α)) (t : Int)
    (hs : Sorted (e :: es)) (ht : t ≤ e.t) : lastAtOrBefore es t = none := by
  simp only [lastAtOrBefore, List.getLast?_eq_none_iff, List.filter_eq_nil_iff]
  intro x hx
  have := sorted_head_lt es e hs x hx
  simp; omega

theorem lastE_ge {α} (e0 : Entry α) (es : List (Entry α)) (h : Sorted (e0 :: es)) : e0.t ≤ (lastE e0 es).t := by
  induction es generalizing e0 with
  | nil => simp [lastE]
  | cons e1 es ih => have := ih e1 h.2; simp only [lastE]; have := h.1; omega

theorem firstAtOrAfter_some {α} : ∀ (l : List (Entry α)) (p : Entry α) (t : Int),
    t ≤ (lastE p l).t → p.t < t → ∃ hi, firstAtOrAfter l t = some hi := by
  intro l
  induction l with
  | nil => intro p t h1 h2; simp only [lastE] at h1; omega
  | cons e es ih =>
    intro p t h1 h2
    rw [firstAtOrAfter_cons]
    by_cases h : t ≤ e.t
    · exact ⟨e, by simp [h]⟩
    · simp only [h, if_false]
      exact ih e t (by simpa [lastE] using h1) (by omega)

/-- the bracket-based loops (`prev`, `linear`, `step`): result in terms of the two brackets -/
def loopOf (k : Kind) (p : Entry Rat) (l : List (Entry Rat)) (t : Int) : Except Err Rat :=
  match k with
  | .next => nextLoop l t
  | .prev => prevLoop p l t
  | .linear => linLoop p l t
  | .step pos => stepLoop pos p l t

theorem specOf_same (k : Kind) (e : Entry Rat) (t : Int) : specOf k e e t = e.v := by
  cases k <;> simp [specOf]

theorem loop_spec (k : Kind) : ∀ (l : List (Entry Rat)) (p : Entry Rat) (t : Int),
    Sorted (p :: l) → p.t < t →
    loopOf k p l t = match firstAtOrAfter l t with
      | none => .error .timeErr
      | some hi => .ok (specOf k ((lastAtOrBefore l t).getD p) hi t) := by
  intro l
  induction l with
  | nil => intro p t _ _; cases k <;> simp [loopOf, nextLoop, prevLoop, linLoop, stepLoop, firstAtOrAfter]
  | cons e es ih =>
    intro p t hs hp
    rw [firstAtOrAfter_cons, lastAtOrBefore_cons]
    by_cases h1 : t > e.t
    · have hne : ¬ t ≤ e.t := by omega
      have hle : e.t ≤ t := by omega
      have := ih e t hs.2 h1
      simp only [hne, hle, if_false, if_true, Option.getD_some]
      rw [← this]
      cases k <;> simp [loopOf, nextLoop, prevLoop, linLoop, stepLoop, h1]
    · have hle : t ≤ e.t := by omega
      have hnone := lastAtOrBefore_none e es t hs.2 hle
      simp only [hle, if_true, hnone, Option.getD_none]
      by_cases h2 : t = e.t
      · have : e.t ≤ t := by omega
        simp only [this, if_true, Option.getD_some, specOf_same]
        cases k <;> simp [loopOf, nextLoop, prevLoop, linLoop, stepLoop, h1, h2]
      · have h3 : ¬ e.t ≤ t := by omega
        have h4 : p.t ≠ e.t := by omega
        simp only [h3, if_false, Option.getD_none]
        cases k <;>
          simp [loopOf, nextLoop, prevLoop, linLoop, stepLoop, h1, h2, specOf, h4, lerp, frac, stepSel]

/-- `_interpolate` started on the whole buffer = the loop started behind the head -/
theorem interp_cons (k : Kind) (e0 e1 : Entry Rat) (es : List (Entry Rat)) (t : Int) (h : e0.t ≤ t) :
    interp k (e0 :: e1 :: es) t = if t = e0.t then .ok e0.v else loopOf k e0 (e1 :: es) t := by
  by_cases h2 : t = e0.t
  · have : ¬ t > e0.t := by omega
    cases k <;> simp [interp, nextInterp, prevInterp, linInterp, stepInterp, nextLoop, prevLoop, linLoop,
      stepLoop, h2]
  · have : t > e0.t := by omega
    cases k <;> simp [interp, nextInterp, prevInterp, linInterp, stepInterp, nextLoop, prevLoop, linLoop,
      stepLoop, h2, this, loopOf]

/-- the code on a sorted buffer computes the mathematical definition on that buffer -/
theorem getData_eq_spec (k : Kind) (d : List (Entry Rat)) (t : Int) (hs : Sorted d) :
    getData k d t = specAnswer k d t := by
  cases d with
  | nil => simp [getData, checkRange, specAnswer, specVal, lastAtOrBefore, firstAtOrAfter]
  | cons e0 es =>
    simp only [getData, checkRange]
    by_cases hgt : t > (lastE e0 es).t
    · -- beyond the newest publication
      have hnone : firstAtOrAfter (e0 :: es) t = none := by
        simp only [firstAtOrAfter, List.find?_eq_none]
        intro x hx
        have hl := lastE_ge e0 es hs
        have : x.t ≤ (lastE e0 es).t := by
          clear hgt hl
          induction es generalizing e0 with
          | nil => simp at hx; subst hx; simp [lastE]
          | cons e1 es ih =>
            cases hx with
            | head => simpa [lastE] using lastE_ge e1 es hs.2 |> fun h => by have := hs.1; omega
            | tail _ hx' => simpa [lastE] using ih e1 hs.2 hx'
        simp; omega
      simp only [hgt, if_true, specAnswer, specVal, hnone]
      cases lastAtOrBefore (e0 :: es) t <;> simp
    · simp only [hgt, if_false]
      by_cases hlt : t < e0.t
      · have hnone : lastAtOrBefore (e0 :: es) t = none := by
          rw [lastAtOrBefore_cons]
          have : ¬ e0.t ≤ t := by omega
          simp only [this, if_false]
          exact lastAtOrBefore_none e0 es t hs (by omega)
        simp [hlt, specAnswer, specVal, hnone]
      · simp only [hlt, if_false]
        have hge : e0.t ≤ t := by omega
        cases es with
        | nil =>
          have : t = e0.t := by simp only [lastE] at hgt; omega
          simp [interp, specAnswer, specVal, lastAtOrBefore, firstAtOrAfter, this, specOf_same]
          cases k <;> simp [nextInterp, prevInterp, linInterp, stepInterp]
        | cons e1 es =>
          rw [interp_cons k e0 e1 es t hge]
          simp only [specAnswer, specVal]
          rw [firstAtOrAfter_cons e0, lastAtOrBefore_cons e0]
          simp only [hge, if_true]
          by_cases h2 : t = e0.t
          · have hnone := lastAtOrBefore_none e0 (e1 :: es) t hs (by omega)
            subst h2
            simp [hnone, specOf_same]
          · have hlt' : e0.t < t := by omega
            have hn : ¬ t ≤ e0.t := by omega
            simp only [h2, hn, if_false]
            rw [loop_spec k (e1 :: es) e0 t hs hlt']
            obtain ⟨hi, hhi⟩ := firstAtOrAfter_some (e1 :: es) e0 t (by omega) hlt'
            simp [hhi]

theorem sorted_append_right' {α} : ∀ (p r : List (Entry α)), Sorted (p ++ r) → Sorted r := by
  intro p
  induction p with
  | nil => intro r h; simpa using h
  | cons a p ih => intro r h; exact ih r (sorted_tail h)

theorem sorted_mid_lt {α} : ∀ (q : List (Entry α)) (x e : Entry α) (r : List (Entry α)),
    Sorted (x :: (q ++ e :: r)) → x.t < e.t := by
  intro q
  induction q with
  | nil => intro x e r h; exact h.1
  | cons y q ih => intro x e r h; have := ih y e r h.2; have := h.1; omega

/-- dropping the head when the second entry is not newer than the request -/
theorem spec_drop_head (k : Kind) (e0 e1 : Entry Rat) (es : List (Entry Rat)) (t : Int)
    (hs : Sorted (e0 :: e1 :: es)) (ht : e1.t ≤ t) :
    specAnswer k (e0 :: e1 :: es) t = specAnswer k (e1 :: es) t := by
  have h01 := hs.1
  simp only [specAnswer, specVal]
  rw [firstAtOrAfter_cons e0, lastAtOrBefore_cons e0]
  have h1 : ¬ t ≤ e0.t := by omega
  have h2 : e0.t ≤ t := by omega
  simp only [h1, h2, if_false, if_true]
  rw [lastAtOrBefore_cons e1]
  simp [ht]

theorem spec_drop_prefix (k : Kind) : ∀ (p : List (Entry Rat)) (e : Entry Rat) (r : List (Entry Rat)) (t : Int),
    Sorted (p ++ e :: r) → e.t ≤ t → specAnswer k (p ++ e :: r) t = specAnswer k (e :: r) t := by
  intro p
  induction p with
  | nil => intro e r t _ _; rfl
  | cons a p ih =>
    intro e r t hs ht
    have hs' : Sorted (p ++ e :: r) := sorted_tail hs
    cases p with
    | nil => exact spec_drop_head k a e r t hs ht
    | cons b p' =>
      have hb : b.t ≤ t := by have := sorted_mid_lt p' b e r hs'; omega
      have h1 := spec_drop_head k a b (p' ++ e :: r) t hs hb
      simp only [List.cons_append] at *
      rw [h1]
      exact ih e r t hs' ht

theorem clear_suffix {α} (d : List (Entry α)) (m : Int) : ∃ q, d = q ++ clear d m := by
  fun_induction clear d m with
  | case1 e0 e1 es m h ih => obtain ⟨q, hq⟩ := ih; exact ⟨e0 :: q, by rw [List.cons_append, ← hq]⟩
  | case2 => exact ⟨[], rfl⟩
  | case3 => exact ⟨[], rfl⟩

theorem clear_ne_nil {α} (d : List (Entry α)) (m : Int) (h : d ≠ []) : clear d m ≠ [] := by
  fun_induction clear d m with
  | case1 e0 e1 es m _ ih => exact ih (by simp)
  | case2 => simp
  | case3 d m hd => exact h

def headLe {α} (r : List (Entry α)) (m : Int) : Prop :=
  match r with | [] => True | e :: _ => e.t ≤ m

theorem clear_head_le {α} (d : List (Entry α)) (m : Int) (h : headLe d m) : headLe (clear d m) m := by
  fun_induction clear d m with
  | case1 e0 e1 es m hle ih => exact ih (by simpa [headLe] using hle)
  | case2 => exact h
  | case3 => exact h

/-- eviction at `m` does not change the answer to any request at or after `m` -/
theorem clear_getData (k : Kind) (d : List (Entry Rat)) (m t : Int) (hs : Sorted d) (ht : m ≤ t) :
    getData k (clear d m) t = getData k d t := by
  fun_induction clear d m with
  | case1 e0 e1 es m h ih =>
    rw [ih hs.2 ht, getData_eq_spec k _ t hs.2, getData_eq_spec k _ t hs]
    exact (spec_drop_head k e0 e1 es t hs (by omega)).symm
  | case2 => rfl
  | case3 => rfl

theorem getData_ok_ge_head (k : Kind) (e : Entry Rat) (r : List (Entry Rat)) (t : Int) (v : Rat)
    (h : getData k (e :: r) t = .ok v) : e.t ≤ t := by
  simp only [getData, checkRange] at h
  split at h
  · cases h
  · rename_i heq
    split at heq
    · cases heq
    · split at heq
      · cases heq
      · omega

/-- invariant of the adapter state under admissible histories -/
structure Inv (s : AState) : Prop where
  sorted : Sorted s.hist
  suffix : ∃ p, s.hist = p ++ s.buf
  lastOk : ∀ a, s.last = some a → headLe s.buf a
  lastNone : s.buf = [] → s.last = none
  guard  : s.hist = s.buf ∨ (s.buf ≠ [] ∧ ∃ a, s.last = some a)

def Pre (s : AState) : Ev → Prop
  | .push t _ => ∀ e ∈ s.hist, e.t < t
  | .pull t => ∀ a, s.last = some a → a ≤ t

theorem pre_of_preB (s : AState) (ev : Ev) (h : preB s ev = true) : Pre s ev := by
  cases ev with
  | push t v =>
    simp only [preB, List.all_eq_true, decide_eq_true_eq] at h
    exact h
  | pull t =>
    intro a ha
    simp only [preB, ha, decide_eq_true_eq] at h
    exact h

theorem sorted_snoc {α} : ∀ (l : List (Entry α)) (e : Entry α), Sorted l → (∀ x ∈ l, x.t < e.t) → Sorted (l ++ [e]) := by
  intro l
  induction l with
  | nil => intro e _ _; trivial
  | cons a l ih =>
    intro e hs hlt
    cases l with
    | nil => exact ⟨hlt a (by simp), trivial⟩
    | cons b l' => exact ⟨hs.1, ih e hs.2 (fun x hx => hlt x (List.mem_cons_of_mem _ hx))⟩

theorem headLe_append {α} (r : List (Entry α)) (e : Entry α) (a : Int) (hne : r ≠ []) (h : headLe r a) :
    headLe (r ++ [e]) a := by
  cases r with
  | nil => exact absurd rfl hne
  | cons x xs => simpa [headLe] using h

/-- on a state satisfying the invariant the buffer answers like the full history -/
theorem buf_eq_hist (k : Kind) (s : AState) (hi : Inv s) (t : Int) (hp : Pre s (.pull t)) :
    getData k s.buf t = specAnswer k s.hist t := by
  obtain ⟨p, hp1⟩ := hi.suffix
  have hsb : Sorted s.buf := sorted_append_right' p s.buf (hp1 ▸ hi.sorted)
  rw [getData_eq_spec k _ t hsb]
  rcases hi.guard with hg | ⟨hne, a, ha⟩
  · rw [hg]
  · cases hr : s.buf with
    | nil => exact absurd hr hne
    | cons e r =>
      have hle := hi.lastOk a ha
      rw [hr] at hle
      simp only [headLe] at hle
      have hat : a ≤ t := hp a ha
      rw [hp1, hr]
      exact (spec_drop_prefix k p e r t (by rw [← hr, ← hp1]; exact hi.sorted) (by omega)).symm

theorem answers_agree (k : Kind) (s : AState) (hi : Inv s) (ev : Ev) (hp : Pre s ev) :
    (stepImpl k s ev).2 = answerSpec k s ev := by
  cases ev with
  | push t v => rfl
  | pull t =>
    simp only [stepImpl, answerSpec]
    rw [← buf_eq_hist k s hi t hp]
    cases getData k s.buf t <;> rfl

theorem inv_step (k : Kind) (s : AState) (hi : Inv s) (ev : Ev) (hp : Pre s ev) :
    Inv (stepImpl k s ev).1 := by
  cases ev with
  | push t v =>
    simp only [stepImpl]
    obtain ⟨p, hp1⟩ := hi.suffix
    refine ⟨sorted_snoc _ _ hi.sorted hp, ⟨p, by simp [hp1]⟩, ?_, ?_, ?_⟩
    · intro a ha
      by_cases hne : s.buf = []
      · have := hi.lastNone hne; rw [this] at ha; cases ha
      · exact headLe_append _ _ _ hne (hi.lastOk a ha)
    · intro h; simp at h
    · rcases hi.guard with hg | ⟨hne, hl⟩
      · left; simp [hg]
      · right; exact ⟨by simp, hl⟩
  | pull t =>
    simp only [stepImpl]
    cases hl : getData k s.buf t with
    | error e => exact hi
    | ok v =>
      simp only
      have hne : s.buf ≠ [] := by intro h; rw [h] at hl; simp [getData, checkRange] at hl
      obtain ⟨e, r, hr⟩ : ∃ e r, s.buf = e :: r := by
        cases h : s.buf with
        | nil => exact absurd h hne
        | cons e r => exact ⟨e, r, rfl⟩
      have hget : e.t ≤ t := getData_ok_ge_head k e r t v (hr ▸ hl)
      obtain ⟨p, hp1⟩ := hi.suffix
      obtain ⟨q, hq⟩ := clear_suffix s.buf t
      refine ⟨hi.sorted, ⟨p ++ q, by rw [List.append_assoc, ← hq, hp1]⟩, ?_, ?_, ?_⟩
      · intro a ha
        simp only [Option.some.injEq] at ha
        subst ha
        exact clear_head_le _ _ (by rw [hr]; exact hget)
      · intro h; exact absurd h (clear_ne_nil _ _ hne)
      · right; exact ⟨clear_ne_nil _ _ hne, t, rfl⟩

end Finam.TA
