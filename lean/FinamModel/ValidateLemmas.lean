import FinamModel.Validate
/-!
  Helper lemmas for the topology validation model (`Validate.lean`): each imperative check is
  characterised by a statement about walks in the coupling forest.
-/
namespace Finam.Validate

/-- the check raised -/
def Rejected (r : Except Rule Unit) : Prop := r ≠ .ok ()

instance (r : Except Rule Unit) : Decidable (Rejected r) := by unfold Rejected; infer_instance

theorem rejected_error (x : Rule) : Rejected (.error x) := by simp [Rejected]
theorem not_rejected_ok : ¬ Rejected (.ok ()) := by simp [Rejected]

theorem firstErr_rejected {α} (f : α → Except Rule Unit) (l : List α) :
    Rejected (firstErr f l) ↔ ∃ x ∈ l, Rejected (f x) := by
  induction l with
  | nil => simp [firstErr, Rejected]
  | cons a l ih =>
    simp only [firstErr]
    cases h : f a with
    | error r => simp [Rejected, h]
    | ok u =>
      cases u
      simp only [List.mem_cons, exists_eq_or_imp, h, ih]
      simp [Rejected]

/-! ### dead links -/

theorem pbp_cons (a : Elem) (r : List Elem) :
    PullBeforePush (a :: r) ↔ (a.needsPull = true ∧ ∃ y ∈ r, y.needsPush = true) ∨ PullBeforePush r := by
  constructor
  · rintro ⟨l1, x, l2, y, l3, h, hx, hy⟩
    cases l1 with
    | nil =>
      simp only [List.nil_append, List.cons.injEq] at h
      obtain ⟨rfl, rfl⟩ := h
      exact Or.inl ⟨hx, y, by simp, hy⟩
    | cons b l1 =>
      simp only [List.cons_append, List.cons.injEq] at h
      obtain ⟨rfl, rfl⟩ := h
      exact Or.inr ⟨l1, x, l2, y, l3, rfl, hx, hy⟩
  · rintro (⟨ha, y, hy, hp⟩ | ⟨l1, x, l2, y, l3, h, hx, hy⟩)
    · obtain ⟨l2, l3, rfl⟩ := List.append_of_mem hy
      exact ⟨[], a, l2, y, l3, rfl, ha, hp⟩
    · exact ⟨a :: l1, x, l2, y, l3, by simp [h], hx, hy⟩

theorem pbp_nil : ¬ PullBeforePush [] := by
  rintro ⟨l1, x, l2, y, l3, h, _, _⟩
  cases l1 <;> simp at h

/-- the loop with its running `first_index`: it raises iff a push-needing element follows an
    already seen pull-needing one -/
theorem deadLoop_isSome (p : List Elem) (i : Nat) (first : Int) :
    (deadLoop p i first).isSome = true ↔
      (first ≥ 0 ∧ ∃ y ∈ p, y.needsPush = true) ∨ PullBeforePush p := by
  induction p generalizing i first with
  | nil => simp [deadLoop, pbp_nil]
  | cons a r ih =>
    simp only [deadLoop]
    split
    · rename_i h
      simp only [Option.isSome_some, true_iff]
      exact Or.inl ⟨h.1, a, by simp, h.2⟩
    · rename_i h
      rw [ih, pbp_cons]
      by_cases hp : a.needsPull = true
      · simp only [hp, if_true]
        constructor
        · rintro (⟨_, y, hy, hy2⟩ | h2)
          · exact Or.inr (Or.inl ⟨trivial, y, hy, hy2⟩)
          · exact Or.inr (Or.inr h2)
        · rintro (⟨hf, y, hy, hy2⟩ | ⟨_, y, hy, hy2⟩ | h2)
          · rcases List.mem_cons.mp hy with rfl | hy'
            · exact absurd ⟨hf, hy2⟩ h
            · exact Or.inl ⟨by omega, y, hy', hy2⟩
          · exact Or.inl ⟨by omega, y, hy, hy2⟩
          · exact Or.inr h2
      · have hp' : a.needsPull = false := by simpa using hp
        simp only [hp']
        constructor
        · rintro (⟨hf, y, hy, hy2⟩ | h2)
          · exact Or.inl ⟨hf, y, List.mem_cons_of_mem _ hy, hy2⟩
          · exact Or.inr (Or.inr h2)
        · rintro (⟨hf, y, hy, hy2⟩ | ⟨hx, _⟩ | h2)
          · rcases List.mem_cons.mp hy with rfl | hy'
            · exact absurd ⟨hf, hy2⟩ h
            · exact Or.inl ⟨hf, y, hy', hy2⟩
          · simp at hx
          · exact Or.inr h2

theorem checkDeadLinks_rejected (F : List Tree) (i : Pos) :
    Rejected (checkDeadLinks F i) ↔ ∃ p, fwalk F i = some p ∧ PullBeforePush (p.map Tree.elem) := by
  simp only [checkDeadLinks]
  cases h : fwalk F i with
  | none => simp [Rejected]
  | some p =>
    simp only [Option.some.injEq, exists_eq_left']
    have := deadLoop_isSome (p.map Tree.elem) 0 (-1)
    split
    · rename_i h2
      simp only [rejected_error, true_iff]
      rcases this.mp h2 with ⟨h3, _⟩ | h3
      · omega
      · exact h3
    · rename_i h2
      simp only [not_rejected_ok, false_iff]
      intro h3
      exact h2 (this.mpr (Or.inr h3))

/-! ### walking the forest -/

theorem walk_nil (t : Tree) : t.walk [] = some [t] := by
  cases t <;> rfl

theorem walk_cons (t : Tree) (k : Nat) (rest : Pos) (p : List Tree) :
    t.walk (k :: rest) = some p ↔ ∃ c p', t.kids[k]? = some c ∧ c.walk rest = some p' ∧ p = t :: p' := by
  simp only [Tree.walk]
  cases h : t.kids[k]? with
  | none => simp
  | some c =>
    cases h2 : c.walk rest with
    | none => simp [h2]
    | some p' => simp [h2, eq_comm]

theorem walk_ne_nil (t : Tree) (q : Pos) (p : List Tree) (h : t.walk q = some p) : p ≠ [] := by
  cases q with
  | nil => rw [walk_nil] at h; cases h; simp
  | cons k rest =>
    obtain ⟨c, p', _, _, rfl⟩ := (walk_cons t k rest p).mp h
    simp

theorem walk_head (t : Tree) (q : Pos) (p : List Tree) (h : t.walk q = some p) : p.head? = some t := by
  cases q with
  | nil => rw [walk_nil] at h; cases h; rfl
  | cons k rest =>
    obtain ⟨c, p', _, _, rfl⟩ := (walk_cons t k rest p).mp h
    rfl

theorem fwalk_cons (F : List Tree) (o : Nat) (q : Pos) (p : List Tree) :
    fwalk F (o :: q) = some p ↔ ∃ t, F[o]? = some t ∧ t.walk q = some p := by
  simp only [fwalk]
  cases F[o]? with
  | none => simp
  | some t => simp

theorem getLast?_cons_of_ne_nil {α} (a : α) (l : List α) (h : l ≠ []) : (a :: l).getLast? = l.getLast? := by
  cases l with
  | nil => exact absurd rfl h
  | cons b l => simp [List.getLast?_cons_cons]

/-! ### input checks -/

theorem checkInputConnected_rejected (F : List Tree) (i : Pos) :
    Rejected (checkInputConnected F i) ↔
      (∀ r rest, fwalk F i = some (r :: rest) → r.isSource = false) ∨
      (∃ r rest t, fwalk F i = some (r :: rest) ∧ (r :: rest).getLast? = some t ∧
        r.isSource = true ∧ t.elem.static = true ∧ r.elem.static = false) := by
  simp only [checkInputConnected]
  cases h : fwalk F i with
  | none => simp [Rejected]
  | some p =>
    cases p with
    | nil => simp [Rejected]
    | cons r rest =>
      cases hl : (r :: rest).getLast? with
      | none => simp at hl
      | some t =>
        have key : Rejected (if (!r.isSource) = true then Except.error Rule.unconnected
              else if (t.elem.static && !r.elem.static) = true then Except.error Rule.staticSrc
              else Except.ok ()) ↔
            (r.isSource = false ∨ (r.isSource = true ∧ t.elem.static = true ∧ r.elem.static = false)) := by
          cases r.isSource <;> cases t.elem.static <;> cases r.elem.static <;> simp [Rejected]
        simp only [hl, Option.getD_some]
        rw [key]
        constructor
        · rintro (h1 | ⟨h1, h2, h3⟩)
          · left; intro r' rest' h'; cases h'; exact h1
          · right; exact ⟨r, rest, t, rfl, hl, h1, h2, h3⟩
        · rintro (h1 | ⟨r', rest', t', h', hl', h1, h2, h3⟩)
          · exact Or.inl (h1 r rest rfl)
          · cases h'
            rw [hl] at hl'; cases hl'
            exact Or.inr ⟨h1, h2, h3⟩

theorem checkInput_rejected (F : List Tree) (i : Pos) :
    Rejected (checkInput F i) ↔ Rejected (checkInputConnected F i) ∨ Rejected (checkDeadLinks F i) := by
  simp only [checkInput]
  cases h : checkInputConnected F i with
  | error r => simp [Rejected]
  | ok u => cases u; simp [Rejected]

/-! ### branching -/

/-- some element below (or at) `t` has more than one target while a no-branch marker was passed
    (`nb`: already passed above `t`) -/
def BranchSpec (t : Tree) (nb : Bool) : Prop :=
  ∃ q p s, t.walk q = some p ∧ p.getLast? = some s ∧
    (nb = true ∨ ∃ u ∈ p, u.elem.noBranch = true) ∧ s.kids.length > 1

theorem branchSpec_input (e : Elem) (nb : Bool) : ¬ BranchSpec (.input e) nb := by
  rintro ⟨q, p, s, hw, hl, _, hk⟩
  cases q with
  | nil =>
    rw [walk_nil] at hw; cases hw
    simp at hl; subst hl; simp [Tree.kids] at hk
  | cons k rest =>
    obtain ⟨c, p', hc, _, _⟩ := (walk_cons _ k rest p).mp hw
    simp [Tree.kids] at hc

theorem branchSpec_node (e : Elem) (ks : List Tree) (nb : Bool) :
    BranchSpec (.node e ks) nb ↔
      (((nb || e.noBranch) = true ∧ ks.length > 1) ∨ ∃ c ∈ ks, BranchSpec c (nb || e.noBranch)) := by
  constructor
  · rintro ⟨q, p, s, hw, hl, hnb, hk⟩
    cases q with
    | nil =>
      rw [walk_nil] at hw; cases hw
      simp at hl; subst hl
      left
      refine ⟨?_, by simpa [Tree.kids] using hk⟩
      rcases hnb with h | ⟨u, hu, h⟩
      · simp [h]
      · simp at hu; subst hu; simp [Tree.elem] at h; simp [h]
    | cons k rest =>
      obtain ⟨c, p', hc, hw', rfl⟩ := (walk_cons _ k rest p).mp hw
      right
      refine ⟨c, List.mem_of_getElem? hc, rest, p', s, hw', ?_, ?_, hk⟩
      · rw [getLast?_cons_of_ne_nil _ _ (walk_ne_nil _ _ _ hw')] at hl; exact hl
      · rcases hnb with h | ⟨u, hu, h⟩
        · left; simp [h]
        · rcases List.mem_cons.mp hu with rfl | hu'
          · left; simp [Tree.elem] at h; simp [h]
          · right; exact ⟨u, hu', h⟩
  · rintro (⟨hnb, hk⟩ | ⟨c, hc, q, p, s, hw, hl, hnb, hk⟩)
    · refine ⟨[], [.node e ks], .node e ks, walk_nil _, rfl, ?_, by simpa [Tree.kids] using hk⟩
      simp only [Bool.or_eq_true] at hnb
      rcases hnb with h | h
      · exact Or.inl h
      · exact Or.inr ⟨.node e ks, by simp, by simpa [Tree.elem] using h⟩
    · obtain ⟨k, hk1, hk2⟩ := List.getElem_of_mem hc
      refine ⟨k :: q, .node e ks :: p, s, ?_, ?_, ?_, hk⟩
      · rw [walk_cons]; exact ⟨c, p, by simp [Tree.kids, hk2.symm], hw, rfl⟩
      · rw [getLast?_cons_of_ne_nil _ _ (walk_ne_nil _ _ _ hw)]; exact hl
      · simp only [Bool.or_eq_true] at hnb
        rcases hnb with (h | h) | ⟨u, hu, h⟩
        · exact Or.inl h
        · exact Or.inr ⟨.node e ks, by simp, by simpa [Tree.elem] using h⟩
        · exact Or.inr ⟨u, List.mem_cons_of_mem _ hu, h⟩

mutual
theorem branchBad_iff : ∀ (t : Tree) (nb : Bool), t.branchBad nb = true ↔ BranchSpec t nb
  | .input e, nb => by simp [Tree.branchBad, branchSpec_input]
  | .node e ks, nb => by
    rw [branchSpec_node, Tree.branchBad, Bool.or_eq_true, Bool.and_eq_true, decide_eq_true_eq,
      branchBadL_iff ks]
theorem branchBadL_iff : ∀ (ks : List Tree) (nb : Bool),
    branchBadL nb ks = true ↔ ∃ c ∈ ks, BranchSpec c nb
  | [], nb => by simp [branchBadL]
  | t :: ts, nb => by
    rw [branchBadL, Bool.or_eq_true, branchBad_iff t, branchBadL_iff ts]
    simp
end

theorem checkBranching_rejected (F : List Tree) (o : Nat) :
    Rejected (checkBranching F o) ↔
      ∃ q p t, fwalk F (o :: q) = some p ∧ p.getLast? = some t ∧
        (∃ s ∈ p, s.elem.noBranch = true) ∧ t.kids.length > 1 := by
  simp only [checkBranching, fwalk_cons]
  cases h : F[o]? with
  | none => simp [Rejected]
  | some t =>
    have := branchBad_iff t false
    simp only [BranchSpec, Bool.false_eq_true, false_or] at this
    simp only [Option.some.injEq, exists_eq_left']
    split
    · rename_i hb
      simp only [rejected_error, true_iff]
      exact this.mp hb
    · rename_i hb
      simp only [not_rejected_ok, false_iff]
      intro h2
      exact hb (this.mpr h2)

/-! ### the downstream traversal -/

/-- `s` is the element at relative position `q` below `t` -/
def PosSpec (t : Tree) (q : Pos) (s : Tree) : Prop := ∃ p, t.walk q = some p ∧ p.getLast? = some s

theorem posSpec_nil (t s : Tree) : PosSpec t [] s ↔ s = t := by
  simp only [PosSpec, walk_nil, Option.some.injEq]
  constructor
  · rintro ⟨p, rfl, h⟩; simpa [eq_comm] using h
  · rintro rfl; exact ⟨[s], rfl, rfl⟩

theorem posSpec_cons (t : Tree) (k : Nat) (rest : Pos) (s : Tree) :
    PosSpec t (k :: rest) s ↔ ∃ c, t.kids[k]? = some c ∧ PosSpec c rest s := by
  constructor
  · rintro ⟨p, hw, hl⟩
    obtain ⟨c, p', hc, hw', rfl⟩ := (walk_cons t k rest p).mp hw
    rw [getLast?_cons_of_ne_nil _ _ (walk_ne_nil _ _ _ hw')] at hl
    exact ⟨c, hc, p', hw', hl⟩
  · rintro ⟨c, hc, p', hw', hl⟩
    refine ⟨t :: p', (walk_cons t k rest _).mpr ⟨c, p', hc, hw', rfl⟩, ?_⟩
    rw [getLast?_cons_of_ne_nil _ _ (walk_ne_nil _ _ _ hw')]; exact hl

mutual
theorem mem_positions : ∀ (t : Tree) (q : Pos) (s : Tree), (q, s) ∈ t.positions ↔ PosSpec t q s
  | .input e, q, s => by
    simp only [Tree.positions, List.mem_singleton, Prod.mk.injEq]
    cases q with
    | nil => rw [posSpec_nil]; simp
    | cons k rest => rw [posSpec_cons]; simp [Tree.kids]
  | .node e ks, q, s => by
    simp only [Tree.positions, List.mem_cons, Prod.mk.injEq]
    rw [mem_positionsL ks 0]
    cases q with
    | nil => rw [posSpec_nil]; simp
    | cons k rest =>
      rw [posSpec_cons]
      simp only [reduceCtorEq, false_and, Nat.zero_add, List.cons.injEq, false_or, Tree.kids]
      constructor
      · rintro ⟨j, c, q', hc, ⟨rfl, rfl⟩, hs⟩; exact ⟨c, hc, hs⟩
      · rintro ⟨c, hc, hs⟩; exact ⟨k, c, rest, hc, ⟨rfl, rfl⟩, hs⟩
theorem mem_positionsL : ∀ (ks : List Tree) (k0 : Nat) (q : Pos) (s : Tree),
    (q, s) ∈ positionsL ks k0 ↔ ∃ j c q', ks[j]? = some c ∧ q = (k0 + j) :: q' ∧ PosSpec c q' s
  | [], k0, q, s => by simp [positionsL]
  | t :: ts, k0, q, s => by
    simp only [positionsL, List.mem_append, List.mem_map, Prod.mk.injEq, Prod.exists]
    rw [mem_positionsL ts (k0 + 1)]
    constructor
    · rintro (⟨q', s', hm, rfl, rfl⟩ | ⟨j, c, q', hc, rfl, hs⟩)
      · exact ⟨0, t, q', rfl, by simp, (mem_positions t q' s').mp hm⟩
      · exact ⟨j + 1, c, q', by simpa using hc, by simp; omega, hs⟩
    · rintro ⟨j, c, q', hc, rfl, hs⟩
      cases j with
      | zero =>
        simp at hc; subst hc
        exact Or.inl ⟨q', s, (mem_positions t q' s).mpr hs, by simp, rfl⟩
      | succ j => exact Or.inr ⟨j, c, q', by simpa using hc, by simp; omega, hs⟩
end

theorem mem_inputsFrom (t : Tree) (q : Pos) :
    q ∈ t.inputsFrom ↔ ∃ s, PosSpec t q s ∧ s.isInput = true := by
  simp only [Tree.inputsFrom, List.mem_map, List.mem_filter, Prod.exists]
  constructor
  · rintro ⟨q', s, ⟨hm, hi⟩, rfl⟩; exact ⟨s, (mem_positions t q' s).mp hm, hi⟩
  · rintro ⟨s, hs, hi⟩; exact ⟨q, s, ⟨(mem_positions t q s).mpr hs, hi⟩, rfl⟩

theorem fwalk_posSpec (F : List Tree) (o : Nat) (q : Pos) (s : Tree) :
    (∃ p, fwalk F (o :: q) = some p ∧ p.getLast? = some s) ↔ ∃ t, F[o]? = some t ∧ PosSpec t q s := by
  simp only [fwalk_cons, PosSpec]
  constructor
  · rintro ⟨p, ⟨t, ht, hw⟩, hl⟩; exact ⟨t, ht, p, hw, hl⟩
  · rintro ⟨t, ht, p, hw, hl⟩; exact ⟨p, ⟨t, ht, hw⟩, hl⟩

/-! ### missing components -/

theorem mem_allInputs (cs : List Comp) (F : List Tree) (i : Pos) :
    i ∈ allInputs cs F ↔ ∃ o ∈ compOutputs cs, ∃ q s, i = o :: q ∧
      (∃ p, fwalk F (o :: q) = some p ∧ p.getLast? = some s) ∧ s.isInput = true := by
  simp only [allInputs, List.mem_flatMap]
  constructor
  · rintro ⟨o, ho, hi⟩
    cases ht : F[o]? with
    | none => simp [ht] at hi
    | some t =>
      simp only [ht, List.mem_map] at hi
      obtain ⟨q, hq, rfl⟩ := hi
      obtain ⟨s, hs, hin⟩ := (mem_inputsFrom t q).mp hq
      exact ⟨o, ho, q, s, rfl, (fwalk_posSpec F o q s).mpr ⟨t, ht, hs⟩, hin⟩
  · rintro ⟨o, ho, q, s, rfl, hw, hin⟩
    obtain ⟨t, ht, hs⟩ := (fwalk_posSpec F o q s).mp hw
    refine ⟨o, ho, ?_⟩
    simp only [ht, List.mem_map]
    exact ⟨q, (mem_inputsFrom t q).mpr ⟨s, hs, hin⟩, rfl⟩

theorem checkMissing_rejected (cs : List Comp) (F : List Tree) :
    Rejected (checkMissing cs F) ↔
      (∃ o ∈ compOutputs cs, ∃ q p t, fwalk F (o :: q) = some p ∧ p.getLast? = some t ∧
        t.isInput = true ∧ (o :: q) ∉ compInputs cs) ∨
      (∃ i ∈ compInputs cs, i.headD 0 ∉ compOutputs cs) := by
  have h1 : ((allInputs cs F).any fun i => !decide (i ∈ compInputs cs)) = true ↔
      (∃ o ∈ compOutputs cs, ∃ q p t, fwalk F (o :: q) = some p ∧ p.getLast? = some t ∧
        t.isInput = true ∧ (o :: q) ∉ compInputs cs) := by
    simp only [List.any_eq_true, Bool.not_eq_true', decide_eq_false_iff_not]
    constructor
    · rintro ⟨i, hi, hn⟩
      obtain ⟨o, ho, q, s, rfl, ⟨p, hw, hl⟩, hin⟩ := (mem_allInputs cs F i).mp hi
      exact ⟨o, ho, q, p, s, hw, hl, hin, hn⟩
    · rintro ⟨o, ho, q, p, s, hw, hl, hin, hn⟩
      exact ⟨o :: q, (mem_allInputs cs F _).mpr ⟨o, ho, q, s, rfl, ⟨p, hw, hl⟩, hin⟩, hn⟩
  have h2 : ((allOutputs cs).any fun o => !decide (o ∈ compOutputs cs)) = true ↔
      (∃ i ∈ compInputs cs, i.headD 0 ∉ compOutputs cs) := by
    simp [allOutputs, List.any_eq_true]
  simp only [checkMissing]
  split
  · rename_i h; simp only [rejected_error, true_iff]; exact Or.inl (h1.mp h)
  · rename_i h
    split
    · rename_i h'; simp only [rejected_error, true_iff]; exact Or.inr (h2.mp h')
    · rename_i h'
      simp only [not_rejected_ok, false_iff]
      rintro (h3 | h3)
      · exact h (h1.mpr h3)
      · exact h' (h2.mpr h3)

/-! ### the whole validation -/

theorem validateComp_rejected (F : List Tree) (c : Comp) :
    Rejected (validateComp F c) ↔
      (∃ i ∈ c.inputs, Rejected (checkInput F i)) ∨ (∃ o ∈ c.outputs, Rejected (checkBranching F o)) := by
  simp only [validateComp]
  rw [← firstErr_rejected, ← firstErr_rejected]
  cases h : firstErr (checkInput F) c.inputs with
  | error r => simp [Rejected]
  | ok u => cases u; simp [Rejected]

theorem validate_rejected (cs : List Comp) (F : List Tree) :
    Rejected (validate cs F) ↔
      (∃ i ∈ compInputs cs, Rejected (checkInput F i)) ∨
      (∃ o ∈ compOutputs cs, Rejected (checkBranching F o)) ∨ Rejected (checkMissing cs F) := by
  have h0 : Rejected (validate cs F) ↔ Rejected (firstErr (validateComp F) cs) ∨ Rejected (checkMissing cs F) := by
    simp only [validate]
    cases h : firstErr (validateComp F) cs with
    | error r => simp [Rejected]
    | ok u => cases u; simp [Rejected]
  rw [h0, firstErr_rejected]
  simp only [validateComp_rejected, compInputs, compOutputs, List.mem_flatMap]
  constructor
  · rintro (⟨c, hc, (⟨i, hi, h⟩ | ⟨o, ho, h⟩)⟩ | h)
    · exact Or.inl ⟨i, ⟨c, hc, hi⟩, h⟩
    · exact Or.inr (Or.inl ⟨o, ⟨c, hc, ho⟩, h⟩)
    · exact Or.inr (Or.inr h)
  · rintro (⟨i, ⟨c, hc, hi⟩, h⟩ | ⟨o, ⟨c, hc, ho⟩, h⟩ | h)
    · exact Or.inl ⟨c, hc, Or.inl ⟨i, hi, h⟩⟩
    · exact Or.inl ⟨c, hc, Or.inr ⟨o, ho, h⟩⟩
    · exact Or.inr h

/-! ### the link list -/

theorem mem_dedup {α} [DecidableEq α] (x : α) (l : List α) : x ∈ dedup l ↔ x ∈ l := by
  induction l with
  | nil => simp [dedup]
  | cons a l ih =>
    simp only [dedup]
    split
    · rename_i h
      rw [ih, List.mem_cons]
      constructor
      · exact Or.inr
      · rintro (rfl | h2)
        · exact h
        · exact h2
    · simp [ih]

theorem walk_snoc_isSome (q : Pos) : ∀ (t : Tree) (j : Nat),
    (t.walk (q ++ [j])).isSome = true ↔ ∃ s, PosSpec t q s ∧ j < s.kids.length := by
  induction q with
  | nil =>
    intro t j
    simp only [List.nil_append, posSpec_nil, exists_eq_left]
    simp only [Tree.walk]
    cases h : t.kids[j]? with
    | none =>
      simp only [Option.isSome_none, Bool.false_eq_true, false_iff]
      have := List.getElem?_eq_none_iff.mp h
      omega
    | some c =>
      have := (List.getElem?_eq_some_iff.mp h).1
      cases c <;> simp [this]
  | cons k rest ih =>
    intro t j
    simp only [List.cons_append, Tree.walk]
    cases h : t.kids[k]? with
    | none =>
      simp only [Option.isSome_none, Bool.false_eq_true, false_iff]
      rintro ⟨s, hs, _⟩
      obtain ⟨c, hc, _⟩ := (posSpec_cons t k rest s).mp hs
      simp [h] at hc
    | some c =>
      have := ih c j
      cases hw : c.walk (rest ++ [j]) with
      | none =>
        simp only [hw, Option.isSome_none, Bool.false_eq_true, false_iff]
        rintro ⟨s, hs, hj⟩
        obtain ⟨c', hc, hs'⟩ := (posSpec_cons t k rest s).mp hs
        rw [h] at hc; cases hc
        have := this.mpr ⟨s, hs', hj⟩
        simp [hw] at this
      | some p =>
        simp only [hw, Option.isSome_some, true_iff]
        obtain ⟨s, hs, hj⟩ := this.mp (by simp [hw])
        exact ⟨s, (posSpec_cons t k rest s).mpr ⟨c, h, hs⟩, hj⟩

theorem mem_directLinks (F : List Tree) (q a b : Pos) :
    (a, b) ∈ directLinks F q ↔
      a = q ∧ ∃ j s, (∃ p, fwalk F q = some p ∧ p.getLast? = some s) ∧ j < s.kids.length ∧ b = q ++ [j] := by
  simp only [directLinks]
  cases h : fwalk F q with
  | none => simp
  | some p =>
    cases hl : p.getLast? with
    | none => simp [hl]
    | some s =>
      simp only [hl, List.mem_map, List.mem_range, Prod.mk.injEq, Option.some.injEq, exists_eq_left']
      constructor
      · rintro ⟨j, hj, rfl, rfl⟩; exact ⟨rfl, j, hj, rfl⟩
      · rintro ⟨rfl, j, hj, rfl⟩; exact ⟨j, hj, rfl, rfl⟩

theorem isLink_iff (F : List Tree) (o : Nat) (q b : Pos) :
    IsLink F (o :: q) b ↔
      ∃ j s, (∃ p, fwalk F (o :: q) = some p ∧ p.getLast? = some s) ∧ j < s.kids.length ∧ b = (o :: q) ++ [j] := by
  simp only [IsLink, ne_eq, reduceCtorEq, not_false_eq_true, true_and]
  constructor
  · rintro ⟨j, rfl, hs⟩
    simp only [List.cons_append, fwalk] at hs
    cases ht : F[o]? with
    | none => simp [ht] at hs
    | some t =>
      simp only [ht] at hs
      obtain ⟨s, hps, hj⟩ := (walk_snoc_isSome q t j).mp hs
      exact ⟨j, s, (fwalk_posSpec F o q s).mpr ⟨t, ht, hps⟩, hj, rfl⟩
  · rintro ⟨j, s, hw, hj, rfl⟩
    obtain ⟨t, ht, hps⟩ := (fwalk_posSpec F o q s).mp hw
    refine ⟨j, rfl, ?_⟩
    simp only [List.cons_append, fwalk, ht]
    exact (walk_snoc_isSome q t j).mpr ⟨s, hps, hj⟩

theorem mem_adaptersBelow (t : Tree) (q : Pos) :
    q ∈ t.adaptersBelow ↔ q ≠ [] ∧ ∃ s, PosSpec t q s ∧ s.isInput = false := by
  simp only [Tree.adaptersBelow, List.mem_map, List.mem_filter, Prod.exists, Bool.not_eq_true']
  constructor
  · rintro ⟨q', s, ⟨hm, hi⟩, rfl⟩
    obtain ⟨j, c, q'', hc, rfl, hs⟩ := (mem_positionsL t.kids 0 q' s).mp hm
    refine ⟨by simp, s, ?_, hi⟩
    rw [posSpec_cons]
    exact ⟨c, by simpa using hc, hs⟩
  · rintro ⟨hq, s, hs, hi⟩
    cases q with
    | nil => exact absurd rfl hq
    | cons k rest =>
      obtain ⟨c, hc, hs'⟩ := (posSpec_cons t k rest s).mp hs
      exact ⟨k :: rest, s, ⟨(mem_positionsL t.kids 0 _ s).mpr ⟨k, c, rest, hc, by simp, hs'⟩, hi⟩, rfl⟩

theorem mem_adaptersAbove (F : List Tree) (i q : Pos) (h : q ∈ adaptersAbove F i) :
    q ≠ [] ∧ q.headD 0 = i.headD 0 := by
  simp only [adaptersAbove, List.mem_filterMap, List.mem_filter, List.mem_range, decide_eq_true_eq] at h
  obtain ⟨n, ⟨hn1, hn2⟩, hq⟩ := h
  have : q = i.take n := by
    cases hw : fwalk F (i.take n) with
    | none => simp [hw] at hq
    | some p =>
      cases hl : p.getLast? with
      | none => simp [hw, hl] at hq
      | some t =>
        simp only [hw, hl] at hq
        split at hq
        · cases hq
        · cases hq; rfl
  subst this
  cases i with
  | nil => simp at hn1
  | cons a i =>
    cases n with
    | zero => omega
    | succ n => simp

/-! ### reading of the dead-link clause with FINAM's class flags -/

theorem pbp_mid_last (mid : List Elem) (last : Elem) (hmid : ∀ e ∈ mid, e.needsPull = false) :
    ¬ PullBeforePush (mid ++ [last]) := by
  induction mid with
  | nil =>
    simp only [List.nil_append, pbp_cons, List.not_mem_nil, false_and, exists_false, and_false, false_or]
    exact pbp_nil
  | cons m mid ih =>
    simp only [List.cons_append, pbp_cons]
    rintro (⟨h, _⟩ | h)
    · simp [hmid m (by simp)] at h
    · exact ih (fun e he => hmid e (List.mem_cons_of_mem _ he)) h

/-! ### no duplicates in the link list -/

theorem dedup_nodup {α} [DecidableEq α] (l : List α) : (dedup l).Nodup := by
  induction l with
  | nil => simp [dedup]
  | cons a l ih =>
    simp only [dedup]
    split
    · exact ih
    · rename_i h
      exact List.nodup_cons.mpr ⟨by rw [mem_dedup]; exact h, ih⟩

theorem directLinks_nodup (F : List Tree) (q : Pos) : (directLinks F q).Nodup := by
  unfold directLinks
  split
  · split
    · rename_i t _
      rw [List.Nodup, List.pairwise_map]
      refine (List.nodup_range (n := t.kids.length)).imp ?_
      intro a b h heq
      simp only [Prod.mk.injEq, List.append_cancel_left_eq, List.cons.injEq, and_true, true_and] at heq
      exact h heq
    · simp
  · simp

theorem flatMap_directLinks_nodup (F : List Tree) (l : List Pos) (h : l.Nodup) :
    (l.flatMap (directLinks F)).Nodup := by
  simp only [List.Nodup, List.pairwise_flatMap]
  refine ⟨fun a _ => directLinks_nodup F a, ?_⟩
  exact h.imp (fun {a₁ a₂} hne x hx y hy heq => by
    obtain ⟨x1, x2⟩ := x
    obtain ⟨y1, y2⟩ := y
    have h1 := ((mem_directLinks F a₁ x1 x2).mp hx).1
    have h2 := ((mem_directLinks F a₂ y1 y2).mp hy).1
    cases heq
    exact hne (h1.symm.trans h2))

theorem fwalk_single (F : List Tree) (k : Nat) (p : List Tree) (h : fwalk F [k] = some p) :
    ∃ t, F[k]? = some t ∧ p = [t] := by
  obtain ⟨t, ht, hw⟩ := (fwalk_cons F k [] p).mp h
  rw [walk_nil] at hw; cases hw
  exact ⟨t, ht, rfl⟩

end Finam.Validate
