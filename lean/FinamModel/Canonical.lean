import FinamModel.Grid
/-
  Model of the canonical form of structured-grid data and of the conversion between compatible
  grids: `StructuredGrid.to_canonical`, `from_canonical`, `compatible_with`, `__eq__`,
  `get_transform_to` (finam/data/grid_base.py:402-591) and of the part of
  `Input._convert_and_check` (finam/sdk/input.py:138-156) that applies the chosen transform and
  checks the resulting shape.

  `ValueError` is `Err.other`; the `FinamDataError` of `tools.check` is `Err.dataErr`.
-/
namespace Finam

/-- `for i, inc in enumerate(self.axes_increase): if not inc: data = np.flip(data, axis=i)` -/
def flipAll {α : Type} : List Bool → Nat → Arr α → Arr α
  | [], _, a => a
  | b :: bs, k, a => flipAll bs (k + 1) (if b then a else a.flip k)

namespace SGrid

/-- `to_canonical` (grid_base.py:500-530).  The shape test compares `data_shape` with the leading
    axes of the data (the trailing ones when the axes are reversed), so extra axes are allowed at
    the end (at the front for reversed axes). -/
def toCanonical {α : Type} (g : SGrid) (a : Arr α) : Except Err (Arr α) :=
  let dshp := g.dataShape
  let n := dshp.length
  let ok := if g.rev then dshp.reverse == a.shape.reverse.take n else dshp == a.shape.take n
  if !ok then .error .other
  else
    let a1 := if g.rev && decide (a.ndim > 1) then a.transpose else a
    .ok (flipAll g.inc 0 a1)

/-- `from_canonical` (grid_base.py:532-562) -/
def fromCanonical {α : Type} (g : SGrid) (a : Arr α) : Except Err (Arr α) :=
  let dshp := g.dataShape
  let n := dshp.length
  let ok := if g.rev then dshp.reverse == a.shape.take n else dshp == a.shape.take n
  if !ok then .error .other
  else
    let a1 := flipAll g.inc 0 a
    .ok (if g.rev && decide (a1.ndim > 1) then a1.transpose else a1)

/-- `np.allclose(a, b)` on exactly represented coordinates (the tolerance is not modelled; a
    length-1 axis broadcasts against a longer one, which strictly increasing axes never match) -/
def axisClose (a b : List Rat) : Bool := a == b

/-- `compatible_with(other)` with `check_location=True` (grid_base.py:402-438) -/
def compatibleWith (g h : SGrid) : Bool :=
  if !(g.dim == h.dim && g.crs == h.crs && g.loc == h.loc) then false
  else if g.dataShape != (if g.rev != h.rev then h.dataShape.reverse else h.dataShape) then false
  else (List.zip g.axes h.axes).all fun p => axisClose p.1 p.2

/-- `__eq__` (grid_base.py:440-447) -/
def eqGrid (g h : SGrid) : Bool :=
  if !g.compatibleWith h then false
  else (List.zip g.inc h.inc).all (fun p => p.1 == p.2) && g.rev == h.rev

/-- the closure returned by `get_transform_to` (grid_base.py:575-587), including the handling of a
    leading time axis -/
def trans {α : Type} (g h : SGrid) (a : Arr α) : Except Err (Arr α) :=
  let hasTime := a.ndim == g.dataShape.length + 1
  let a1 := if hasTime && !g.rev then a.moveFirstToLast else a
  match g.toCanonical a1 with
  | .error e => .error e
  | .ok c =>
    match h.fromCanonical c with
    | .error e => .error e
    | .ok r => .ok (if hasTime && !h.rev then r.moveLastToFirst else r)

/-- which transform `get_transform_to` hands out -/
inductive Transform where
  | passThrough        -- `None`: equal grids
  | convert            -- `trans`
deriving DecidableEq, Repr

/-- `get_transform_to` (grid_base.py:564-591) -/
def getTransformTo (g h : SGrid) : Except Err Transform :=
  if !g.compatibleWith h then .error .other
  else if g.eqGrid h then .ok .passThrough else .ok .convert

/-- `tools.check` shape part (core.py:311-345): a time axis is required and the rest must be the
    consumer grid's `data_shape` -/
def checkShape {α : Type} (h : SGrid) (a : Arr α) : Except Err (Arr α) :=
  if a.ndim != h.dataShape.length + 1 then .error .dataErr
  else if a.shape.tail != h.dataShape then .error .dataErr
  else .ok a

/-- what an input whose grid is `h` delivers for source data `a` in the layout of `g`
    (`Input.exchange_info` picks the transform, `_convert_and_check` applies and checks it) -/
def deliver {α : Type} (g h : SGrid) (a : Arr α) : Except Err (Arr α) :=
  -- `info.accepts(src_info)`: `self.grid.compatible_with(incoming.grid)` on the consumer side
  if !h.compatibleWith g then .error .metaErr else
  match g.getTransformTo h with
  | .error e => .error e
  | .ok .passThrough => h.checkShape a
  | .ok .convert =>
    match trans g h a with
    | .error e => .error e
    | .ok r => h.checkShape r

/-- multi-index of an element in canonical (xyz, increasing) position for the data index `i`:
    un-reverse the axes order, then mirror the decreasing axes.  This is the index map behind
    `to_canonical`. -/
def flipIdxAll : List Bool → List Nat → List Nat → List Nat
  | b :: bs, n :: ns, i :: is => (if b then i else n - 1 - i) :: flipIdxAll bs ns is
  | _, _, is => is

def canonIdx (g : SGrid) (i : List Nat) : List Nat :=
  let j := if g.rev then i.reverse else i
  flipIdxAll g.inc (g.shapeFor g.loc |> fun s => if g.rev then s.reverse else s) j

/-- canonical axes: the increasing (cell-centre or point) axes in xyz order -/
def canonAxes (g : SGrid) : List (List Rat) := if g.loc = .cells then g.cellAxes else g.axes

end SGrid
end Finam
