import FinamModel.Output
/-! Helper lemmas for the output history model (C08, C09). -/
namespace Finam

theorem lastT_ge {α} (e0 : Entry α) (es) (h : Sorted (e0 :: es)) : e0.t ≤ lastT e0 es := by
  induction es generalizing e0 with
  | nil => simp [lastT]
  | cons e1 es ih =>
    have := ih e1 h.2
    simp only [lastT]; have := h.1; omega

/-- key lemma: dropping the head when the second entry is not newer than the request -/
theorem lookup_drop_head {α} (e0 e1 : Entry α) (es) (t : Int)
    (hs : Sorted (e0 :: e1 :: es)) (ht : e1.t ≤ t) :
    lookup (e0 :: e1 :: es) t = lookup (e1 :: es) t := by
  have h01 := hs.1
  have hl := lastT_ge e1 es hs.2
  simp only [lookup, lastT, lookupAux]
  by_cases hgt : t > lastT e1 es
  · simp [hgt]
  · have : ¬ (t < e0.t) := by omega
    have : ¬ (t < e1.t) := by omega
    have : ¬ (t = e0.t) := by omega
    simp [*]
    by_cases heq : t = e1.t
    · simp [heq]
    · have : t > e1.t := by omega
      simp [*]

theorem evict_lookup {α} (d : List (Entry α)) (tmin t : Int) (hs : Sorted d) (ht : tmin ≤ t) :
    lookup (evict d tmin) t = lookup d t := by
  fun_induction evict d tmin with
  | case1 e0 e1 es tmin h ih =>
    rw [ih hs.2 ht]; exact (lookup_drop_head e0 e1 es t hs (by omega)).symm
  | case2 => rfl
  | case3 => rfl

theorem sorted_append_right {α} : ∀ (p r : List (Entry α)), Sorted (p ++ r) → Sorted r := by
  intro p
  induction p with
  | nil => intro r h; simpa using h
  | cons a p ih => intro r h; exact ih r (sorted_tail h)

/-- dropping any prefix whose successor entry is not newer than the request does not change the answer -/
theorem lookup_drop_prefix {α} : ∀ (p : List (Entry α)) (e : Entry α) (r : List (Entry α)) (t : Int),
    Sorted (p ++ e :: r) → e.t ≤ t → lookup (p ++ e :: r) t = lookup (e :: r) t := by
  intro p
  induction p with
  | nil => intro e r t _ _; rfl
  | cons a p ih =>
    intro e r t hs ht
    have hs' : Sorted (p ++ e :: r) := sorted_tail hs
    cases p with
    | nil =>
      simp only [List.nil_append, List.cons_append] at *
      exact lookup_drop_head a e r t hs ht
    | cons b p' =>
      have hb : b.t ≤ t := by
        -- b is before e in a sorted list
        have : ∀ (q : List (Entry α)) (x : Entry α), Sorted (x :: (q ++ e :: r)) → x.t < e.t := by
          intro q
          induction q with
          | nil => intro x h; exact h.1
          | cons y q ihq => intro x h; have := ihq y h.2; have := h.1; omega
        have := this p' b hs'
        omega
      have h1 : lookup (a :: b :: (p' ++ e :: r)) t = lookup (b :: (p' ++ e :: r)) t :=
        lookup_drop_head a b _ t hs hb
      simp only [List.cons_append] at *
      rw [h1]
      exact ih e r t hs' ht

def headLe {α} (r : List (Entry α)) (m : Int) : Prop :=
  match r with | [] => True | e :: _ => e.t ≤ m

/-- invariant -/
structure Inv {α} (s : OState α) : Prop where
  sorted : Sorted s.hist
  suffix : ∃ p, s.hist = p ++ s.ret
  guard  : (∃ p, s.hist = p ++ s.ret ∧ p = []) ∨
           (s.ret ≠ [] ∧ ∀ x ∈ s.last, ∃ a, x = some a ∧ headLe s.ret a)

/-- precondition of one event: pushes are newer than everything, pulls are monotone per end point -/
def Pre {α} (s : OState α) : Ev α → Prop
  | .push t _ => ∀ e ∈ s.hist, e.t < t
  | .pull k t => k < s.last.length ∧ ∀ a, s.last[k]? = some (some a) → a ≤ t

theorem answers_agree {α} (s : OState α) (hi : Inv s) (ev : Ev α) (hp : Pre s ev) :
    (stepImpl s ev).2 = answerSpec s ev := by
  cases ev with
  | push t v => rfl
  | pull k t =>
    have key : lookup s.ret t = lookup s.hist t := by
      rcases hi.guard with ⟨p, hp1, hp2⟩ | ⟨hne, hall⟩
      · subst hp2; simp at hp1; rw [hp1]
      · obtain ⟨p, hp1⟩ := hi.suffix
        cases hr : s.ret with
        | nil => exact absurd hr hne
        | cons e r =>
          rw [hp1, hr]
          have hk := hp.1
          have hmem : s.last[k] ∈ s.last := List.getElem_mem hk
          obtain ⟨a, ha, hle⟩ := hall _ hmem
          have : a ≤ t := hp.2 a (by simp [List.getElem?_eq_getElem hk, ha])
          rw [hr] at hle
          simp only [headLe] at hle
          exact (lookup_drop_prefix p e r t (by rw [← hr, ← hp1]; exact hi.sorted) (by omega)).symm
    simp only [stepImpl, answerSpec]
    rw [← key]
    cases lookup s.ret t <;> rfl

theorem evict_suffix {α} (d : List (Entry α)) (m : Int) : ∃ q, d = q ++ evict d m := by
  fun_induction evict d m with
  | case1 e0 e1 es m h ih => obtain ⟨q, hq⟩ := ih; exact ⟨e0 :: q, by rw [List.cons_append, ← hq]⟩
  | case2 => exact ⟨[], rfl⟩
  | case3 => exact ⟨[], rfl⟩

theorem evict_ne_nil {α} (d : List (Entry α)) (m : Int) (h : d ≠ []) : evict d m ≠ [] := by
  fun_induction evict d m with
  | case1 e0 e1 es m _ ih => exact ih (by simp)
  | case2 => simp
  | case3 d m hd => exact h

theorem evict_head_le {α} (d : List (Entry α)) (m : Int) (h : headLe d m) : headLe (evict d m) m := by
  fun_induction evict d m with
  | case1 e0 e1 es m hle ih => exact ih (by simpa [headLe] using hle)
  | case2 => exact h
  | case3 => exact h

theorem lookup_ok_ge_head {α} (e : Entry α) (r : List (Entry α)) (t : Int) (v : α)
    (h : lookup (e :: r) t = .ok v) : e.t ≤ t := by
  simp only [lookup] at h
  split at h
  · cases h
  · rename_i hn; omega

theorem minLast_le : ∀ (l : List (Option Int)) (m : Int), minLast l = some m → ∀ a, some a ∈ l → m ≤ a := by
  intro l
  induction l with
  | nil => intro m h; simp [minLast] at h
  | cons x xs ih =>
    intro m h a ha
    cases xs with
    | nil =>
      simp only [minLast] at h
      simp at ha; subst h; simp at ha; omega
    | cons y ys =>
      simp only [minLast] at h
      cases hx : x with
      | none => simp [hx] at h
      | some xa =>
        cases hm : minLast (y :: ys) with
        | none => simp [hx, hm] at h
        | some mb =>
          simp only [hx, hm, Option.some.injEq] at h
          have := ih mb hm
          subst hx
          cases ha with
          | head => split at h <;> omega
          | tail _ ha' => have := this a ha'; split at h <;> omega

theorem minLast_mem : ∀ (l : List (Option Int)) (m : Int), minLast l = some m → some m ∈ l := by
  intro l
  induction l with
  | nil => intro m h; simp [minLast] at h
  | cons x xs ih =>
    intro m h
    cases xs with
    | nil => simp only [minLast] at h; simp [h]
    | cons y ys =>
      simp only [minLast] at h
      cases hx : x with
      | none => simp [hx] at h
      | some xa =>
        cases hm : minLast (y :: ys) with
        | none => simp [hx, hm] at h
        | some mb =>
          simp only [hx, hm, Option.some.injEq] at h
          have := ih mb hm
          split at h
          · subst h; simp
          · subst h; exact List.mem_cons_of_mem _ this

/-- strengthened invariant (preserved by every step) -/
structure Inv2 {α} (s : OState α) : Prop where
  sorted : Sorted s.hist
  suffix : ∃ p, s.hist = p ++ s.ret
  lastOk : ∀ a, some a ∈ s.last → headLe s.ret a
  lastNone : s.ret = [] → ∀ x ∈ s.last, x = none
  guard  : s.hist = s.ret ∨ (s.ret ≠ [] ∧ ∀ x ∈ s.last, ∃ a, x = some a)

theorem Inv2.toInv {α} {s : OState α} (h : Inv2 s) : Inv s where
  sorted := h.sorted
  suffix := h.suffix
  guard := by
    rcases h.guard with hg | ⟨hne, hall⟩
    · exact Or.inl ⟨[], by simpa using hg, rfl⟩
    · exact Or.inr ⟨hne, fun x hx => by obtain ⟨a, ha⟩ := hall x hx; exact ⟨a, ha, h.lastOk a (ha ▸ hx)⟩⟩

theorem sorted_snoc {α} : ∀ (l : List (Entry α)) (e : Entry α), Sorted l → (∀ x ∈ l, x.t < e.t) → Sorted (l ++ [e]) := by
  intro l
  induction l with
  | nil => intro e _ _; trivial
  | cons a l ih =>
    intro e hs hlt
    cases l with
    | nil => exact ⟨hlt a (by simp), trivial⟩
    | cons b l' =>
      exact ⟨hs.1, ih e hs.2 (fun x hx => hlt x (List.mem_cons_of_mem _ hx))⟩

theorem headLe_append {α} (r : List (Entry α)) (e : Entry α) (a : Int) (hne : r ≠ []) (h : headLe r a) :
    headLe (r ++ [e]) a := by
  cases r with
  | nil => exact absurd rfl hne
  | cons x xs => simpa [headLe] using h

theorem inv_step {α} (s : OState α) (hi : Inv2 s) (ev : Ev α) (hp : Pre s ev) : Inv2 (stepImpl s ev).1 := by
  cases ev with
  | push t v =>
    simp only [stepImpl]
    obtain ⟨p, hp1⟩ := hi.suffix
    refine ⟨sorted_snoc _ _ hi.sorted hp, ⟨p, by simp [hp1]⟩, ?_, ?_, ?_⟩
    · intro a ha
      by_cases hne : s.ret = []
      · have := hi.lastNone hne _ ha; simp at this
      · exact headLe_append _ _ _ hne (hi.lastOk a ha)
    · intro h; simp at h
    · rcases hi.guard with hg | ⟨hne, hall⟩
      · left; simp [hg]
      · right; exact ⟨by simp, hall⟩
  | pull k t =>
    simp only [stepImpl]
    cases hl : lookup s.ret t with
    | error e => exact hi
    | ok v =>
      simp only
      have hne : s.ret ≠ [] := by intro h; rw [h] at hl; simp [lookup] at hl
      obtain ⟨e, r, hr⟩ : ∃ e r, s.ret = e :: r := by
        cases h : s.ret with
        | nil => exact absurd h hne
        | cons e r => exact ⟨e, r, rfl⟩
      have hget : e.t ≤ t := lookup_ok_ge_head e r t v (hr ▸ hl)
      have hlast' : ∀ a, some a ∈ s.last.set k (some t) → headLe s.ret a := by
        intro a ha
        rcases List.mem_or_eq_of_mem_set ha with h | h
        · exact hi.lastOk a h
        · cases h; rw [hr]; exact hget
      cases hm : minLast (s.last.set k (some t)) with
      | none =>
        refine ⟨hi.sorted, hi.suffix, hlast', fun h => absurd h hne, ?_⟩
        rcases hi.guard with hg | ⟨_, hall⟩
        · exact Or.inl hg
        · right; refine ⟨hne, ?_⟩
          intro x hx
          rcases List.mem_or_eq_of_mem_set hx with h | h
          · exact hall x h
          · exact ⟨t, h⟩
      | some m =>
        simp only
        by_cases hall : allSome (s.last.set k (some t)) = true
        · simp only [hall, if_true]
          obtain ⟨p, hp1⟩ := hi.suffix
          obtain ⟨q, hq⟩ := evict_suffix s.ret m
          have hmle := minLast_le _ m hm
          have hmmem := minLast_mem _ m hm
          have hhead : headLe (evict s.ret m) m := evict_head_le _ _ (hlast' m hmmem)
          refine ⟨hi.sorted, ⟨p ++ q, by rw [List.append_assoc, ← hq, hp1]⟩, ?_, fun h => absurd h (evict_ne_nil _ _ hne), ?_⟩
          · intro a ha
            have := hmle a ha
            cases he : evict s.ret m with
            | nil => trivial
            | cons x xs => rw [he] at hhead; simp only [headLe] at *; omega
          · right
            refine ⟨evict_ne_nil _ _ hne, ?_⟩
            intro x hx
            simp only [allSome, List.all_eq_true] at hall
            have := hall x hx
            cases x with
            | none => simp at this
            | some a => exact ⟨a, rfl⟩
        · simp only [hall]
          refine ⟨hi.sorted, hi.suffix, hlast', fun h => absurd h hne, ?_⟩
          rcases hi.guard with hg | ⟨_, hall'⟩
          · exact Or.inl hg
          · right; refine ⟨hne, ?_⟩
            intro x hx
            rcases List.mem_or_eq_of_mem_set hx with h | h
            · exact hall' x h
            · exact ⟨t, h⟩


end Finam
