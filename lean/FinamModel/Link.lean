import FinamModel.Output
/-
  Model of the data path across one link (C08): `Output.push_data` (prepare: units, shape,
  memory-sharing test), `Output.get_data` (nearest-step lookup), `Input._convert_and_check`
  (unit conversion / relabel, `check`).

  Arrays are a shape and the list of their elements in C order.  Units are linear maps to a base
  unit (dimension vector, factor, offset) — pint itself is a trusted parameter, validated by the
  units engine (C17).
-/
namespace Finam.Link

def prod : List Nat → Nat
  | [] => 1
  | n :: ns => n * prod ns

/-- multi-index within a shape -/
def InB : List Nat → List Nat → Prop
  | [], [] => True
  | n :: ns, i :: is => i < n ∧ InB ns is
  | _, _ => False

def ravelC : List Nat → List Nat → Nat
  | _ :: ns, i :: is => i * prod ns + ravelC ns is
  | _, _ => 0

def unravelC : List Nat → Nat → List Nat
  | [], _ => []
  | _ :: ns, k => (k / prod ns) :: unravelC ns (k % prod ns)

/-- F order = C order on the reversed shape and index -/
def ravelF (sh ix : List Nat) : Nat := ravelC sh.reverse ix.reverse

structure Arr where
  shape : List Nat
  data : List Rat          -- C order
deriving Repr, DecidableEq

def Arr.get (a : Arr) (ix : List Nat) : Rat := a.data.getD (ravelC a.shape ix) 0

structure LUnit where
  dim : List Int
  factor : Rat
  offset : Rat
deriving Repr, DecidableEq

def LUnit.compatible (a b : LUnit) : Bool := a.dim == b.dim
/-- `equivalent_units`: converting 1 gives 1 (and compatible) -/
def convertVal (src dst : LUnit) (v : Rat) : Rat := (v * src.factor + src.offset - dst.offset) / dst.factor
def LUnit.equivalent (a b : LUnit) : Bool := a.compatible b && convertVal a b 1 == 1

inductive GridKind where
  | grid (shape : List Nat) (orderF : Bool)
  | noGrid (dim : Nat)
deriving Repr, DecidableEq

def GridKind.dataShape : GridKind → List Nat
  | .grid s _ => s
  | .noGrid _ => []

/-- reshape a flat vector to `1 :: shape` in the given order, result listed in C order -/
def reshapeFlat (flat : List Rat) (shape : List Nat) (orderF : Bool) : Arr :=
  let full := 1 :: shape
  if orderF then
    ⟨full, (List.range (prod full)).map fun p => flat.getD (ravelF full (unravelC full p)) 0⟩
  else ⟨full, flat⟩

/-- `time_entries = data.shape[0] if len(data.shape) == len(grid.data_shape) + 1 else 1` -/
def timeEntries (gshape ashape : List Nat) : Nat :=
  if ashape.length = gshape.length + 1 then ashape.headD 1 else 1

/-- `_check_input_shape` (called with time_entries = 1: pushes of single time slices) -/
def checkInputShape (g : GridKind) (a : Arr) : Except Err Arr :=
  match g with
  | .grid gshape orderF =>
    -- `data.size / time_entries != grid.data_size` (true division)
    if timeEntries gshape a.shape = 0 ∨ prod a.shape ≠ prod gshape * timeEntries gshape a.shape then
      .error .dataErr
    else if a.shape.length ≠ 1 then
      if a.shape.tail ≠ gshape then
        if a.shape = gshape then .ok ⟨1 :: a.shape, a.data⟩     -- expand_dims
        else .error .dataErr
      else .ok a
    else
      -- flat: reshape in grid order (time_entries ≤ 1)
      if timeEntries gshape a.shape ≤ 1 then .ok (reshapeFlat a.data gshape orderF)
      else .ok ⟨timeEntries gshape a.shape :: gshape, a.data⟩
  | .noGrid dim =>
    -- NoGrid(dim) has data_shape (-1,)*dim: only the rank is fixed
    if a.shape.length ≠ dim + 1 then
      if a.shape.length = dim then .ok ⟨1 :: a.shape, a.data⟩
      else .error .dataErr
    else if a.shape.headD 0 ≠ 1 then .error .dataErr
    else .ok a

/-- units part of `prepare`: quantified payloads must be compatible and are converted unless
    equivalent; plain payloads are labelled -/
def prepareUnits (infoUnits : LUnit) (payloadUnits : Option LUnit) (a : Arr) : Except Err Arr :=
  match payloadUnits with
  | none => .ok a
  | some u =>
    if !u.compatible infoUnits then .error .dataErr
    else if u.equivalent infoUnits then .ok a
    else .ok { a with data := a.data.map (convertVal u infoUnits) }

def prepare (g : GridKind) (infoUnits : LUnit) (payloadUnits : Option LUnit) (a : Arr) : Except Err Arr := do
  let a ← prepareUnits infoUnits payloadUnits a
  checkInputShape g a

/-- `to_units(data, units, check_equivalent=True)` on the element list -/
def toUnitsData (srcUnits inUnits : LUnit) (d : List Rat) : List Rat :=
  if srcUnits.equivalent inUnits then d else d.map (convertVal srcUnits inUnits)

/-- `check(data, info)`: time axis present and shape behind it equal to the grid's data shape -/
def checkShape (g : GridKind) (shape : List Nat) : Bool :=
  match g with
  | .grid gshape _ => shape.length == gshape.length + 1 && shape.tail == gshape
  | .noGrid dim => shape.length == dim + 1

/-- `Input._convert_and_check` without grid transform (equal layouts): `to_units(check_equivalent)`
    followed by `check` -/
def convertAndCheck (g : GridKind) (srcUnits inUnits : LUnit) (a : Arr) : Except Err Arr :=
  if !srcUnits.compatible inUnits then .error .other      -- pint DimensionalityError
  else if !checkShape g a.shape then .error .dataErr
  else .ok ⟨a.shape, toUnitsData srcUnits inUnits a.data⟩

/-- An output together with the buffer identity of the newest in-RAM entry (for the
    `np.may_share_memory` test; `none` when the newest entry is spilled or nothing is stored). -/
structure LinkOut where
  hist : List (Entry Arr)
  lastBuf : Option Nat

/-- does `prepare` allocate a new array for this payload?  Only a conversion between non-equivalent units does
    (`data.to(units)`); a plain payload or one in an equivalent spelling of the units is stored as it is. -/
def converts (u : LUnit) (pu : Option LUnit) : Bool :=
  match pu with
  | none => false
  | some p => !p.equivalent u

/-- `Output.push_data` (non-static, info exchanged): prepare, memory-sharing test, append.  `buf` is the identity
    of the payload's buffer; a converted payload is a fresh array that nothing published later can alias. -/
def push (g : GridKind) (u : LUnit) (o : LinkOut) (t : Int) (pu : Option LUnit) (buf : Nat) (a : Arr) :
    Except Err LinkOut := do
  let x ← prepare g u pu a
  if converts u pu then .ok ⟨o.hist ++ [⟨t, x⟩], none⟩
  else if o.lastBuf = some buf then .error .dataErr
  else .ok ⟨o.hist ++ [⟨t, x⟩], some buf⟩

/-- a pull through the link -/
def pull (g : GridKind) (srcUnits inUnits : LUnit) (o : LinkOut) (t : Int) : Except Err Arr := do
  let x ← lookup o.hist t
  convertAndCheck g srcUnits inUnits x

end Finam.Link
