import FinamModel.Connect
/-! Helper lemmas about the connect model (`Connect.lean`): attempts, one call, the loop. -/
namespace Finam.Connect
open Finam

/-! ### `holds`, `fire`, runs of attempts -/

theorem holds_iff (d l : List Item) : holds d l = true ↔ ∀ p ∈ l, p ∈ d := by
  simp [holds, List.all_eq_true]

theorem holds_mono {d d' l : List Item} (h : ∀ x ∈ d, x ∈ d') (hl : holds d l = true) :
    holds d' l = true := by
  rw [holds_iff] at *
  exact fun p hp => h p (hl p hp)

theorem mem_fire_of_mem (S : Spec) {d : List Item} (x : Item) {y : Item} (h : y ∈ d) : y ∈ fire S d x := by
  unfold fire; split <;> simp [h]

theorem mem_fire (S : Spec) {d : List Item} {x y : Item} (h : y ∈ fire S d x) :
    (y = x ∧ x ∉ d ∧ holds d (deliver S x) = true) ∨ y ∈ d := by
  unfold fire at h
  split at h
  · rename_i hc
    simp only [Bool.and_eq_true, Bool.not_eq_true', List.contains_eq_mem, decide_eq_false_iff_not] at hc
    rcases List.mem_cons.mp h with h | h
    · exact Or.inl ⟨h, hc.1, hc.2⟩
    · exact Or.inr h
  · exact Or.inr h

theorem fire_length (S : Spec) (d : List Item) (x : Item) :
    d.length ≤ (fire S d x).length := by
  unfold fire; split <;> simp

theorem fire_of_enabled (S : Spec) {d : List Item} {x : Item} (h1 : x ∉ d) (h2 : holds d (deliver S x) = true) :
    fire S d x = x :: d := by
  unfold fire
  simp [h1, h2]

/-- a sequence of attempts -/
def run (S : Spec) (l : List Item) (d : List Item) : List Item := l.foldl (fire S) d

theorem run_nil (S : Spec) (d : List Item) : run S [] d = d := rfl
theorem run_cons (S : Spec) (x : Item) (l d : List Item) : run S (x :: l) d = run S l (fire S d x) := rfl

theorem run_mono (S : Spec) (l : List Item) : ∀ (d : List Item) (y : Item), y ∈ d → y ∈ run S l d := by
  induction l with
  | nil => intro d y h; exact h
  | cons x l ih => intro d y h; rw [run_cons]; exact ih _ y (mem_fire_of_mem S x h)

theorem run_length (S : Spec) (l : List Item) : ∀ d : List Item, d.length ≤ (run S l d).length := by
  induction l with
  | nil => intro d; exact Nat.le_refl _
  | cons x l ih => intro d; rw [run_cons]; exact Nat.le_trans (fire_length S d x) (ih _)

/-- a run that exchanged nothing: every attempted item was done already or not deliverable -/
theorem run_stall (S : Spec) (l : List Item) : ∀ d : List Item, (run S l d).length = d.length →
    run S l d = d ∧ ∀ x ∈ l, x ∈ d ∨ holds d (deliver S x) = false := by
  induction l with
  | nil => intro d _; exact ⟨rfl, fun x hx => by cases hx⟩
  | cons x l ih =>
    intro d h
    rw [run_cons] at h ⊢
    have h1 := run_length S l (fire S d x)
    have h2 := fire_length S d x
    have hf : fire S d x = d := by
      by_cases hx : x ∈ d
      · unfold fire; simp [hx]
      · cases hh : holds d (deliver S x) with
        | false => unfold fire; simp [hh]
        | true =>
          have := fire_of_enabled S hx hh
          rw [this] at h1 h
          simp at h1; omega
    rw [hf] at h ⊢
    obtain ⟨e, hall⟩ := ih d h
    refine ⟨e, ?_⟩
    intro y hy
    rcases List.mem_cons.mp hy with hy | hy
    · subst hy
      by_cases hx : y ∈ d
      · exact Or.inl hx
      · right
        cases hh : holds d (deliver S y) with
        | false => rfl
        | true =>
          have := fire_of_enabled S hx hh
          rw [this] at hf
          exact absurd (congrArg List.length hf) (by simp)
    · exact hall y hy

/-- a run that exchanged something exchanged an attempted item that was not done before -/
theorem run_grew (S : Spec) (l : List Item) : ∀ d : List Item, d.length < (run S l d).length →
    ∃ x ∈ l, x ∉ d ∧ x ∈ run S l d := by
  induction l with
  | nil => intro d h; simp [run_nil] at h
  | cons x l ih =>
    intro d h
    rw [run_cons] at h ⊢
    by_cases hf : fire S d x = d
    · rw [hf] at h ⊢
      obtain ⟨y, hy, hn, hm⟩ := ih d h
      exact ⟨y, List.mem_cons_of_mem _ hy, hn, hm⟩
    · have hx : x ∈ fire S d x ∧ x ∉ d := by
        by_cases h1 : x ∈ d
        · exact absurd (by unfold fire; simp [h1]) hf
        · cases hh : holds d (deliver S x) with
          | false => exact absurd (by unfold fire; simp [hh]) hf
          | true => rw [fire_of_enabled S h1 hh]; exact ⟨List.mem_cons_self, h1⟩
      exact ⟨x, List.mem_cons_self, hx.2, run_mono S l _ x hx.1⟩

/-- an attempted item without delivery condition is done after the run -/
theorem run_mem_of_deliver_nil (S : Spec) (l : List Item) : ∀ (d : List Item) (x : Item), x ∈ l →
    deliver S x = [] → x ∈ run S l d := by
  induction l with
  | nil => intro d x h; cases h
  | cons y l ih =>
    intro d x hx hd
    rw [run_cons]
    rcases List.mem_cons.mp hx with hx | hx
    · subst hx
      apply run_mono
      by_cases h : x ∈ d
      · exact mem_fire_of_mem S x h
      · rw [fire_of_enabled S h (by simp [holds, hd])]; exact List.mem_cons_self
    · exact ih _ x hx hd

/-! ### justified sets -/

/-- every element was added when all its preconditions were already present -/
def Justified (S : Spec) : List Item → Prop
  | [] => True
  | x :: d => x ∈ allItems S ∧ (∀ p ∈ pre S x, p ∈ d) ∧ Justified S d

theorem justified_derivable (S : Spec) : ∀ d : List Item, Justified S d → ∀ x ∈ d, Derivable S x := by
  intro d
  induction d with
  | nil => intro _ x hx; cases hx
  | cons y d ih =>
    intro hj x hx
    rcases List.mem_cons.mp hx with hx | hx
    · subst hx; exact .mk x hj.1 (fun p hp => ih hj.2.2 p (hj.2.1 p hp))
    · exact ih hj.2.2 x hx

/-- a justified set is closed under preconditions -/
theorem justified_closed (S : Spec) : ∀ d : List Item, Justified S d → ∀ x ∈ d, ∀ p ∈ pre S x, p ∈ d := by
  intro d
  induction d with
  | nil => intro _ x hx; cases hx
  | cons y d ih =>
    intro hj x hx p hp
    rcases List.mem_cons.mp hx with hx | hx
    · subst hx; exact List.mem_cons_of_mem _ (hj.2.1 p hp)
    · exact List.mem_cons_of_mem _ (ih hj.2.2 x hx p hp)

theorem justified_of_pre_nil (S : Spec) : ∀ l : List Item, (∀ x ∈ l, x ∈ allItems S ∧ pre S x = []) →
    Justified S l := by
  intro l
  induction l with
  | nil => intro _; trivial
  | cons x l ih =>
    intro h
    refine ⟨(h x List.mem_cons_self).1, ?_, ih (fun y hy => h y (List.mem_cons_of_mem _ hy))⟩
    rw [(h x List.mem_cons_self).2]; intro p hp; cases hp

theorem fire_justified (S : Spec) {d : List Item} {x : Item} (hj : Justified S d) (hx : x ∈ allItems S)
    (hp : ∀ p ∈ prov S x, p ∈ d) : Justified S (fire S d x) := by
  unfold fire
  split
  · rename_i hc
    simp only [Bool.and_eq_true, Bool.not_eq_true', List.contains_eq_mem, decide_eq_false_iff_not] at hc
    refine ⟨hx, ?_, hj⟩
    intro p hp'
    simp only [pre, List.mem_append] at hp'
    rcases hp' with h | h
    · exact hp p h
    · exact (holds_iff _ _).mp hc.2 p h
  · exact hj

theorem run_justified (S : Spec) (l : List Item) : ∀ d : List Item, Justified S d →
    (∀ x ∈ l, x ∈ allItems S ∧ ∀ p ∈ prov S x, p ∈ d) → Justified S (run S l d) := by
  induction l with
  | nil => intro d hj _; exact hj
  | cons x l ih =>
    intro d hj h
    rw [run_cons]
    apply ih
    · exact fire_justified S hj (h x List.mem_cons_self).1 (h x List.mem_cons_self).2
    · intro y hy
      have := h y (List.mem_cons_of_mem _ hy)
      exact ⟨this.1, fun p hp => mem_fire_of_mem S x (this.2 p hp)⟩

/-- at a state where no declared item is enabled, everything derivable is done -/
theorem closed_complete (S : Spec) (d : List Item)
    (h : ∀ x ∈ allItems S, x ∉ d → ¬ (∀ p ∈ pre S x, p ∈ d)) : ∀ x, Derivable S x → x ∈ d := by
  intro x hx
  induction hx with
  | mk x hmem _ ih =>
    apply Classical.byContradiction
    intro hn
    exact h x hmem hn ih

end Finam.Connect

namespace Finam.Connect

/-! ### structure of the item lists -/

theorem comp_lt {S : Spec} {c : Nat} {cs : CompSpec} (h : S.comps[c]? = some cs) : c < S.comps.length := by
  rcases List.getElem?_eq_some_iff.mp h with ⟨hl, _⟩; exact hl

theorem items_eq {S : Spec} {c : Nat} {cs : CompSpec} (h : S.comps[c]? = some cs) :
    items S c = itemsOf c cs := by simp [items, h]

theorem inp_eq {S : Spec} {c : Nat} {cs : CompSpec} (h : S.comps[c]? = some cs) (i : Nat) :
    S.inp? c i = cs.ins[i]? := by simp [Spec.inp?, h]

theorem out_eq {S : Spec} {c : Nat} {cs : CompSpec} (h : S.comps[c]? = some cs) (o : Nat) :
    S.out? c o = cs.outs[o]? := by simp [Spec.out?, h]

theorem mem_allItems {S : Spec} {c : Nat} {x : Item} (hc : c < S.comps.length) (hx : x ∈ items S c) :
    x ∈ allItems S := by
  simp only [allItems, List.mem_flatMap, List.mem_range]
  exact ⟨c, hc, hx⟩

theorem mem_allItems_iff {S : Spec} {x : Item} :
    x ∈ allItems S ↔ ∃ c cs, S.comps[c]? = some cs ∧ x ∈ itemsOf c cs := by
  simp only [allItems, List.mem_flatMap, List.mem_range]
  constructor
  · rintro ⟨c, hc, hx⟩
    have : S.comps[c]? = some S.comps[c] := List.getElem?_eq_getElem hc
    exact ⟨c, _, this, by rwa [items_eq this] at hx⟩
  · rintro ⟨c, cs, h, hx⟩
    exact ⟨c, comp_lt h, by rwa [items_eq h]⟩

theorem mem_itemsOf {c : Nat} {cs : CompSpec} {x : Item} : x ∈ itemsOf c cs ↔
    (∃ i, i < cs.ins.length ∧ x = .inInfo c i) ∨ (∃ o, o < cs.outs.length ∧ x = .outInfoRead c o) ∨
    (∃ i xi, cs.ins[i]? = some xi ∧ xi.pull = true ∧ x = .inData c i) ∨
    (∃ o, o < cs.outs.length ∧ x = .outInfoPushed c o) ∨ (∃ o, o < cs.outs.length ∧ x = .dataPushed c o) := by
  simp only [itemsOf, List.mem_append, List.mem_map, List.mem_filter, List.mem_range]
  constructor
  · rintro ((((⟨i, hi, rfl⟩ | ⟨o, ho, rfl⟩) | ⟨i, ⟨hi, hp⟩, rfl⟩) | ⟨o, ho, rfl⟩) | ⟨o, ho, rfl⟩)
    · exact Or.inl ⟨i, hi, rfl⟩
    · exact Or.inr (Or.inl ⟨o, ho, rfl⟩)
    · refine Or.inr (Or.inr (Or.inl ?_))
      cases hx : cs.ins[i]? with
      | none => simp [hx] at hp
      | some xi => simp only [hx] at hp; exact ⟨i, xi, hx, hp, rfl⟩
    · exact Or.inr (Or.inr (Or.inr (Or.inl ⟨o, ho, rfl⟩)))
    · exact Or.inr (Or.inr (Or.inr (Or.inr ⟨o, ho, rfl⟩)))
  · rintro (⟨i, hi, rfl⟩ | ⟨o, ho, rfl⟩ | ⟨i, xi, hx, hp, rfl⟩ | ⟨o, ho, rfl⟩ | ⟨o, ho, rfl⟩)
    · exact Or.inl (Or.inl (Or.inl (Or.inl ⟨i, hi, rfl⟩)))
    · exact Or.inl (Or.inl (Or.inl (Or.inr ⟨o, ho, rfl⟩)))
    · refine Or.inl (Or.inl (Or.inr ⟨i, ⟨?_, ?_⟩, rfl⟩))
      · rcases List.getElem?_eq_some_iff.mp hx with ⟨hl, _⟩; exact hl
      · simp [hx, hp]
    · exact Or.inl (Or.inr ⟨o, ho, rfl⟩)
    · exact Or.inr ⟨o, ho, rfl⟩

theorem candidates_sub {c : Nat} {cs : CompSpec} {x : Item} (h : x ∈ candidates c cs) : x ∈ itemsOf c cs := by
  simp only [candidates, List.mem_append, List.mem_map, List.mem_range] at h
  rw [mem_itemsOf]
  rcases h with (⟨i, hi, rfl⟩ | ⟨o, ho, rfl⟩) | ⟨o, ho, rfl⟩
  · exact Or.inl ⟨i, hi, rfl⟩
  · exact Or.inr (Or.inr (Or.inr (Or.inl ⟨o, ho, rfl⟩)))
  · exact Or.inr (Or.inr (Or.inr (Or.inr ⟨o, ho, rfl⟩)))

theorem itemsOf_comp {c : Nat} {cs : CompSpec} {x : Item} (h : x ∈ itemsOf c cs) : x.comp = c := by
  rw [mem_itemsOf] at h
  rcases h with ⟨i, _, rfl⟩ | ⟨o, _, rfl⟩ | ⟨i, _, _, _, rfl⟩ | ⟨o, _, rfl⟩ | ⟨o, _, rfl⟩ <;> rfl

/-! ### what a call provides -/

theorem wants_spec {S : Spec} {c : Nat} {con : Bool} {d cache : List Item} {x : Item}
    (h : wants S c con d cache x = true) : holds d (prov S x) = true ∧ x.comp = c := by
  cases x with
  | inInfo c' i =>
    simp only [wants, Bool.and_eq_true, beq_iff_eq] at h
    obtain ⟨rfl, h⟩ := h
    refine ⟨?_, rfl⟩
    split at h
    · rename_i xi hx
      split at h
      · cases h
      · simp only [Bool.and_eq_true] at h; exact h.2
      · simp only [Bool.and_eq_true] at h; exact h.2
    · cases h
  | outInfoPushed c' o =>
    simp only [wants, Bool.and_eq_true, beq_iff_eq] at h
    obtain ⟨rfl, h⟩ := h
    refine ⟨?_, rfl⟩
    split at h
    · split at h
      · cases h
      · simp only [Bool.and_eq_true] at h; exact h.2
      · simp only [Bool.and_eq_true] at h; exact h.2
    · cases h
  | dataPushed c' o =>
    simp only [wants, Bool.and_eq_true, beq_iff_eq] at h
    obtain ⟨rfl, h⟩ := h
    refine ⟨?_, rfl⟩
    split at h
    · simp only [Bool.and_eq_true] at h; exact h.2
    · cases h
  | outInfoRead c' o => simp [wants] at h
  | inData c' i => simp [wants] at h

theorem mem_newProv {S : Spec} {c : Nat} {cs : CompSpec} {d cache : List Item} {x : Item} :
    x ∈ newProv S c cs d cache ↔ x ∈ candidates c cs ∧ wants S c cs.cache d cache x = true := by
  simp [newProv, List.mem_filter]

theorem mem_callCache {S : Spec} {c : Nat} {cs : CompSpec} {d cache : List Item} {x : Item}
    (h : x ∈ callCache S c cs d cache) : x ∈ cache ∨ x ∈ newProv S c cs d cache := by
  unfold callCache at h
  split at h
  · exact List.mem_append.mp h
  · rcases List.mem_append.mp h with h | h
    · exact Or.inl (List.mem_filter.mp h).1
    · exact Or.inr h

theorem newProv_sub_callCache {S : Spec} {c : Nat} {cs : CompSpec} {d cache : List Item} {x : Item}
    (h : x ∈ newProv S c cs d cache) : x ∈ callCache S c cs d cache := by
  unfold callCache; split <;> exact List.mem_append_right _ h

/-- invariant of the caches: cached items are declared items whose provision condition holds;
    a cached out-info has been pushed (`_push` pushes it in the call that cached it) -/
def CInv (S : Spec) (d cache : List Item) : Prop :=
  ∀ x ∈ cache, x ∈ allItems S ∧ (∀ p ∈ prov S x, p ∈ d) ∧ (∀ c o, x = .outInfoPushed c o → x ∈ d)

theorem prov_outInfoRead (S : Spec) (c o : Nat) : prov S (.outInfoRead c o) = [] := rfl
theorem prov_inData (S : Spec) (c i : Nat) : prov S (.inData c i) = [] := rfl

/-- every attempt of a call is a declared item whose provision condition holds -/
theorem callItems_ok {S : Spec} {c : Nat} {cs : CompSpec} (hc : S.comps[c]? = some cs) {d cache : List Item}
    (hi : CInv S d cache) : ∀ x ∈ callItems c cs (callCache S c cs d cache),
      x ∈ allItems S ∧ ∀ p ∈ prov S x, p ∈ d := by
  have hcache : ∀ x ∈ callCache S c cs d cache, x ∈ allItems S ∧ ∀ p ∈ prov S x, p ∈ d := by
    intro x hx
    rcases mem_callCache hx with h | h
    · exact ⟨(hi x h).1, (hi x h).2.1⟩
    · rw [mem_newProv] at h
      refine ⟨mem_allItems_iff.mpr ⟨c, cs, hc, candidates_sub h.1⟩, ?_⟩
      exact (holds_iff _ _).mp (wants_spec h.2).1
  have hit : ∀ x, x ∈ itemsOf c cs → x ∈ allItems S := fun x hx => mem_allItems_iff.mpr ⟨c, cs, hc, hx⟩
  intro x hx
  simp only [callItems, List.mem_append, List.mem_map, List.mem_filter, List.mem_range] at hx
  rcases hx with ((((⟨i, ⟨hl, hdec⟩, rfl⟩ | ⟨hx, _⟩) | ⟨o, ho, rfl⟩) | ⟨hx, _⟩) | ⟨hx, _⟩) | ⟨i, ⟨hl, hp⟩, rfl⟩
  · refine ⟨hit _ (mem_itemsOf.mpr (Or.inl ⟨i, hl, rfl⟩)), ?_⟩
    cases hxi : cs.ins[i]? with
    | none => simp [hxi] at hdec
    | some xi =>
      simp only [hxi] at hdec
      simp only [prov, inp_eq hc, hxi]
      cases hinfo : xi.info with
      | declared => intro p hp; simp [InfoSrc.refs] at hp
      | rule r => simp [hinfo, isDeclared] at hdec
      | provided w => simp [hinfo, isDeclared] at hdec
  · exact hcache x hx
  · exact ⟨hit _ (mem_itemsOf.mpr (Or.inr (Or.inl ⟨o, ho, rfl⟩))), by intro p hp; cases hp⟩
  · exact hcache x hx
  · exact hcache x hx
  · refine ⟨hit _ (mem_itemsOf.mpr (Or.inr (Or.inr (Or.inl ?_)))), by intro p hp; cases hp⟩
    cases hxi : cs.ins[i]? with
    | none => simp [hxi] at hp
    | some xi => simp only [hxi] at hp; exact ⟨i, xi, hxi, hp, rfl⟩

theorem callDone_eq (S : Spec) (c : Nat) (cs : CompSpec) (d cache : List Item) :
    callDone S c cs d cache = run S (callItems c cs (callCache S c cs d cache)) d := rfl

theorem callDone_mono (S : Spec) (c : Nat) (cs : CompSpec) (d cache : List Item) :
    ∀ y ∈ d, y ∈ callDone S c cs d cache := fun y hy => run_mono S _ d y hy

theorem callDone_justified {S : Spec} {c : Nat} {cs : CompSpec} (hc : S.comps[c]? = some cs)
    {d cache : List Item} (hj : Justified S d) (hi : CInv S d cache) :
    Justified S (callDone S c cs d cache) :=
  run_justified S _ d hj (callItems_ok hc hi)

theorem deliver_outInfoPushed (S : Spec) (c o : Nat) : deliver S (.outInfoPushed c o) = [] := rfl

theorem call_cinv {S : Spec} {c : Nat} {cs : CompSpec} (hc : S.comps[c]? = some cs) {d cache : List Item}
    (hi : CInv S d cache) : CInv S (callDone S c cs d cache) (callCache S c cs d cache) := by
  intro x hx
  have hmono := callDone_mono S c cs d cache
  rcases mem_callCache hx with h | h
  · exact ⟨(hi x h).1, fun p hp => hmono p ((hi x h).2.1 p hp), fun c' o e => hmono x ((hi x h).2.2 c' o e)⟩
  · have h' := mem_newProv.mp h
    have hw := wants_spec h'.2
    refine ⟨mem_allItems_iff.mpr ⟨c, cs, hc, candidates_sub h'.1⟩,
      fun p hp => hmono p ((holds_iff _ _).mp hw.1 p hp), ?_⟩
    intro c' o e
    subst e
    have hc' : c' = c := hw.2
    subst hc'
    rw [callDone_eq]
    apply run_mem_of_deliver_nil _ _ _ _ _ (deliver_outInfoPushed S c' o)
    simp only [callItems, List.mem_append, List.mem_filter]
    exact Or.inl (Or.inl (Or.inr ⟨hx, by simp [isOutInfoPushedOf]⟩))

end Finam.Connect

namespace Finam.Connect

/-! ### status of a call, and a call that exchanged nothing -/

theorem callStatus_connected_iff (c : Nat) (cs : CompSpec) (d d' : List Item) :
    callStatus c cs d d' = .connected ↔ ∀ x ∈ itemsOf c cs, x ∈ d' := by
  unfold callStatus
  rw [← holds_iff]
  split
  · simp [*]
  · split <;> simp [*]

theorem callStatus_connecting_iff (c : Nat) (cs : CompSpec) (d d' : List Item) :
    callStatus c cs d d' = .connecting ↔ (¬ ∀ x ∈ itemsOf c cs, x ∈ d') ∧ d.length < d'.length := by
  unfold callStatus
  rw [← holds_iff]
  split
  · simp [*]
  · split <;> simp [*]

theorem callStatus_idle_iff (c : Nat) (cs : CompSpec) (d d' : List Item) :
    callStatus c cs d d' = .idle ↔ (¬ ∀ x ∈ itemsOf c cs, x ∈ d') ∧ ¬ d.length < d'.length := by
  unfold callStatus
  rw [← holds_iff]
  split
  · simp [*]
  · split <;> simp [*]

theorem callStatus_ne_initialized (c : Nat) (cs : CompSpec) (d d' : List Item) :
    callStatus c cs d d' ≠ .initialized := by
  unfold callStatus; split
  · simp
  · split <;> simp

theorem mem_initDone {S : Spec} {c o : Nat} {cs : CompSpec} {y : OutSpec} (hc : S.comps[c]? = some cs)
    (ho : cs.outs[o]? = some y) (hd : isDeclared y.info = true) : Item.outInfoPushed c o ∈ initDone S := by
  simp only [initDone, List.mem_flatMap, List.mem_range]
  refine ⟨c, comp_lt hc, ?_⟩
  simp only [hc, List.mem_map, List.mem_filter, List.mem_range]
  refine ⟨o, ⟨?_, by simp [ho, hd]⟩, rfl⟩
  rcases List.getElem?_eq_some_iff.mp ho with ⟨hl, _⟩; exact hl

theorem initDone_spec {S : Spec} {x : Item} (h : x ∈ initDone S) : x ∈ allItems S ∧ pre S x = [] := by
  simp only [initDone, List.mem_flatMap, List.mem_range] at h
  obtain ⟨c, hc, h⟩ := h
  have hcs : S.comps[c]? = some S.comps[c] := List.getElem?_eq_getElem hc
  simp only [hcs, List.mem_map, List.mem_filter, List.mem_range] at h
  obtain ⟨o, ⟨ho, hdec⟩, rfl⟩ := h
  refine ⟨mem_allItems_iff.mpr ⟨c, _, hcs, mem_itemsOf.mpr (Or.inr (Or.inr (Or.inr (Or.inl ⟨o, ho, rfl⟩))))⟩, ?_⟩
  have hy : (S.comps[c]).outs[o]? = some (S.comps[c]).outs[o] := List.getElem?_eq_getElem ho
  simp only [hy] at hdec
  simp only [pre, prov, deliver, out_eq hcs, hy, List.append_nil]
  cases hinfo : (S.comps[c]).outs[o].info with
  | declared => rfl
  | rule r => simp [hinfo, isDeclared] at hdec
  | provided w => simp [hinfo, isDeclared] at hdec

/-- **stall of one call.**  A call that exchanged nothing leaves no enabled outstanding item of its
    component: every item whose preconditions hold was attempted (provision conditions are evaluated
    at the beginning of the call, and nothing changed during the call). -/
theorem call_stall {S : Spec} {c : Nat} {cs : CompSpec} (hc : S.comps[c]? = some cs) {d cache : List Item}
    (hj : Justified S d) (hi : CInv S d cache) (hinit : ∀ x ∈ initDone S, x ∈ d)
    (hlen : (callDone S c cs d cache).length = d.length) :
    ∀ x ∈ itemsOf c cs, x ∉ d → ¬ (∀ p ∈ pre S x, p ∈ d) := by
  obtain ⟨_, hall⟩ := run_stall S _ d hlen
  intro x hx hnd hpre
  have hprov : holds d (prov S x) = true :=
    (holds_iff _ _).mpr fun p hp => hpre p (by simp [pre, hp])
  have hdel : holds d (deliver S x) = true :=
    (holds_iff _ _).mpr fun p hp => hpre p (by simp [pre, hp])
  suffices hmem : x ∈ callItems c cs (callCache S c cs d cache) by
    rcases hall x hmem with h | h
    · exact hnd h
    · rw [hdel] at h; cases h
  have hndc : d.contains x = false := by simpa using hnd
  rcases mem_itemsOf.mp hx with ⟨i, hl, rfl⟩ | ⟨o, ho, rfl⟩ | ⟨i, xi, hxi, hp, rfl⟩ | ⟨o, ho, rfl⟩ | ⟨o, ho, rfl⟩
  · -- in-info
    have hxi : cs.ins[i]? = some cs.ins[i] := List.getElem?_eq_getElem hl
    cases hinfo : cs.ins[i].info with
    | declared =>
      simp only [callItems, List.mem_append, List.mem_map, List.mem_filter, List.mem_range]
      exact Or.inl (Or.inl (Or.inl (Or.inl (Or.inl ⟨i, ⟨hl, by simp [hxi, hinfo, isDeclared]⟩, rfl⟩))))
    | rule r =>
      have hin : Item.inInfo c i ∈ callCache S c cs d cache := by
        by_cases hcc : cs.cache = true ∧ Item.inInfo c i ∈ cache
        · unfold callCache; rw [if_pos hcc.1]; exact List.mem_append_left _ hcc.2
        · apply newProv_sub_callCache
          rw [mem_newProv]
          refine ⟨by simp [candidates, hl], ?_⟩
          simp only [wants, inp_eq hc, hxi, hinfo, beq_self_eq_true, Bool.true_and, hndc, Bool.not_false,
            hprov, Bool.and_true]
          cases hcv : cs.cache with
          | false => simp
          | true =>
            have : Item.inInfo c i ∉ cache := fun h => hcc ⟨hcv, h⟩
            simp [this]
      simp only [callItems, List.mem_append, List.mem_filter]
      exact Or.inl (Or.inl (Or.inl (Or.inl (Or.inr ⟨hin, by simp [isInInfoOf]⟩))))
    | provided w =>
      have hin : Item.inInfo c i ∈ callCache S c cs d cache := by
        apply newProv_sub_callCache
        rw [mem_newProv]
        refine ⟨by simp [candidates, hl], ?_⟩
        simp [wants, inp_eq hc, hxi, hinfo, hnd, hprov]
      simp only [callItems, List.mem_append, List.mem_filter]
      exact Or.inl (Or.inl (Or.inl (Or.inl (Or.inr ⟨hin, by simp [isInInfoOf]⟩))))
  · simp only [callItems, List.mem_append, List.mem_map, List.mem_range]
    exact Or.inl (Or.inl (Or.inl (Or.inr ⟨o, ho, rfl⟩)))
  · simp only [callItems, List.mem_append, List.mem_map, List.mem_filter, List.mem_range]
    refine Or.inr ⟨i, ⟨?_, by simp [hxi, hp]⟩, rfl⟩
    rcases List.getElem?_eq_some_iff.mp hxi with ⟨hl, _⟩; exact hl
  · -- out-info push
    have hy : cs.outs[o]? = some cs.outs[o] := List.getElem?_eq_getElem ho
    have hin : Item.outInfoPushed c o ∈ callCache S c cs d cache := by
      cases hinfo : cs.outs[o].info with
      | declared => exact absurd (hinit _ (mem_initDone hc hy (by simp [hinfo, isDeclared]))) hnd
      | rule r =>
        by_cases hcc : Item.outInfoPushed c o ∈ cache
        · exact absurd ((hi _ hcc).2.2 c o rfl) hnd
        · apply newProv_sub_callCache
          rw [mem_newProv]
          refine ⟨by simp [candidates, ho], ?_⟩
          simp [wants, out_eq hc, hy, hinfo, hnd, hprov, hcc]
      | provided w =>
        have hr : Item.outInfoRead c o ∉ d := by
          intro h
          exact hnd (justified_closed S d hj _ h _ (by simp [pre, deliver]))
        apply newProv_sub_callCache
        rw [mem_newProv]
        refine ⟨by simp [candidates, ho], ?_⟩
        simp [wants, out_eq hc, hy, hinfo, hr, hprov]
    simp only [callItems, List.mem_append, List.mem_filter]
    exact Or.inl (Or.inl (Or.inr ⟨hin, by simp [isOutInfoPushedOf]⟩))
  · -- data push
    have hy : cs.outs[o]? = some cs.outs[o] := List.getElem?_eq_getElem ho
    have hin : Item.dataPushed c o ∈ callCache S c cs d cache := by
      apply newProv_sub_callCache
      rw [mem_newProv]
      refine ⟨by simp [candidates, ho], ?_⟩
      simp [wants, out_eq hc, hy, hnd, hprov]
    simp only [callItems, List.mem_append, List.mem_filter]
    exact Or.inl (Or.inr ⟨hin, by simp [isDataPushedOf]⟩)

end Finam.Connect

namespace Finam.Connect

/-! ### one step of the component loop -/

theorem stepComp_connected {S : Spec} {st : LState} {fl : Flags} {c : Nat}
    (h : st.status[c]? = some .connected) : stepComp S (st, fl) c = (st, fl) := by
  simp [stepComp, h]

theorem stepComp_none {S : Spec} {st : LState} {fl : Flags} {c : Nat}
    (h : st.status[c]? = none) : stepComp S (st, fl) c = (st, fl) := by
  simp [stepComp, h]

theorem stepComp_ping {S : Spec} {st : LState} {fl : Flags} {c : Nat}
    (h : st.status[c]? = some .initialized) : stepComp S (st, fl) c =
      ({ st with status := st.status.set c .connecting, log := st.log ++ [⟨c, .connecting, []⟩] }, ⟨true, true⟩) := by
  simp [stepComp, h]

theorem stepComp_call {S : Spec} {st : LState} {fl : Flags} {c : Nat} {s : Status} {cs : CompSpec}
    (h : st.status[c]? = some s) (h1 : s ≠ .connected) (h2 : s ≠ .initialized) (hc : S.comps[c]? = some cs) :
    stepComp S (st, fl) c =
     ({ done := callDone S c cs st.done st.cache,
        cache := callCache S c cs st.done st.cache,
        status := st.status.set c (callStatus c cs st.done (callDone S c cs st.done st.cache)),
        log := st.log ++ [⟨c, callStatus c cs st.done (callDone S c cs st.done st.cache),
                            newItems st.done (callDone S c cs st.done st.cache)⟩] },
      ⟨fl.unconnected || callStatus c cs st.done (callDone S c cs st.done st.cache) != .connected,
       fl.progress || callStatus c cs st.done (callDone S c cs st.done st.cache) != .idle⟩) := by
  cases s <;> simp_all [stepComp]

theorem stepComp_nocomp {S : Spec} {st : LState} {fl : Flags} {c : Nat} {s : Status}
    (h : st.status[c]? = some s) (h1 : s ≠ .connected) (h2 : s ≠ .initialized) (hc : S.comps[c]? = none) :
    stepComp S (st, fl) c = (st, fl) := by
  cases s <;> simp_all [stepComp]

end Finam.Connect

namespace Finam.Connect

/-- loop invariant -/
structure LInv (S : Spec) (st : LState) : Prop where
  just : Justified S st.done
  cinv : CInv S st.done st.cache
  init : ∀ x ∈ initDone S, x ∈ st.done
  len : st.status.length = S.comps.length
  conn : ∀ c, st.status[c]? = some .connected → ∀ x ∈ items S c, x ∈ st.done

def pingState (st : LState) (c : Nat) : LState :=
  { st with status := st.status.set c .connecting, log := st.log ++ [⟨c, .connecting, []⟩] }

def callState (S : Spec) (st : LState) (c : Nat) (cs : CompSpec) : LState :=
  { done := callDone S c cs st.done st.cache,
    cache := callCache S c cs st.done st.cache,
    status := st.status.set c (callStatus c cs st.done (callDone S c cs st.done st.cache)),
    log := st.log ++ [⟨c, callStatus c cs st.done (callDone S c cs st.done st.cache),
                        newItems st.done (callDone S c cs st.done st.cache)⟩] }

/-- the three things a step of the component loop can be -/
theorem stepComp_cases (S : Spec) (st : LState) (fl : Flags) (c : Nat)
    (hlen : st.status.length = S.comps.length) :
    (stepComp S (st, fl) c = (st, fl) ∧ (st.status[c]? = some .connected ∨ S.comps.length ≤ c)) ∨
    (st.status[c]? = some .initialized ∧ stepComp S (st, fl) c = (pingState st c, ⟨true, true⟩)) ∨
    (∃ s cs, st.status[c]? = some s ∧ s ≠ .connected ∧ s ≠ .initialized ∧ S.comps[c]? = some cs ∧
      stepComp S (st, fl) c = (callState S st c cs,
        ⟨fl.unconnected || callStatus c cs st.done (callDone S c cs st.done st.cache) != .connected,
         fl.progress || callStatus c cs st.done (callDone S c cs st.done st.cache) != .idle⟩)) := by
  cases h : st.status[c]? with
  | none =>
    refine Or.inl ⟨stepComp_none h, Or.inr ?_⟩
    have := List.getElem?_eq_none_iff.mp h
    omega
  | some s =>
    have hlt : c < S.comps.length := by
      rcases List.getElem?_eq_some_iff.mp h with ⟨hl, _⟩; omega
    have hcs : S.comps[c]? = some S.comps[c] := List.getElem?_eq_getElem hlt
    by_cases h1 : s = .connected
    · subst h1; exact Or.inl ⟨stepComp_connected h, Or.inl rfl⟩
    · by_cases h2 : s = .initialized
      · subst h2; exact Or.inr (Or.inl ⟨rfl, stepComp_ping h⟩)
      · exact Or.inr (Or.inr ⟨s, _, rfl, h1, h2, hcs, stepComp_call h h1 h2 hcs⟩)

theorem stepComp_linv {S : Spec} {st : LState} (hi : LInv S st) (fl : Flags) (c : Nat) :
    LInv S (stepComp S (st, fl) c).1 := by
  rcases stepComp_cases S st fl c hi.len with ⟨e, _⟩ | ⟨hs, e⟩ | ⟨s, cs, hs, h1, h2, hc, e⟩
  · rw [e]; exact hi
  · rw [e]
    refine ⟨hi.just, hi.cinv, hi.init, by simp [pingState, hi.len], ?_⟩
    intro c' hc'
    simp only [pingState, List.getElem?_set] at hc'
    split at hc'
    · split at hc' <;> simp at hc'
    · exact hi.conn c' hc'
  · rw [e]
    have hmono := callDone_mono S c cs st.done st.cache
    refine ⟨callDone_justified hc hi.just hi.cinv, call_cinv hc hi.cinv, fun x hx => hmono x (hi.init x hx),
      by simp [callState, hi.len], ?_⟩
    intro c' hc'
    simp only [callState, List.getElem?_set] at hc'
    split at hc'
    · rename_i hcc
      subst hcc
      split at hc'
      · simp only [Option.some.injEq] at hc'
        rw [items_eq hc]
        exact (callStatus_connected_iff c cs _ _).mp hc'
      · cases hc'
    · intro x hx; exact hmono x (hi.conn c' hc' x hx)

theorem fold_linv {S : Spec} (order : List Nat) : ∀ (st : LState) (fl : Flags), LInv S st →
    LInv S (order.foldl (stepComp S) (st, fl)).1 := by
  induction order with
  | nil => intro st fl h; exact h
  | cons c rest ih =>
    intro st fl h
    simp only [List.foldl_cons]
    exact ih _ _ (stepComp_linv h fl c)

theorem stepComp_status_other {S : Spec} {st : LState} (hlen : st.status.length = S.comps.length) (fl : Flags)
    {c c' : Nat} (hne : c' ≠ c) : (stepComp S (st, fl) c').1.status[c]? = st.status[c]? := by
  rcases stepComp_cases S st fl c' hlen with ⟨e, _⟩ | ⟨_, e⟩ | ⟨s, cs, _, _, _, _, e⟩
  · rw [e]
  · rw [e]; simp [pingState, hne]
  · rw [e]; simp [callState, hne]

theorem stepComp_keeps_connected {S : Spec} {st : LState} (hlen : st.status.length = S.comps.length) (fl : Flags)
    {c : Nat} (c' : Nat) (h : st.status[c]? = some .connected) :
    (stepComp S (st, fl) c').1.status[c]? = some .connected := by
  by_cases hne : c' = c
  · subst hne; rw [stepComp_connected h]; exact h
  · rw [stepComp_status_other hlen fl hne]; exact h

theorem fold_keeps_connected {S : Spec} (order : List Nat) : ∀ (st : LState) (fl : Flags), LInv S st →
    ∀ c : Nat, st.status[c]? = some Status.connected →
      (order.foldl (stepComp S) (st, fl)).1.status[c]? = some Status.connected := by
  induction order with
  | nil => intro st fl _ c h; exact h
  | cons c' rest ih =>
    intro st fl hi c h
    simp only [List.foldl_cons]
    exact ih _ _ (stepComp_linv hi fl c') c (stepComp_keeps_connected hi.len fl c' h)

theorem fold_status_notin {S : Spec} (order : List Nat) : ∀ (st : LState) (fl : Flags), LInv S st →
    ∀ c : Nat, c ∉ order → (order.foldl (stepComp S) (st, fl)).1.status[c]? = st.status[c]? := by
  induction order with
  | nil => intro st fl _ c _; rfl
  | cons c' rest ih =>
    intro st fl hi c hn
    simp only [List.foldl_cons]
    have h1 : c' ≠ c := fun e => hn (by simp [e])
    have h2 : c ∉ rest := fun e => hn (List.mem_cons_of_mem _ e)
    rw [ih _ _ (stepComp_linv hi fl c') c h2, stepComp_status_other hi.len fl h1]

/-! ### an iteration in which every listed component ends up connected -/

theorem fold_all_connected {S : Spec} (order : List Nat) : ∀ (st : LState) (fl : Flags), LInv S st →
    (order.foldl (stepComp S) (st, fl)).2.unconnected = false →
    fl.unconnected = false ∧ ∀ c ∈ order, c < S.comps.length →
      (order.foldl (stepComp S) (st, fl)).1.status[c]? = some .connected := by
  induction order with
  | nil => intro st fl _ h; exact ⟨h, fun c hc => by cases hc⟩
  | cons c rest ih =>
    intro st fl hi h
    simp only [List.foldl_cons] at h ⊢
    have hi1 := stepComp_linv hi fl c
    obtain ⟨h1, hrest⟩ := ih (stepComp S (st, fl) c).1 (stepComp S (st, fl) c).2 hi1 h
    have key : fl.unconnected = false ∧ (c < S.comps.length → (stepComp S (st, fl) c).1.status[c]? = some .connected) := by
      rcases stepComp_cases S st fl c hi.len with ⟨e, hs⟩ | ⟨_, e⟩ | ⟨s, cs, hs, _, _, hc, e⟩
      · rw [e] at h1 ⊢
        refine ⟨h1, fun hlt => ?_⟩
        rcases hs with hs | hs
        · exact hs
        · omega
      · rw [e] at h1; cases h1
      · rw [e] at h1 ⊢
        simp only [Bool.or_eq_false_iff, bne_eq_false_iff_eq] at h1
        refine ⟨h1.1, fun _ => ?_⟩
        have hl : c < st.status.length := by
          rcases List.getElem?_eq_some_iff.mp hs with ⟨hl, _⟩; exact hl
        simp [callState, hl, h1.2]
    refine ⟨key.1, ?_⟩
    intro c' hc' hlt
    rcases List.mem_cons.mp hc' with e | e
    · subst e
      exact fold_keeps_connected rest _ _ hi1 c' (key.2 hlt)
    · exact hrest c' e hlt

/-! ### an iteration without progress -/

/-- component `c` is connected, or idle with an outstanding item and nothing enabled -/
def Stalled (S : Spec) (st : LState) (c : Nat) : Prop :=
  st.status[c]? = some .connected ∨
  (st.status[c]? = some .idle ∧ (¬ ∀ x ∈ items S c, x ∈ st.done) ∧
    ∀ x ∈ items S c, x ∉ st.done → ¬ ∀ p ∈ pre S x, p ∈ st.done)

theorem fold_stall {S : Spec} (order : List Nat) : ∀ (st : LState) (fl : Flags), LInv S st →
    (order.foldl (stepComp S) (st, fl)).2.progress = false →
    fl.progress = false ∧ (order.foldl (stepComp S) (st, fl)).1.done = st.done ∧
    ∀ c ∈ order, c < S.comps.length → Stalled S (order.foldl (stepComp S) (st, fl)).1 c := by
  induction order with
  | nil => intro st fl _ h; exact ⟨h, rfl, fun c hc => by cases hc⟩
  | cons c rest ih =>
    intro st fl hi h
    simp only [List.foldl_cons] at h ⊢
    have hi1 := stepComp_linv hi fl c
    obtain ⟨h1, hdone, hrest⟩ := ih (stepComp S (st, fl) c).1 (stepComp S (st, fl) c).2 hi1 h
    -- what the step for `c` itself did
    have key : fl.progress = false ∧ (stepComp S (st, fl) c).1.done = st.done ∧
        (c < S.comps.length → Stalled S (stepComp S (st, fl) c).1 c) := by
      rcases stepComp_cases S st fl c hi.len with ⟨e, hs⟩ | ⟨_, e⟩ | ⟨s, cs, hs, _, _, hc, e⟩
      · rw [e] at h1 ⊢
        refine ⟨h1, rfl, fun hlt => Or.inl ?_⟩
        rcases hs with hs | hs
        · exact hs
        · omega
      · rw [e] at h1; cases h1
      · rw [e] at h1 ⊢
        simp only [Bool.or_eq_false_iff, bne_eq_false_iff_eq] at h1
        obtain ⟨hfl, hidle⟩ := h1
        have hidle' := (callStatus_idle_iff c cs _ _).mp hidle
        have hlen : (callDone S c cs st.done st.cache).length = st.done.length := by
          have := run_length S (callItems c cs (callCache S c cs st.done st.cache)) st.done
          rw [← callDone_eq] at this
          omega
        have hd : callDone S c cs st.done st.cache = st.done := by
          rw [callDone_eq] at hlen ⊢; exact (run_stall S _ _ hlen).1
        have hl : c < st.status.length := by
          rcases List.getElem?_eq_some_iff.mp hs with ⟨hl, _⟩; exact hl
        refine ⟨hfl, hd, fun _ => Or.inr ⟨?_, ?_, ?_⟩⟩
        · simp [callState, hl, hidle]
        · simp only [callState, items_eq hc]; exact hidle'.1
        · simp only [callState, items_eq hc, hd]
          exact call_stall hc hi.just hi.cinv hi.init hlen
    refine ⟨key.1, hdone.trans key.2.1, ?_⟩
    intro c' hc' hlt
    by_cases hin : c' ∈ rest
    · exact hrest c' hin hlt
    · rcases List.mem_cons.mp hc' with e | e
      · subst e
        have hst := fold_status_notin rest _ (stepComp S (st, fl) c').2 hi1 c' hin
        have hk := key.2.2 hlt
        unfold Stalled at hk ⊢
        rw [hst, hdone]
        exact hk
      · exact absurd e hin

end Finam.Connect

namespace Finam.Connect

/-! ### the termination measure -/

def Status.weight : Status → Nat
  | .initialized => 2
  | .connected => 0
  | _ => 1

def sumW : List Status → Nat
  | [] => 0
  | s :: l => s.weight + sumW l

theorem sumW_set : ∀ (l : List Status) (i : Nat) (a s : Status), l[i]? = some s →
    sumW (l.set i a) + s.weight = sumW l + a.weight := by
  intro l
  induction l with
  | nil => intro i a s h; simp at h
  | cons b l ih =>
    intro i a s h
    cases i with
    | zero => simp at h; subst h; simp [sumW]; omega
    | succ i =>
      simp only [List.getElem?_cons_succ] at h
      have := ih i a s h
      simp only [List.set_cons_succ, sumW]; omega

theorem sumW_replicate_init (n : Nat) : sumW (List.replicate n .initialized) = 2 * n := by
  induction n with
  | zero => rfl
  | succ n ih => simp only [List.replicate_succ, sumW, ih, Status.weight]; omega

/-- number of declared items not exchanged yet -/
def undone (S : Spec) (d : List Item) : Nat := (allItems S).countP fun x => !d.contains x

theorem countP_lt_of_mem {α} (p q : α → Bool) : ∀ (l : List α), (∀ x ∈ l, p x = true → q x = true) →
    ∀ x ∈ l, q x = true → p x = false → l.countP p < l.countP q := by
  intro l
  induction l with
  | nil => intro _ x hx; cases hx
  | cons y l ih =>
    intro h x hx hq hp
    have hmono : l.countP p ≤ l.countP q :=
      List.countP_mono_left fun z hz => h z (List.mem_cons_of_mem _ hz)
    rcases List.mem_cons.mp hx with e | e
    · subst e
      have e1 : (x :: l).countP p = l.countP p := by simp [hp]
      have e2 : (x :: l).countP q = l.countP q + 1 := by simp [hq]
      omega
    · have := ih (fun z hz => h z (List.mem_cons_of_mem _ hz)) x e hq hp
      have hy := h y List.mem_cons_self
      simp only [List.countP_cons]
      cases hpy : p y with
      | false => simp; omega
      | true => simp [hy hpy]; omega

theorem undone_mono (S : Spec) {d d' : List Item} (h : ∀ x ∈ d, x ∈ d') : undone S d' ≤ undone S d := by
  unfold undone
  apply List.countP_mono_left
  intro x _ hx
  simp only [Bool.not_eq_true', List.contains_eq_mem, decide_eq_false_iff_not] at hx ⊢
  exact fun hd => hx (h x hd)

theorem undone_lt (S : Spec) {d d' : List Item} (h : ∀ x ∈ d, x ∈ d') {x : Item} (hx : x ∈ allItems S)
    (h1 : x ∉ d) (h2 : x ∈ d') : undone S d' < undone S d := by
  unfold undone
  apply countP_lt_of_mem _ _ _ _ x hx
  · simpa using h1
  · simpa using h2
  · intro y _ hy
    simp only [Bool.not_eq_true', List.contains_eq_mem, decide_eq_false_iff_not] at hy ⊢
    exact fun hd => hy (h y hd)

theorem undone_le_length (S : Spec) (d : List Item) : undone S d ≤ (allItems S).length :=
  List.countP_le_length

def phi (S : Spec) (st : LState) : Nat := undone S st.done + sumW st.status

/-- a step never increases the measure, and decreases it when it is the first to report progress -/
theorem stepComp_phi {S : Spec} {st : LState} (hi : LInv S st) (fl : Flags) (c : Nat) :
    phi S (stepComp S (st, fl) c).1 +
      (if (stepComp S (st, fl) c).2.progress = true ∧ fl.progress = false then 1 else 0) ≤ phi S st := by
  rcases stepComp_cases S st fl c hi.len with ⟨e, _⟩ | ⟨hs, e⟩ | ⟨s, cs, hs, h1, h2, hc, e⟩
  · rw [e]
    have : ¬ (fl.progress = true ∧ fl.progress = false) := by
      intro h; rw [h.1] at h; cases h.2
    simp [this]
  · rw [e]
    have := sumW_set st.status c .connecting .initialized hs
    simp only [phi, pingState, Status.weight] at this ⊢
    split <;> omega
  · rw [e]
    have hw := sumW_set st.status c (callStatus c cs st.done (callDone S c cs st.done st.cache)) s hs
    have hsw : s.weight = 1 := by cases s <;> simp_all [Status.weight]
    have hmono := callDone_mono S c cs st.done st.cache
    have hu := undone_mono S hmono
    simp only [phi, callState]
    cases hst : callStatus c cs st.done (callDone S c cs st.done st.cache) with
    | initialized => exact absurd hst (callStatus_ne_initialized _ _ _ _)
    | connected =>
      rw [hst] at hw; simp only [Status.weight] at hw
      split <;> omega
    | idle =>
      rw [hst] at hw; simp only [Status.weight] at hw
      have : ¬ ((fl.progress || Status.idle != Status.idle) = true ∧ fl.progress = false) := by
        intro h; cases hp : fl.progress <;> simp [hp] at h
      simp only [this, if_false]; omega
    | connecting =>
      rw [hst] at hw; simp only [Status.weight] at hw
      have hgrow := ((callStatus_connecting_iff c cs _ _).mp hst).2
      rw [callDone_eq] at hgrow
      obtain ⟨x, hx, hnd, hd'⟩ := run_grew S _ _ hgrow
      have hxa := (callItems_ok hc hi.cinv x hx).1
      have := undone_lt S hmono hxa hnd (by rw [callDone_eq]; exact hd')
      split <;> omega

theorem fold_phi {S : Spec} (order : List Nat) : ∀ (st : LState) (fl : Flags), LInv S st →
    phi S (order.foldl (stepComp S) (st, fl)).1 +
      (if (order.foldl (stepComp S) (st, fl)).2.progress = true ∧ fl.progress = false then 1 else 0) ≤ phi S st := by
  induction order with
  | nil =>
    intro st fl _
    have : ¬ (fl.progress = true ∧ fl.progress = false) := by
      intro h; rw [h.1] at h; cases h.2
    simp [this]
  | cons c rest ih =>
    intro st fl hi
    simp only [List.foldl_cons]
    have h1 := stepComp_phi hi fl c
    have h2 := ih (stepComp S (st, fl) c).1 (stepComp S (st, fl) c).2 (stepComp_linv hi fl c)
    have key : ∀ (A B D : Nat) (p0 p1 pf : Bool), B + (if p1 = true ∧ p0 = false then 1 else 0) ≤ A →
        D + (if pf = true ∧ p1 = false then 1 else 0) ≤ B →
        D + (if pf = true ∧ p0 = false then 1 else 0) ≤ A := by
      intro A B D p0 p1 pf h1 h2
      cases p0 <;> cases p1 <;> cases pf <;> simp at * <;> omega
    exact key _ _ _ _ _ _ h1 h2

theorem iter_linv {S : Spec} (order : List Nat) {st : LState} (hi : LInv S st) : LInv S (iter S order st).1 :=
  fold_linv order st _ hi

theorem iter_phi {S : Spec} (order : List Nat) {st : LState} (hi : LInv S st)
    (hp : (iter S order st).2.progress = true) : phi S (iter S order st).1 < phi S st := by
  have := fold_phi order st ⟨false, false⟩ hi
  unfold iter at hp ⊢
  simp only [hp, and_self, if_true] at this
  omega

theorem loop_fuel {S : Spec} (order : List Nat) : ∀ (fuel : Nat) (st : LState), LInv S st → phi S st < fuel →
    ∀ st', connectLoop S order fuel st ≠ .outOfFuel st' := by
  intro fuel
  induction fuel with
  | zero => intro st _ h; omega
  | succ n ih =>
    intro st hi h st'
    unfold connectLoop
    split
    · simp
    · split
      · simp
      · rename_i _ hp
        have hp' : (iter S order st).2.progress = true := by
          cases h' : (iter S order st).2.progress with
          | true => rfl
          | false => exact absurd h' hp
        have := iter_phi order hi hp'
        exact ih _ (iter_linv order hi) (by omega) st'

/-! ### the initial state -/

theorem init_linv (S : Spec) : LInv S (initState S) where
  just := justified_of_pre_nil S _ fun _ hx => initDone_spec hx
  cinv := by intro x hx; cases hx
  init := fun _ hx => hx
  len := by simp [initState]
  conn := by
    intro c h
    simp only [initState, List.getElem?_replicate] at h
    split at h <;> simp at h

theorem phi_init_lt_bound (S : Spec) : phi S (initState S) < bound S := by
  have := undone_le_length S (initDone S)
  simp only [phi, initState, sumW_replicate_init, bound]
  omega

end Finam.Connect

namespace Finam.Connect

/-! ### more on iterations without progress; the loop as a whole -/

theorem fold_noprogress_keeps_idle {S : Spec} (order : List Nat) : ∀ (st : LState) (fl : Flags), LInv S st →
    (order.foldl (stepComp S) (st, fl)).2.progress = false →
    ∀ c : Nat, st.status[c]? = some Status.idle →
      (order.foldl (stepComp S) (st, fl)).1.status[c]? = some Status.idle := by
  induction order with
  | nil => intro st fl _ _ c h; exact h
  | cons c' rest ih =>
    intro st fl hi hp c h
    simp only [List.foldl_cons] at hp ⊢
    have hi1 := stepComp_linv hi fl c'
    apply ih _ _ hi1 hp
    have hp1 : (stepComp S (st, fl) c').2.progress = false := (fold_stall rest _ _ hi1 hp).1
    by_cases hne : c' = c
    · subst hne
      rcases stepComp_cases S st fl c' hi.len with ⟨e, _⟩ | ⟨hs, _⟩ | ⟨s, cs, hs, _, _, _, e⟩
      · rw [e]; exact h
      · rw [h] at hs; cases hs
      · rw [e] at hp1 ⊢
        simp only [Bool.or_eq_false_iff, bne_eq_false_iff_eq] at hp1
        have hl : c' < st.status.length := by
          rcases List.getElem?_eq_some_iff.mp hs with ⟨hl, _⟩; exact hl
        simp [callState, hl, hp1.2]
    · rw [stepComp_status_other hi.len fl hne]; exact h

/-- in an iteration without progress that ends with every listed component connected, no step
    raised the `unconnected` flag -/
theorem fold_stall_flag {S : Spec} (order : List Nat) : ∀ (st : LState) (fl : Flags), LInv S st →
    (order.foldl (stepComp S) (st, fl)).2.progress = false →
    (∀ c ∈ order, c < S.comps.length → (order.foldl (stepComp S) (st, fl)).1.status[c]? = some .connected) →
    (order.foldl (stepComp S) (st, fl)).2.unconnected = fl.unconnected := by
  induction order with
  | nil => intro st fl _ _ _; rfl
  | cons c rest ih =>
    intro st fl hi hp hall
    simp only [List.foldl_cons] at hp hall ⊢
    have hi1 := stepComp_linv hi fl c
    have h2 : (List.foldl (stepComp S) (stepComp S (st, fl) c) rest).2.unconnected =
        (stepComp S (st, fl) c).2.unconnected :=
      ih (stepComp S (st, fl) c).1 (stepComp S (st, fl) c).2 hi1 hp
        (fun c' hc' => hall c' (List.mem_cons_of_mem _ hc'))
    rw [h2]
    have hp1 : (stepComp S (st, fl) c).2.progress = false := (fold_stall rest _ _ hi1 hp).1
    rcases stepComp_cases S st fl c hi.len with ⟨e, _⟩ | ⟨_, e⟩ | ⟨s, cs, hs, _, _, hc, e⟩
    · rw [e]
    · rw [e] at hp1; cases hp1
    · have hp1' := hp1
      rw [e] at hp1'
      simp only [Bool.or_eq_false_iff, bne_eq_false_iff_eq] at hp1'
      have hl : c < st.status.length := by
        rcases List.getElem?_eq_some_iff.mp hs with ⟨hl, _⟩; exact hl
      have hidle : (stepComp S (st, fl) c).1.status[c]? = some Status.idle := by
        rw [e]; simp [callState, hl, hp1'.2]
      have : (List.foldl (stepComp S) (stepComp S (st, fl) c) rest).1.status[c]? = some Status.idle :=
        fold_noprogress_keeps_idle rest (stepComp S (st, fl) c).1 (stepComp S (st, fl) c).2 hi1 hp c hidle
      rw [hall c List.mem_cons_self (comp_lt hc)] at this
      cases this

theorem loop_linv {S : Spec} (order : List Nat) : ∀ (fuel : Nat) (st : LState), LInv S st →
    LInv S (connectLoop S order fuel st).state := by
  intro fuel
  induction fuel with
  | zero => intro st h; exact h
  | succ n ih =>
    intro st h
    unfold connectLoop
    split
    · exact iter_linv order h
    · split
      · exact iter_linv order h
      · exact ih _ (iter_linv order h)

theorem loop_ok {S : Spec} (order : List Nat) : ∀ (fuel : Nat) (st st' : LState), LInv S st →
    connectLoop S order fuel st = .ok st' →
    LInv S st' ∧ ∀ c ∈ order, c < S.comps.length → st'.status[c]? = some .connected := by
  intro fuel
  induction fuel with
  | zero => intro st st' _ h; simp [connectLoop] at h
  | succ n ih =>
    intro st st' hi h
    unfold connectLoop at h
    split at h
    · rename_i hu
      simp only [Outcome.ok.injEq] at h
      subst h
      exact ⟨iter_linv order hi, (fold_all_connected order st _ hi hu).2⟩
    · split at h
      · cases h
      · exact ih _ _ (iter_linv order hi) h

theorem loop_circular {S : Spec} (order : List Nat) : ∀ (fuel : Nat) (st st' : LState) (names : List Nat),
    LInv S st → connectLoop S order fuel st = .circular st' names →
    LInv S st' ∧ names = unconnectedOf order st' ∧
    (∀ c ∈ order, c < S.comps.length → Stalled S st' c) ∧
    ¬ (∀ c ∈ order, c < S.comps.length → st'.status[c]? = some .connected) := by
  intro fuel
  induction fuel with
  | zero => intro st st' names _ h; simp [connectLoop] at h
  | succ n ih =>
    intro st st' names hi h
    unfold connectLoop at h
    split at h
    · cases h
    · rename_i hu
      split at h
      · rename_i hp
        simp only [Outcome.circular.injEq] at h
        obtain ⟨rfl, rfl⟩ := h
        refine ⟨iter_linv order hi, rfl, (fold_stall order st _ hi hp).2.2, ?_⟩
        intro hall
        have := fold_stall_flag order st ⟨false, false⟩ hi hp hall
        exact hu this
      · exact ih _ _ _ (iter_linv order hi) h

end Finam.Connect

namespace Finam.Connect

/-! ## Layer B: links during the connect phase -/

def lastTime (l : List (Entry Int)) : Option Int := l.getLast?.map (·.t)

/-- what the connect phase needs to know about an adapter state, relative to what the output holds:
    caching adapters have buffered every publication, `DelayToPush` has seen the newest one, delays
    are non-negative -/
def Good (out : List (Entry Int)) (a : AdSt) : Prop :=
  match a.kind with
  | .cache => a.buf = out
  | .dpush => a.pushTime = lastTime out
  | .dfix d => 0 ≤ d
  | .dpull _ add => 0 ≤ add
  | .pass => True

def AllGood (out : List (Entry Int)) (ch : List AdSt) : Prop := ∀ a ∈ ch, Good out a

/-- the facts about the content `out` of the output used below: it serves `v` for every request in
    `[lo, hi]`, a buffer with the same content does so too, `hi` is the newest publication, not later
    than the info time `p` -/
structure OutOk (p v lo hi : Int) (out : List (Entry Int)) : Prop where
  look : ∀ t, lo ≤ t → t ≤ hi → lookup out t = .ok v
  cache : ∀ t, lo ≤ t → t ≤ hi → cacheGet out t = .ok v
  last : lastTime out = some hi
  le : hi ≤ p

theorem dfixDelay_id {p d t : Int} (hd : 0 ≤ d) (ht : t ≤ p) : dfixDelay p d t = t := by
  unfold dfixDelay
  split
  · omega
  · omega

theorem dpullDelay_id {p add t : Int} (pulls : List Int) (ht : t ≤ p) : dpullDelay p add pulls t = t := by
  unfold dpullDelay
  split <;> omega

theorem pullChain_ok {p v lo hi : Int} {out : List (Entry Int)} (ho : OutOk p v lo hi out) :
    ∀ ch : List AdSt, AllGood out ch → ∀ t, lo ≤ t → t ≤ hi →
      ∃ ch', pullChain p out ch t = .ok (v, ch') ∧ AllGood out ch' := by
  intro ch
  induction ch with
  | nil =>
    intro _ t h1 h2
    exact ⟨[], by simp [pullChain, ho.look t h1 h2, Except.map], fun a ha => by cases ha⟩
  | cons a rest ih =>
    intro hg t h1 h2
    have hga := hg a List.mem_cons_self
    have hgr : AllGood out rest := fun b hb => hg b (List.mem_cons_of_mem _ hb)
    have htp : t ≤ p := by have := ho.le; omega
    cases hk : a.kind with
    | pass =>
      obtain ⟨ch', e, g⟩ := ih hgr t h1 h2
      refine ⟨a :: ch', by simp [pullChain, hk, e, Except.map], ?_⟩
      intro b hb
      rcases List.mem_cons.mp hb with rfl | hb
      · exact hga
      · exact g b hb
    | cache =>
      have hb : a.buf = out := by simpa [Good, hk] using hga
      exact ⟨a :: rest, by simp [pullChain, hk, hb, ho.cache t h1 h2, Except.map], hg⟩
    | dfix d =>
      have hd : 0 ≤ d := by simpa [Good, hk] using hga
      obtain ⟨ch', e, g⟩ := ih hgr t h1 h2
      refine ⟨a :: ch', by simp [pullChain, hk, dfixDelay_id hd htp, e, Except.map], ?_⟩
      intro b hb
      rcases List.mem_cons.mp hb with rfl | hb
      · exact hga
      · exact g b hb
    | dpull steps add =>
      obtain ⟨ch', e, g⟩ := ih hgr t h1 h2
      refine ⟨_ :: ch', by simp only [pullChain, hk, dpullDelay_id a.pulls htp, e, Except.map]; rfl, ?_⟩
      intro b hb
      rcases List.mem_cons.mp hb with rfl | hb
      · simpa [Good, hk] using hga
      · exact g b hb
    | dpush =>
      have hpt : a.pushTime = some hi := by
        have : a.pushTime = lastTime out := by simpa [Good, hk] using hga
        rw [this, ho.last]
      have hdel : dpushDelay p a.pushTime t = t := by
        simp only [dpushDelay, hpt]
        split
        · omega
        · rfl
      obtain ⟨ch', e, g⟩ := ih hgr t h1 h2
      refine ⟨a :: ch', by simp [pullChain, hk, hdel, e, Except.map], ?_⟩
      intro b hb
      rcases List.mem_cons.mp hb with rfl | hb
      · exact hga
      · exact g b hb

theorem lastTime_snoc (out : List (Entry Int)) (e : Entry Int) : lastTime (out ++ [e]) = some e.t := by
  simp [lastTime]

/-- a publication at `T` notifies the chain: nothing raises, and afterwards every adapter is `Good`
    for the new content -/
theorem notifyChain_ok {p v lo T : Int} {out : List (Entry Int)} (ho : OutOk p v lo T (out ++ [⟨T, v⟩]))
    (hlo : lo ≤ T) : ∀ ch : List AdSt, AllGood out ch →
      ∃ ch', notifyChain p (out ++ [⟨T, v⟩]) T ch = .ok ch' ∧ AllGood (out ++ [⟨T, v⟩]) ch' := by
  intro ch
  induction ch with
  | nil => intro _; exact ⟨[], rfl, fun a ha => by cases ha⟩
  | cons a rest ih =>
    intro hg
    have hga := hg a List.mem_cons_self
    obtain ⟨rest', e, g⟩ := ih fun b hb => hg b (List.mem_cons_of_mem _ hb)
    cases hk : a.kind with
    | cache =>
      have hb : a.buf = out := by simpa [Good, hk] using hga
      obtain ⟨rest'', e2, g2⟩ := pullChain_ok ho rest' g T hlo (Int.le_refl _)
      refine ⟨{ a with buf := a.buf ++ [⟨T, v⟩] } :: rest'', by simp [notifyChain, e, hk, e2], ?_⟩
      intro b hb'
      rcases List.mem_cons.mp hb' with rfl | hb'
      · simp [Good, hk, hb]
      · exact g2 b hb'
    | dpush =>
      refine ⟨{ a with pushTime := some T } :: rest', by simp [notifyChain, e, hk], ?_⟩
      intro b hb'
      rcases List.mem_cons.mp hb' with rfl | hb'
      · simp [Good, hk, lastTime_snoc]
      · exact g b hb'
    | pass =>
      refine ⟨a :: rest', by simp [notifyChain, e, hk], ?_⟩
      intro b hb'
      rcases List.mem_cons.mp hb' with rfl | hb'
      · simp [Good, hk]
      · exact g b hb'
    | dfix d =>
      refine ⟨a :: rest', by simp [notifyChain, e, hk], ?_⟩
      intro b hb'
      rcases List.mem_cons.mp hb' with rfl | hb'
      · simpa [Good, hk] using hga
      · exact g b hb'
    | dpull steps add =>
      refine ⟨a :: rest', by simp [notifyChain, e, hk], ?_⟩
      intro b hb'
      rcases List.mem_cons.mp hb' with rfl | hb'
      · simpa [Good, hk] using hga
      · exact g b hb'

/-- delays on a link are non-negative -/
def ChainOk (chain : List Ad) : Prop :=
  ∀ a ∈ chain, match a with
    | .dfix d => 0 ≤ d
    | .dpull _ add => 0 ≤ add
    | _ => True

theorem init_allGood {chain : List Ad} (h : ChainOk chain) : AllGood [] (chain.map AdSt.init) := by
  intro a ha
  simp only [List.mem_map] at ha
  obtain ⟨k, hk, rfl⟩ := ha
  have := h k hk
  cases k <;> simp_all [Good, AdSt.init, lastTime]

theorem outOk_single (p v s : Int) (h : s ≤ p) : OutOk p v s s [⟨s, v⟩] where
  look := by
    intro t h1 h2
    have : t = s := by omega
    subst this
    simp [lookup, lastT]
  cache := by
    intro t h1 h2
    have : t = s := by omega
    subst this
    simp [cacheGet, lastT, bufValue]
  last := by simp [lastTime]
  le := h

theorem outOk_double (p v s : Int) (_h : s < p) : OutOk p v s p [⟨s, v⟩, ⟨p, v⟩] where
  look := by
    intro t h1 h2
    simp only [lookup, lastT]
    rw [if_neg (by omega)]
    split
    · rfl
    · simp only [lookupAux]
      rw [if_neg (by omega)]
      split
      · rfl
      · split <;> rfl
  cache := by
    intro t h1 h2
    have hn : ¬ (t < s ∨ t > p) := by omega
    simp only [cacheGet, lastT, hn, if_false, bufValue]
    split <;> rfl
  last := by simp [lastTime]
  le := Int.le_refl _

/-- **the initial push(es) raise nothing on any link** (any chain of pass-through, caching and delay
    adapters with non-negative delays, producer not earlier than the composition start) -/
theorem linkInit_ok {chain : List Ad} {s p : Int} (v : Int) (hsp : s ≤ p) (hc : ChainOk chain) :
    ∃ ch, linkInit chain s p v = .ok ch ∧ AllGood (pushEntries s p v) ch := by
  unfold linkInit
  by_cases h : p = s
  · subst h
    have := notifyChain_ok (out := []) (outOk_single p v p (Int.le_refl _)) (Int.le_refl _) _ (init_allGood hc)
    simpa [pushEntries, pushTimes] using this
  · have hlt : s < p := by omega
    obtain ⟨ch1, e1, g1⟩ := notifyChain_ok (out := []) (outOk_single p v s hsp) (Int.le_refl _) _ (init_allGood hc)
    obtain ⟨ch2, e2, g2⟩ := notifyChain_ok (out := [⟨s, v⟩]) (outOk_double p v s hlt) hsp ch1 g1
    simp only [List.nil_append] at e1
    simp only [List.cons_append, List.nil_append] at e2 g2
    refine ⟨ch2, ?_, ?_⟩
    · simp only [ne_eq, h, not_false_eq_true, if_true, e1, e2]
    · simpa [pushEntries, pushTimes, h] using g2

/-- **the initial pull delivers the producer's initial value** on any such link -/
theorem linkPull_ok {chain : List Ad} {s p : Int} (v : Int) (hsp : s ≤ p) (hc : ChainOk chain) :
    linkPull chain s p v = .ok v := by
  obtain ⟨ch, e, g⟩ := linkInit_ok v hsp hc
  unfold linkPull
  rw [e]
  by_cases h : p = s
  · subst h
    have ho : OutOk p v p p (pushEntries p p v) := by
      simpa [pushEntries, pushTimes] using outOk_single p v p (Int.le_refl _)
    obtain ⟨ch', e', _⟩ := pullChain_ok ho ch g p (Int.le_refl _) (Int.le_refl _)
    simp [e', Except.map]
  · have ho : OutOk p v s p (pushEntries s p v) := by
      simpa [pushEntries, pushTimes, h] using outOk_double p v s (by omega)
    obtain ⟨ch', e', _⟩ := pullChain_ok ho ch g s (Int.le_refl _) hsp
    simp [e', Except.map]

end Finam.Connect
