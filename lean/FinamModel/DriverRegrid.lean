import FinamModel.DriverUtil
import FinamModel.Regrid
/-! Line-protocol handler for the regridding model (C16). -/
namespace Finam.Driver.C16
open Lean Finam.Regrid Finam.Driver

def asPt (j : Json) : Pt := (arr j).map asRat
def getPts (j : Json) (k : String) : List Pt := (getArr j k).map asPt
def getBools (j : Json) (k : String) : List Bool := (getArr j k).map asBool
def getRats (j : Json) (k : String) : List Rat := (getArr j k).map asRat

def jCell : Cell Rat → Json
  | .masked => Json.str "m"
  | .nan => Json.str "nan"
  | .val v => jRat v

def parseReq (j : Json) : MaskReq :=
  match j.getObjVal? "req" with
  | .ok (Json.str "none") => .none
  | .ok (Json.arr a) => .explicit (a.toList.map asBool)
  | _ => .flex

def affine (coef : List Rat) (q : Pt) : Rat :=
  match coef with
  | [] => 0
  | c0 :: cs => c0 + (List.zipWith (· * ·) cs q).sum

/-- minimal squared distance from `q` to the unmasked source locations -/
def minDist (cs : List Pt) (q : Pt) : Json :=
  match cs with
  | [] => Json.null
  | p :: ps => jRat (ps.foldl (fun b x => if dist2 x q < b then dist2 x q else b) (dist2 p q))

/-- C16: `kind` = "nearest" | "linear".  Source `sp sm sv`, target `tp`, `tm` (nearest: output mask),
    `req` (linear: requested mask), `fill`, `inside` (per target location: inside the hull of the
    unmasked source locations, as reported by the harness), `aff` (coefficients of the affine field). -/
def handle (j : Json) : Json :=
  let sp := getPts j "sp"
  let sm := getBools j "sm"
  let sv := getRats j "sv"
  let tp := getPts j "tp"
  let cs := compress sm sp
  if getStr j "kind" == "linear" then
    let inside := getBools j "inside"
    let coef := getRats j "aff"
    let ι : List Pt → List Rat → Pt → Option Rat := fun _ _ q =>
      match (tp.zip inside).find? (fun x => x.1 == q) with
      | some (_, true) => some (affine coef q)
      | _ => none
    let r := regridLinear ι 0 argminFirst (getBool j "fill") sp sm sv tp (parseReq j)
    Json.mkObj [("res", jRes (jList jCell) r), ("dmin", jList (minDist cs) tp)]
  else
    let tm := getBools j "tm"
    let r := regridNearest argminFirst sp sm sv tp tm
    Json.mkObj [("res", jRes (jList jCell) r), ("dmin", jList (minDist cs) tp)]

end Finam.Driver.C16
