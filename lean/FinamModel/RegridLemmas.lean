import FinamModel.Regrid
/-! Helper lemmas for the regridding model: distances, compress / scatter index maps. -/
namespace Finam.Regrid
open Finam

/-! ### squared distance -/

theorem sq_nonneg (a : Rat) : 0 ≤ a * a := by
  rcases (Rat.le_total : 0 ≤ a ∨ a ≤ 0) with h | h
  · exact Rat.mul_nonneg h h
  · have h1 : 0 ≤ -a := by grind
    have h2 := Rat.mul_nonneg h1 h1
    grind

theorem dist2_nonneg : ∀ a b : Pt, 0 ≤ dist2 a b := by
  intro a
  induction a with
  | nil => intro b; simp [dist2]
  | cons x xs ih =>
    intro b
    cases b with
    | nil => simp [dist2]
    | cons y ys => simp only [dist2]; exact Rat.add_nonneg (sq_nonneg _) (ih ys)

theorem dist2_self : ∀ a : Pt, dist2 a a = 0 := by
  intro a
  induction a with
  | nil => rfl
  | cons x xs ih => simp only [dist2, ih]; grind

theorem dist2_eq_zero : ∀ a b : Pt, a.length = b.length → dist2 a b = 0 → a = b := by
  intro a
  induction a with
  | nil => intro b h _; cases b with
    | nil => rfl
    | cons y ys => simp at h
  | cons x xs ih =>
    intro b h h0
    cases b with
    | nil => simp at h
    | cons y ys =>
      simp only [dist2] at h0
      have h1 := sq_nonneg (x - y)
      have h2 := dist2_nonneg xs ys
      have e1 : (x - y) * (x - y) = 0 := by grind
      have e2 : dist2 xs ys = 0 := by grind
      have e3 : x = y := by
        rcases Rat.mul_eq_zero.mp e1 with h | h <;> grind
      rw [e3, ih ys (by simpa using h) e2]

/-! ### compress -/

theorem compress_nil_right {α : Type} (sm : List Bool) : compress sm ([] : List α) = [] := by
  cases sm <;> rfl

/-- an element of the compressed list sits at an unmasked position of the original list; a second list
    compressed with the same mask has its companion at the same compressed position -/
theorem compress_index {α β : Type} : ∀ (sm : List Bool) (xs : List α) (ys : List β),
    sm.length = xs.length → sm.length = ys.length → ∀ (i : Nat) (x : α), (compress sm xs)[i]? = some x →
    ∃ j : Nat, sm[j]? = some false ∧ xs[j]? = some x ∧ (compress sm ys)[i]? = ys[j]? := by
  intro sm
  induction sm with
  | nil => intro xs ys _ _ i x h; simp [compress] at h
  | cons m ms ih =>
    intro xs ys h1 h2 i x h
    cases xs with
    | nil => simp at h1
    | cons a as =>
      cases ys with
      | nil => simp at h2
      | cons b bs =>
        simp only [List.length_cons, Nat.add_right_cancel_iff] at h1 h2
        cases m with
        | true =>
          simp only [compress, if_true] at h ⊢
          obtain ⟨j, e1, e2, e3⟩ := ih as bs h1 h2 i x h
          exact ⟨j + 1, by simpa using e1, by simpa using e2, by simpa using e3⟩
        | false =>
          simp only [compress, Bool.false_eq_true, if_false] at h ⊢
          cases i with
          | zero =>
            simp only [List.getElem?_cons_zero, Option.some.injEq] at h
            exact ⟨0, by simp, by simp [h], by simp⟩
          | succ i =>
            simp only [List.getElem?_cons_succ] at h ⊢
            obtain ⟨j, e1, e2, e3⟩ := ih as bs h1 h2 i x h
            exact ⟨j + 1, by simpa using e1, by simpa using e2, by simpa using e3⟩

/-- every unmasked element survives the compression -/
theorem compress_cover {α : Type} : ∀ (sm : List Bool) (xs : List α) (j : Nat) (x : α),
    sm[j]? = some false → xs[j]? = some x → x ∈ compress sm xs := by
  intro sm
  induction sm with
  | nil => intro xs j x h; simp at h
  | cons m ms ih =>
    intro xs j x h1 h2
    cases xs with
    | nil => simp at h2
    | cons a as =>
      cases j with
      | zero =>
        simp only [List.getElem?_cons_zero, Option.some.injEq] at h1 h2
        subst h1 h2
        simp [compress]
      | succ j =>
        simp only [List.getElem?_cons_succ] at h1 h2
        have := ih as j x h1 h2
        cases m <;> simp [compress, this]

theorem compress_length_eq {α β : Type} : ∀ (sm : List Bool) (xs : List α) (ys : List β),
    sm.length = xs.length → sm.length = ys.length → (compress sm xs).length = (compress sm ys).length := by
  intro sm
  induction sm with
  | nil => intro xs ys _ _; simp [compress]
  | cons m ms ih =>
    intro xs ys h1 h2
    cases xs with
    | nil => simp at h1
    | cons a as =>
      cases ys with
      | nil => simp at h2
      | cons b bs =>
        simp only [List.length_cons, Nat.add_right_cancel_iff] at h1 h2
        cases m <;> simp [compress, ih as bs h1 h2]

/-- lists that agree at the unmasked positions have the same compression -/
theorem compress_congr {α : Type} : ∀ (sm : List Bool) (xs ys : List α), xs.length = ys.length →
    (∀ j : Nat, sm[j]? = some false → xs[j]? = ys[j]?) → compress sm xs = compress sm ys := by
  intro sm
  induction sm with
  | nil => intro xs ys _ _; simp [compress]
  | cons m ms ih =>
    intro xs ys hl h
    cases xs with
    | nil => cases ys with
      | nil => rfl
      | cons b bs => simp at hl
    | cons a as =>
      cases ys with
      | nil => simp at hl
      | cons b bs =>
        simp only [List.length_cons, Nat.add_right_cancel_iff] at hl
        have hrec := ih as bs hl (fun j hj => by simpa using h (j + 1) (by simpa using hj))
        cases m with
        | true => simp [compress, hrec]
        | false =>
          have := h 0 (by simp)
          simp only [List.getElem?_cons_zero, Option.some.injEq] at this
          simp [compress, hrec, this]

theorem compress_map {α β : Type} (f : α → β) : ∀ (sm : List Bool) (xs : List α),
    compress sm (xs.map f) = (compress sm xs).map f := by
  intro sm
  induction sm with
  | nil => intro xs; simp [compress]
  | cons m ms ih =>
    intro xs
    cases xs with
    | nil => simp [compress]
    | cons a as => cases m <;> simp [compress, ih as]

theorem compress_replicate_false {α : Type} : ∀ (xs : List α), compress (List.replicate xs.length false) xs = xs := by
  intro xs
  induction xs with
  | nil => rfl
  | cons a as ih => simp [List.replicate_succ, compress, ih]

/-! ### scatter -/

/-- expanding the image of the compressed locations under the same mask: position `k` holds `masked`
    if masked, the image of location `k` otherwise -/
theorem scatter_map_compress {α β : Type} (g : β → Cell α) : ∀ (tm : List Bool) (tp : List β),
    tm.length = tp.length →
    scatter tm ((compress tm tp).map g) = some (List.zipWith (fun m q => if m then Cell.masked else g q) tm tp) := by
  intro tm
  induction tm with
  | nil => intro tp h; cases tp with
    | nil => rfl
    | cons b bs => simp at h
  | cons m ms ih =>
    intro tp h
    cases tp with
    | nil => simp at h
    | cons b bs =>
      simp only [List.length_cons, Nat.add_right_cancel_iff] at h
      cases m with
      | true => simp [compress, scatter, ih bs h]
      | false => simp [compress, scatter, ih bs h]

theorem fromCompressed_map_compress {α β : Type} (g : β → Cell α) (tm : List Bool) (tp : List β)
    (h : tm.length = tp.length) :
    fromCompressed tm ((compress tm tp).map g) =
      .ok (List.zipWith (fun m q => if m then Cell.masked else g q) tm tp) := by
  simp [fromCompressed, scatter_map_compress g tm tp h]

theorem zipWith_cell_getElem? {α β : Type} (g : β → Cell α) (tm : List Bool) (tp : List β) (k : Nat) (m : Bool) (q : β)
    (h1 : tm[k]? = some m) (h2 : tp[k]? = some q) :
    (List.zipWith (fun m q => if m then Cell.masked else g q) tm tp)[k]? = some (if m then Cell.masked else g q) := by
  simp [List.getElem?_zipWith, h1, h2]

theorem cellAt_of_getElem? {α : Type} (cv : List α) (i : Nat) (v : α) (h : cv[i]? = some v) :
    cellAt cv i = .val v := by simp [cellAt, h]

/-! ### the arg-min parameter -/

/-- specification of `KDTree(cs).query(q)[1]`: an index of a point of `cs` at minimal distance from `q` -/
def IsArgmin (nn : List Pt → Pt → Nat) : Prop :=
  ∀ cs q, cs ≠ [] → ∃ p0, cs[nn cs q]? = some p0 ∧ ∀ p ∈ cs, dist2 p0 q ≤ dist2 p q

theorem argminFrom_spec (q : Pt) : ∀ (ps : List Pt) (pre : List Pt) (best : Nat) (p0 : Pt),
    (pre ++ ps)[best]? = some p0 → best < pre.length → (∀ p ∈ pre, dist2 p0 q ≤ dist2 p q) →
    ∃ p1, (pre ++ ps)[argminFrom q ps pre.length best (dist2 p0 q)]? = some p1 ∧
      ∀ p ∈ pre ++ ps, dist2 p1 q ≤ dist2 p q := by
  intro ps
  induction ps with
  | nil =>
    intro pre best p0 h _ hmin
    exact ⟨p0, by simpa [argminFrom] using h, by simpa using hmin⟩
  | cons p ps ih =>
    intro pre best p0 h hb hmin
    simp only [argminFrom]
    have hassoc : pre ++ p :: ps = (pre ++ [p]) ++ ps := by simp
    split
    · rename_i hlt
      have := ih (pre ++ [p]) pre.length p (by simp) (by simp) (by
        intro x hx
        rcases List.mem_append.mp hx with hx | hx
        · exact Rat.le_trans (Rat.le_of_lt hlt) (hmin x hx)
        · simp at hx; subst hx; exact Rat.le_refl)
      simp only [List.length_append, List.length_cons, List.length_nil, Nat.zero_add] at this
      rw [hassoc]; exact this
    · rename_i hge
      have hge' : dist2 p0 q ≤ dist2 p q := Rat.not_lt.mp hge
      have := ih (pre ++ [p]) best p0 (by rw [← hassoc]; exact h) (by simp; omega) (by
        intro x hx
        rcases List.mem_append.mp hx with hx | hx
        · exact hmin x hx
        · simp at hx; subst hx; exact hge')
      simp only [List.length_append, List.length_cons, List.length_nil, Nat.zero_add] at this
      rw [hassoc]; exact this

/-- the driver's arg-min satisfies the specification (so the hypothesis is not vacuous) -/
theorem argminFirst_isArgmin : IsArgmin argminFirst := by
  intro cs q hne
  cases cs with
  | nil => exact absurd rfl hne
  | cons p ps =>
    have := argminFrom_spec q ps [p] 0 p (by simp) (by simp) (by
      intro x hx; simp at hx; subst hx; exact Rat.le_refl)
    simpa [argminFirst] using this

end Finam.Regrid
