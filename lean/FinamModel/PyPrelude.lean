import FinamModel.Basic
/-
  Python built-ins as used by the functions that `harness/py2lean.py` translates
  (`lean/FinamModel/Translated/*.lean`).  Every operation that raises in Python answers an error here
  (`IndexError`, `ZeroDivisionError`, `TypeError` on `None`, `ValueError` of `min([])` are all `Err.other`),
  so that a translated function and the hand-written model can only be proved equal where the real code does
  not crash.
-/
namespace Finam.Py

/-- `l[i]` with Python's negative wrap-around -/
def idx {α} (l : List α) (i : Int) : Except Err α :=
  if i < 0 then
    (if i + l.length < 0 then .error .other else
      match l[(i + l.length).toNat]? with
      | some x => .ok x
      | none => .error .other)
  else
    match l[i.toNat]? with
    | some x => .ok x
    | none => .error .other

def len {α} (l : List α) : Int := l.length

def range (n : Int) : List Int := (List.range n.toNat).map Int.ofNat

def enumFrom {α} (k : Int) : List α → List (Int × α)
  | [] => []
  | x :: xs => (k, x) :: enumFrom (k + 1) xs

def enumerate {α} (l : List α) : List (Int × α) := enumFrom 0 l

/-- `l.pop(0)` as a statement (the popped element is not used) -/
def pop0 {α} : List α → Except Err (List α)
  | [] => .error .other
  | _ :: xs => .ok xs

/-- `l.pop()`: the last element and the list without it -/
def popLast {α} : List α → Except Err (α × List α)
  | [] => .error .other
  | [x] => .ok (x, [])
  | x :: y :: r => (popLast (y :: r)).map fun p => (p.1, x :: p.2)

/-- `s.add(x)` on a Python set kept as a list without repetitions -/
def setAdd (s : List Nat) (x : Nat) : List Nat := if x ∈ s then s else s ++ [x]

/-- `{x for … }`: the set of the elements of a list -/
def setOfList (l : List Nat) : List Nat := l.foldl setAdd []

/-- `a - b` on two Python sets -/
def setDiff (a b : List Nat) : List Nat := a.filter (fun x => !decide (x ∈ b))

/-- `mask_specified(m)` with masks as `None` / `Mask.FLEX` = -1 / `Mask.NONE` = -2 / an explicit mask `k ≥ 0`: true unless the
    mask is one of the two enum members -/
def maskSpecified : Option Int → Bool
  | some x => decide (0 ≤ x)
  | none => true

/-- `a or b` for optional *objects* (classes without `__bool__` / `__len__`: true exactly when not `None`) -/
def orObj (a b : Option Nat) : Option Nat :=
  match a with
  | some x => some x
  | none => b

/-- a call on another object that is only recorded (e.g. `out.push_data(data, t)`): the trace grows by its argument -/
def recordPush {α} (trace : List α) (x : α) : Except Err (List α) := pure (trace ++ [x])

/-- a call on another object that is recorded and answered with a given value (e.g. the upstream pull of an adapter) -/
def recordReq {α β} (trace : List β) (x : β) (ans : α) : Except Err (α × List β) := pure (ans, trace ++ [x])

/-- a user hook (`_initialize`, `_update`, …): leaves the component's status alone (`none`) or sets it (`some s`) -/
def hook (o : Option Int) (st : Int) : Except Err Int := pure (o.getD st)

def unwrap {α} : Option α → Except Err α
  | some x => .ok x
  | none => .error .other

/-- true division; `ZeroDivisionError` is an error -/
def div (a b : Rat) : Except Err Rat := if b = 0 then .error .other else .ok (a / b)

def imin (a b : Int) : Int := if b < a then b else a      -- Python: min(a, b) returns a unless b < a
def imax (a b : Int) : Int := if b > a then b else a
def rmin (a b : Rat) : Rat := if b < a then b else a
def rmax (a b : Rat) : Rat := if b > a then b else a

def minList : List Int → Except Err Int
  | [] => .error .other
  | x :: xs => .ok (xs.foldl imin x)

def maxList : List Int → Except Err Int
  | [] => .error .other
  | x :: xs => .ok (xs.foldl imax x)

/-- stable insertion behind every element whose key is not larger -/
def insertByKey {α} (key : α → Int) (x : α) : List α → List α
  | [] => [x]
  | y :: ys => if key x < key y then x :: y :: ys else y :: insertByKey key x ys

/-- `xs.sort(key=...)`: Python's sort is stable -/
def sortByKey {α} (key : α → Int) (xs : List α) : List α := xs.foldl (fun acc x => insertByKey key x acc) []

/-! ### Python dicts (insertion ordered) as association lists -/

def dictHas {κ ν} [DecidableEq κ] (d : List (κ × ν)) (k : κ) : Bool := d.any fun p => decide (p.1 = k)

def dictGet {κ ν} [DecidableEq κ] : List (κ × ν) → κ → Except Err ν
  | [], _ => .error .other                     -- KeyError
  | (k', v) :: r, k => if k' = k then .ok v else dictGet r k

/-- `d.get(k)` -/
def dictGet? {κ ν} [DecidableEq κ] : List (κ × ν) → κ → Option ν
  | [], _ => none
  | (k', v) :: r, k => if k' = k then some v else dictGet? r k

/-- `d[k] = v`: an existing key keeps its position -/
def dictSet {κ ν} [DecidableEq κ] : List (κ × ν) → κ → ν → List (κ × ν)
  | [], k, v => [(k, v)]
  | (k', v') :: r, k, v => if k' = k then (k', v) :: r else (k', v') :: dictSet r k v

/-- `del d[k]` -/
def dictDel {κ ν} [DecidableEq κ] : List (κ × ν) → κ → Except Err (List (κ × ν))
  | [], _ => .error .other
  | (k', v') :: r, k => if k' = k then .ok r else (dictDel r k).map ((k', v') :: ·)

/-! ### Object graphs: slots, adapters, components as numbered objects with attribute tables -/

/-- what the translated driver functions read of the coupling graph (`finam/schedule.py`) -/
structure Heap where
  isInput : Nat → Bool        -- isinstance(x, IInput): inputs and adapters
  isOutput : Nat → Bool       -- isinstance(x, IOutput): outputs and adapters
  isAdapter : Nat → Bool      -- isinstance(x, IAdapter)
  isNoDep : Nat → Bool        -- isinstance(x, NoDependencyAdapter)
  isDelay : Nat → Bool        -- isinstance(x, ITimeDelayAdapter)
  isNoBranch : Nat → Bool     -- isinstance(x, NoBranchAdapter)
  isTimeComp : Nat → Bool     -- isinstance(c, ITimeComponent)
  needsPush : Nat → Bool
  needsPull : Nat → Bool
  isStatic : Nat → Bool
  finished : Nat → Bool       -- c.status == ComponentStatus.FINISHED
  hasSource : Nat → Bool      -- x.source is not None
  source : Nat → Nat          -- x.source
  time : Nat → Int            -- out.time / comp.time
  nextTime : Nat → Int        -- comp.next_time
  withDelay : Nat → Int → Int -- adapter.with_delay(t)
  owner : Nat → Nat           -- output_owners[out]
  inputs : Nat → List Nat     -- comp.inputs.values()
  outputs : Nat → List Nat    -- comp.outputs.values()
  targets : Nat → List Nat    -- out.targets
  size : Nat                  -- number of objects (bound of every walk along `source`)

/-- all values of a list of optionals (`None` among numbers makes `min` / `max` raise) -/
def allSome {α} : List (Option α) → Except Err (List α)
  | [] => .ok []
  | none :: _ => .error .other
  | some x :: r => (allSome r).map (x :: ·)

def minOptList (l : List (Option Int)) : Except Err Int := allSome l >>= minList
def maxOptList (l : List (Option Int)) : Except Err Int := allSome l >>= maxList

/-- `timedelta.total_seconds()` of a duration in microseconds -/
def totalSeconds (d : Int) : Rat := (d : Rat) / 1000000

@[simp] theorem pure_eq_ok {α} (x : α) : (pure x : Except Err α) = .ok x := rfl
@[simp] theorem throw_eq_error {α} (e : Err) : (throw e : Except Err α) = .error e := rfl
@[simp] theorem ok_bind {α β} (x : α) (f : α → Except Err β) : (Except.ok x >>= f) = f x := rfl
@[simp] theorem error_bind {α β} (e : Err) (f : α → Except Err β) : (Except.error e >>= f) = .error e := rfl

/-- entries as the hand-written models see them -/
def toE {α} (l : List (Int × α)) : List (Entry α) := l.map fun p => ⟨p.1, p.2⟩
@[simp] theorem toE_nil {α} : toE ([] : List (Int × α)) = [] := rfl
@[simp] theorem toE_cons {α} (p : Int × α) (l : List (Int × α)) : toE (p :: l) = ⟨p.1, p.2⟩ :: toE l := rfl
def ofE {α} (l : List (Entry α)) : List (Int × α) := l.map fun e => (e.t, e.v)
@[simp] theorem toE_ofE {α} (l : List (Entry α)) : toE (ofE l) = l := by
  induction l with
  | nil => rfl
  | cons e l ih => simp [ofE, toE] at *; exact ih

/-- `l[k]` for an index known to be in range -/
theorem idx_nat {α} (l : List α) (k : Nat) (x : α) (h : l[k]? = some x) : idx l (k : Int) = .ok x := by
  have : ¬ ((k : Int) < 0) := by omega
  simp [idx, this, h]

theorem idx_neg_one {α} (l : List α) (x : α) (h : l.getLast? = some x) : idx l (-1) = .ok x := by
  cases l with
  | nil => simp at h
  | cons a as =>
    have h1 : ¬ ((-1 : Int) + ((as.length + 1 : Nat) : Int) < 0) := by omega
    have h2 : ((-1 : Int) + ((as.length + 1 : Nat) : Int)).toNat = as.length := by omega
    simp only [idx, List.length_cons]
    simp only [show ((-1 : Int) < 0) from by omega, if_true, h1, if_false, h2]
    rw [List.getLast?_eq_getElem?] at h
    simp at h
    simp [h]

@[simp] theorem idx_zero_cons {α} (x : α) (xs : List α) : idx (x :: xs) 0 = .ok x := by simp [idx]
@[simp] theorem idx_zero_nil {α} : idx ([] : List α) 0 = .error .other := by simp [idx]
@[simp] theorem len_nil {α} : len ([] : List α) = 0 := rfl
@[simp] theorem len_cons {α} (x : α) (xs : List α) : len (x :: xs) = len xs + 1 := by simp [len]
theorem len_nonneg {α} (l : List α) : 0 ≤ len l := by simp [len]

end Finam.Py
