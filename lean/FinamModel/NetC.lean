import FinamModel.Net
/-
  The network model of `Net.lean` extended by push-based (time-caching) adapters.

  A `TimeCachingAdapter` on a link keeps its own buffer: on every publication of the source it is notified,
  pulls the source for exactly that time (it is itself an end point of the output, `Adapter.source_updated` →
  `pull_data`) and appends the entry; a consumer's request is answered from the buffer after the range check of
  `check_time`, and `_clear_cached_data(time)` then drops entries the same way `Output._clear_data` does for a
  single end point (`while len(data) > 1 and data[1][0] <= time: pop(0)`).  So, as far as *whether a request can
  be served* is concerned, the adapter is a relay node with one history (`OState`, one end point per consumer
  link behind it): here every node — output or relay — is an `OState`.

  `node c j` is the node link `j` of component `c` reads from (its source output, or the relay of the first
  push-based adapter met from the consumer side); `directPrefix` is the part of the chain in front of that
  adapter; `relays` lists (relay node, source output, end point of the relay at that output).  The adapters
  between the relay and the output are pass-through in this model.
-/
namespace Finam

/-- the consumer-side part of a chain in front of the first push-based adapter -/
def directPrefix : List Ad → List Ad
  | [] => []
  | .cache :: _ => []
  | a :: r => a :: directPrefix r

structure NetC where
  sch : State
  os : Nat → OState Unit
  ep : Nat → Nat → Nat
  node : Nat → Nat → Nat
  relays : List (Nat × Nat × Nat)

/-- the pulls of one update: each non-static link asks its node for the time arriving there -/
def pullLinksC (ep node : Nat → Nat → Nat) (u : Nat) (t : Int) :
    List Link → Nat → (Nat → OState Unit) → (Nat → OState Unit) × List (Option (Except Err Unit))
  | [], _, os => (os, [])
  | l :: ls, j, os =>
    if l.static then pullLinksC ep node u t ls (j+1) os
    else
      let st := stepImpl (os (node u j)) (.pull (ep u j) (reqTime (directPrefix l.ads) t))
      let rest := pullLinksC ep node u t ls (j+1) (updO os (node u j) st.1)
      (rest.1, st.2 :: rest.2)

/-- notification of the relays of the outputs `u` has just published on: pull the output for the publication
    time, append the entry to the relay's buffer -/
def notifyRelays (sch : State) (u : Nat) (t : Int) :
    List (Nat × Nat × Nat) → (Nat → OState Unit) → (Nat → OState Unit) × List (Option (Except Err Unit))
  | [], os => (os, [])
  | (r, o, k) :: rs, os =>
    if o < sch.outs.length ∧ (sch.out o).owner = u then
      let st := stepImpl (os o) (.pull k t)
      let os1 := updO os o st.1
      let os2 := updO os1 r (stepImpl (os1 r) (.push t ())).1
      let rest := notifyRelays sch u t rs os2
      (rest.1, st.2 :: rest.2)
    else notifyRelays sch u t rs os

/-- `comp.update()` on the network: pull, publish, notify the push-based adapters, advance -/
def netUpdateC (n : NetC) (u : Nat) : NetC × List (Option (Except Err Unit)) :=
  let t := getNext (n.sch.comp u)
  let p := pullLinksC n.ep n.node u t (n.sch.comp u).inputs 0 n.os
  let os2 : Nat → OState Unit := fun o =>
    if o < n.sch.outs.length ∧ (n.sch.out o).owner = u then (stepImpl (p.1 o) (.push t ())).1 else p.1 o
  let q := notifyRelays n.sch u t n.relays os2
  ({ n with sch := applyUpdate n.sch u, os := q.1 }, p.2 ++ q.2)

/-- `Composition.run` on this network: per update the updated component, the retained length of the listed nodes
    and whether every pull (of the component and of the notified adapters) was answered -/
def netRunLoopC (nodes : List Nat) : Nat → NetC → Int → List (Nat × List Nat × Bool) → List (Nat × List Nat × Bool) × RunEnd × NetC
  | 0, n, _, acc => (acc.reverse, .outOfFuel, n)
  | fuel+1, n, endT, acc =>
    match select n.sch with
    | none => (acc.reverse, .done, n)
    | some c0 =>
      match updateRec n.sch (n.sch.comps.length + 1) c0 [] none with
      | .error e => (acc.reverse, .err e, n)
      | .ok none => (acc.reverse, .err .fuel, n)
      | .ok (some u) =>
        let r := netUpdateC n u
        let lens := nodes.map fun o => (r.1.os o).ret.length
        let ok := r.2.all fun a => a == some (.ok ())
        let acc' := (u, lens, ok) :: acc
        if anyRunning r.1.sch endT then netRunLoopC nodes fuel r.1 endT acc' else (acc'.reverse, .done, r.1)

end Finam
