import FinamModel.Basic
/-!
  Topology validation of a composition (`finam/schedule.py`: `_validate_composition`,
  `_check_input_connected`, `_check_dead_links`, `_check_branching`,
  `_check_missing_components`, `_collect_inputs_outputs`, `_collect_adapters_*`, and the link
  list of `Composition.metadata`).

  The coupling graph built by `>>` is a forest: every `IInput` (input or adapter) has exactly one
  `source` (or `None`), every `IOutput` (output or adapter) a list of `targets`.  A tree is
  rooted at an element without source: an `Output` object, or — when something was left
  unconnected — an adapter or an input whose `source` is `None`.  Inputs are leaves by type
  (they have no `targets`).  The identity of a Python object is its *position* in the forest
  (index of the root, then child indices), so no uniqueness side conditions are needed.
-/
namespace Finam.Validate

/-- flags of a slot or adapter; they are the columns of `Generated.classTable` plus `static` -/
structure Elem where
  isOutput : Bool    -- an `Output` object (not an `IInput`); false: adapter (`node`) or input (`input`)
  needsPush : Bool
  needsPull : Bool
  noBranch : Bool    -- `isinstance(x, NoBranchAdapter)`
  static : Bool      -- `is_static`
deriving Repr, DecidableEq, Inhabited

inductive Tree where
  | input (e : Elem)                       -- `IInput` that is not an `IOutput`
  | node (e : Elem) (kids : List Tree)     -- `IOutput`: an output (root) or an adapter; kids = `targets`
deriving Repr, Inhabited

def Tree.elem : Tree → Elem
  | .input e => e
  | .node e _ => e

def Tree.kids : Tree → List Tree
  | .input _ => []
  | .node _ ks => ks

/-- `not isinstance(x, IInput)`: the walk along `.source` stops here -/
def Tree.isSource : Tree → Bool
  | .input _ => false
  | .node e _ => e.isOutput

def Tree.isInput : Tree → Bool
  | .input _ => true
  | .node _ _ => false

/-- follow child indices from a node; the sub-trees passed, the start first, the node reached last -/
def Tree.walk : Tree → List Nat → Option (List Tree)
  | t, [] => some [t]
  | t, k :: rest =>
    match t.kids[k]? with
    | none => none
    | some c => match c.walk rest with
      | none => none
      | some p => some (t :: p)

/-- a position in the forest: index of the tree, then child indices -/
abbrev Pos := List Nat

def fwalk (F : List Tree) : Pos → Option (List Tree)
  | [] => none
  | k :: rest => match F[k]? with
    | none => none
    | some t => t.walk rest

/-- a component of the composition: positions of its inputs (in `comp.inputs` order) and the root
    indices of its outputs (in `comp.outputs` order) -/
structure Comp where
  inputs : List Pos
  outputs : List Nat
deriving Repr, DecidableEq

def compInputs (cs : List Comp) : List Pos := cs.flatMap (·.inputs)
def compOutputs (cs : List Comp) : List Nat := cs.flatMap (·.outputs)

inductive Rule where
  | unconnected | staticSrc | deadLink | branching | missingIn | missingOut
deriving Repr, DecidableEq

def Rule.toString : Rule → String
  | .unconnected => "unconnected" | .staticSrc => "static" | .deadLink => "dead" | .branching => "branch"
  | .missingIn => "missing_in" | .missingOut => "missing_out"

/-- `_check_input_connected(comp, inp)`: walk `.source` up to the first non-`IInput`; a `None`
    on the way is an unconnected input; then the static rule.  (`p` is the path root → input,
    so the walk ends at `p.head`; it is a non-`IInput` iff it is an `Output` object.) -/
def checkInputConnected (F : List Tree) (i : Pos) : Except Rule Unit :=
  match fwalk F i with
  | none => .error .unconnected      -- totalisation: position outside the forest
  | some [] => .error .unconnected   -- unreachable (`walk` never returns an empty path)
  | some (r :: rest) =>
    if !r.isSource then .error .unconnected
    else if ((r :: rest).getLast?.getD r).elem.static && !r.elem.static then .error .staticSrc
    else .ok ()

/-- the loop of `_check_dead_links` over `reversed(chain)` (= the path root → input):
    ```
    first_index = -1
    for i, item in enumerate(reversed(chain)):
        if first_index >= 0 and item.needs_push: raise _dead_link_error(comp, chain, first_index, i)
        if item.needs_pull: first_index = i
    ```
    returns the `(first_index, i)` of the raise -/
def deadLoop : List Elem → Nat → Int → Option (Int × Nat)
  | [], _, _ => none
  | it :: rest, i, first =>
    if first ≥ 0 ∧ it.needsPush = true then some (first, i)
    else deadLoop rest (i + 1) (if it.needsPull then (i : Int) else first)

def checkDeadLinks (F : List Tree) (i : Pos) : Except Rule Unit :=
  match fwalk F i with
  | none => .ok ()
  | some p => if (deadLoop (p.map Tree.elem) 0 (-1)).isSome then .error .deadLink else .ok ()

mutual
/-- `_check_branching`: work list of `(target, no_branch)`; the flag is sticky downstream; only
    `IOutput` targets (adapters) are followed -/
def Tree.branchBad (nb : Bool) : Tree → Bool
  | .input _ => false
  | .node e ks => ((nb || e.noBranch) && decide (ks.length > 1)) || branchBadL (nb || e.noBranch) ks
def branchBadL (nb : Bool) : List Tree → Bool
  | [] => false
  | t :: ts => t.branchBad nb || branchBadL nb ts
end

def checkBranching (F : List Tree) (o : Nat) : Except Rule Unit :=
  match F[o]? with
  | none => .ok ()
  | some t => if t.branchBad false then .error .branching else .ok ()

mutual
/-- the downstream traversal shared by `_collect_inputs_outputs` and `_collect_adapters_output`
    (loop over `targets`, recursion into every `IOutput` target): every element at or below a node
    with its relative position -/
def Tree.positions : Tree → List (Pos × Tree)
  | .input e => [([], .input e)]
  | .node e ks => ([], .node e ks) :: positionsL ks 0
def positionsL : List Tree → Nat → List (Pos × Tree)
  | [], _ => []
  | t :: ts, k => (t.positions.map fun qs => (k :: qs.1, qs.2)) ++ positionsL ts (k + 1)
end

/-- `_collect_inputs_outputs`, downstream part: the targets that are not `IOutput`s -/
def Tree.inputsFrom (t : Tree) : List Pos := (t.positions.filter (·.2.isInput)).map (·.1)

/-- inputs reached from the outputs of the composition's components -/
def allInputs (cs : List Comp) (F : List Tree) : List Pos :=
  (compOutputs cs).flatMap fun o =>
    match F[o]? with
    | none => []
    | some t => t.inputsFrom.map (o :: ·)

/-- roots reached from the inputs of the composition's components -/
def allOutputs (cs : List Comp) : List Nat := (compInputs cs).map (·.headD 0)

/-- `_check_missing_components` -/
def checkMissing (cs : List Comp) (F : List Tree) : Except Rule Unit :=
  if (allInputs cs F).any (fun i => !decide (i ∈ compInputs cs)) then .error .missingIn
  else if (allOutputs cs).any (fun o => !decide (o ∈ compOutputs cs)) then .error .missingOut
  else .ok ()

def firstErr {α} (f : α → Except Rule Unit) : List α → Except Rule Unit
  | [] => .ok ()
  | x :: xs => match f x with
    | .error r => .error r
    | .ok _ => firstErr f xs

def checkInput (F : List Tree) (i : Pos) : Except Rule Unit :=
  match checkInputConnected F i with
  | .error r => .error r
  | .ok _ => checkDeadLinks F i

def validateComp (F : List Tree) (c : Comp) : Except Rule Unit :=
  match firstErr (checkInput F) c.inputs with
  | .error r => .error r
  | .ok _ => firstErr (checkBranching F) c.outputs

/-- `Composition._validate_composition` -/
def validate (cs : List Comp) (F : List Tree) : Except Rule Unit :=
  match firstErr (validateComp F) cs with
  | .error r => .error r
  | .ok _ => checkMissing cs F

/-! ### link list of `Composition.metadata` -/

def dedup {α} [DecidableEq α] : List α → List α
  | [] => []
  | x :: xs => if x ∈ xs then dedup xs else x :: dedup xs

/-- `_collect_adapters_output`: the `IAdapter` targets, recursively (strictly below an output) -/
def Tree.adaptersBelow (t : Tree) : List Pos := ((positionsL t.kids 0).filter (!·.2.isInput)).map (·.1)

/-- `_collect_adapters_input`: positions of the adapters above an input (stops at an `Output`) -/
def adaptersAbove (F : List Tree) (i : Pos) : List Pos :=
  ((List.range i.length).filter (fun n => 0 < n)).filterMap fun n =>
    let q := i.take n
    match fwalk F q with
    | some p => match p.getLast? with
      | some t => if t.isSource then none else some q
      | none => none
    | none => none

/-- `Composition._collect_adapters` (a set) -/
def adapters (cs : List Comp) (F : List Tree) : List Pos :=
  dedup ((compInputs cs).flatMap (adaptersAbove F) ++
    (compOutputs cs).flatMap fun o =>
      match F[o]? with
      | none => []
      | some t => t.adaptersBelow.map (o :: ·))

/-- links leaving the element at a position: one per entry of `targets` -/
def directLinks (F : List Tree) (q : Pos) : List (Pos × Pos) :=
  match fwalk F q with
  | some p => match p.getLast? with
    | some t => (List.range t.kids.length).map fun j => (q, q ++ [j])
    | none => []
  | none => []

/-- `Composition.metadata["links"]`: links of every output of every component, then of every
    collected adapter -/
def links (cs : List Comp) (F : List Tree) : List (Pos × Pos) :=
  (compOutputs cs).flatMap (fun o => directLinks F [o]) ++ (adapters cs F).flatMap (directLinks F)

/-- every link that `>>` created in the forest -/
def IsLink (F : List Tree) (a b : Pos) : Prop := a ≠ [] ∧ ∃ j, b = a ++ [j] ∧ (fwalk F b).isSome

/-! ### `Composition.connect`: validation comes before any exchange -/

structure ConnectTrace where
  result : Except Err Unit
  exchanged : List (Pos × Pos)   -- links over which info / data were exchanged
deriving Repr

/-- `Composition.connect`: `_collect_adapters(); _validate_composition(); _connect_components()`;
    `exch` is the outcome of the exchange phase (not modelled here: C05–C07) -/
def connect (cs : List Comp) (F : List Tree) (exch : Except Err Unit) : ConnectTrace :=
  match validate cs F with
  | .error _ => ⟨.error .connectErr, []⟩
  | .ok _ => ⟨exch, links cs F⟩

/-! ### the property's predicate -/

/-- a pull-needing element strictly upstream of a push-needing one -/
def PullBeforePush (p : List Elem) : Prop :=
  ∃ l1 x l2 y l3, p = l1 ++ x :: (l2 ++ y :: l3) ∧ x.needsPull = true ∧ y.needsPush = true

/-- the setups the property lists, read on the forest -/
structure Unworkable (cs : List Comp) (F : List Tree) : Prop where
  /-- one of the five clauses holds -/
  clause :
    -- an unconnected input: the chain above an input of the composition does not end in an output
    (∃ i ∈ compInputs cs, ∀ r rest, fwalk F i = some (r :: rest) → r.isSource = false) ∨
    -- a static input fed by a non-static output
    (∃ i ∈ compInputs cs, ∃ r rest t, fwalk F i = some (r :: rest) ∧ (r :: rest).getLast? = some t ∧
        r.isSource = true ∧ t.elem.static = true ∧ r.elem.static = false) ∨
    -- a pull-only element followed on the same chain by an element that must be notified
    (∃ i ∈ compInputs cs, ∃ p, fwalk F i = some p ∧ PullBeforePush (p.map Tree.elem)) ∨
    -- a fan-out at or downstream of a no-branch adapter
    (∃ o ∈ compOutputs cs, ∃ q p t, fwalk F (o :: q) = some p ∧ p.getLast? = some t ∧
        (∃ s ∈ p, s.elem.noBranch = true) ∧ t.kids.length > 1) ∨
    -- a component that is linked but not part of the composition (consumer side / producer side)
    (∃ o ∈ compOutputs cs, ∃ q p t, fwalk F (o :: q) = some p ∧ p.getLast? = some t ∧
        t.isInput = true ∧ (o :: q) ∉ compInputs cs) ∨
    (∃ i ∈ compInputs cs, i.headD 0 ∉ compOutputs cs)

end Finam.Validate
