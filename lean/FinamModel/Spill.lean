import FinamModel.Output
import FinamModel.TimeAdapters
import FinamModel.Integration
/-
  Model of the spill-to-disk mechanism: `Output._pack` / `_unpack` (`sdk/output.py`), the overriding
  `TimeCachingAdapter._unpack`, removal of spill files on eviction (`Output._clear_data`,
  `TimeCachingAdapter._clear_cached_data`) and at the end of the run (`Output.finalize`,
  `TimeCachingAdapter._finalize`), and the read path of every buffering slot kind with `_unpack`
  exactly where the code calls it.

  The file system is a finite map from file names to saved magnitudes (`numpy.save` / `load` and
  `MaskedArray.dump` / pickle `load` are assumed to round-trip; OS failures other than a missing
  file are not modelled).  Buffered data of an adapter is in the units of the adapter's source and
  `_unpack` re-wraps a loaded magnitude with `unpackUnits`; a magnitude re-wrapped with other units
  than it was saved with cannot be used (`dataErr`).
-/
namespace Finam.SP
open Finam Finam.TA

inductive SlotKind where
  | output
  | next | prev | linear
  | step (pos : Rat)
  | stack
  | avg (step : Option Rat)
  | sum (step : Option Rat) (perTime : Bool) (initUs : Int)
deriving Repr, DecidableEq

/-- `os.path.join(self.memory_location or "", f"{id(self)}-{self._mem_counter}.npy")` -/
structure File where
  dir : String
  slot : Nat
  n : Nat
deriving Repr, DecidableEq

structure Cfg where
  kind : SlotKind
  limit : Option Int          -- `memory_limit`
  loc : Option String         -- `memory_location`
  slotId : Nat                -- `id(self)`
  inUnits : Nat               -- tag of the units the buffered data is in
  unpackUnits : Nat           -- tag of the units `_unpack` re-wraps with
deriving Repr

/-- the units `_unpack` uses: `self.info.units` for an `Output` (its own units, in which `push_data`
    stores), `self._input_info.units` for the time adapters — in both cases the units the buffer is in -/
def mkCfg (kind : SlotKind) (limit : Option Int) (loc : Option String) (slotId inUnits : Nat) : Cfg :=
  ⟨kind, limit, loc, slotId, inUnits, inUnits⟩

/-- an entry of `.data`: the quantity itself with its `nbytes`, or a file name.  `ghost` is the
    magnitude that was saved; it is never read by the machine (only `fs` is), it lets the
    invariant speak about the file's content. -/
inductive Stored where
  | inRam (v : Rat) (size : Nat)
  | onDisk (f : File) (ghost : Rat)
deriving Repr, DecidableEq

/-- the magnitude an entry stands for -/
def val : Stored → Rat
  | .inRam v _ => v
  | .onDisk _ g => g

structure SState where
  data : List (Entry Stored)
  total : Int                       -- `_total_mem`
  counter : Nat                     -- `_mem_counter`
  fs : List (File × Rat)            -- spill files of this slot present on disk, with their content
  created : List File               -- ghost: every file this slot ever created
  prev : Option Int                 -- `_prev_time` (integration adapters)
  last : List (Option Int)          -- `_connected_inputs` values (outputs)
deriving Repr

def initS (nEnds : Nat) : SState := ⟨[], 0, 0, [], [], none, List.replicate nEnds none⟩

/-- content of file `f`, if it exists (`np.load`) -/
def lookupF : List (File × Rat) → File → Option Rat
  | [], _ => none
  | (k, v) :: r, f => if k = f then some v else lookupF r f

/-- `os.remove(f)` -/
def removeF : List (File × Rat) → File → List (File × Rat)
  | [], _ => []
  | (k, v) :: r, f => if k = f then removeF r f else (k, v) :: removeF r f

/-- `_pack`: spill iff `memory_limit is not None and 0 <= memory_limit < _total_mem + nbytes` -/
def spills (c : Cfg) (total : Int) (size : Nat) : Bool :=
  match c.limit with
  | none => false
  | some l => decide (0 ≤ l) && decide (l < total + size)

def pack (c : Cfg) (s : SState) (v : Rat) (size : Nat) : SState × Stored :=
  if spills c s.total size then
    let f : File := ⟨c.loc.getD "", c.slotId, s.counter⟩
    ({ s with counter := s.counter + 1, fs := s.fs ++ [(f, v)], created := s.created ++ [f] }, .onDisk f v)
  else
    ({ s with total := s.total + size }, .inRam v size)

/-- `_unpack`: a quantity is returned as it is, a file is loaded (`FileNotFoundError` if it is gone)
    and re-wrapped -/
def unpack (c : Cfg) (fs : List (File × Rat)) : Stored → Except Err Rat
  | .inRam v _ => .ok v
  | .onDisk f _ =>
    match lookupF fs f with
    | none => .error .other
    | some v => if c.unpackUnits = c.inUnits then .ok v else .error .dataErr

/-- one `data.pop(0)` of an eviction loop: `os.remove(d[1])` or `_total_mem -= d[1].nbytes` -/
def dropEntry (total : Int) (fs : List (File × Rat)) : Stored → Except Err (Int × List (File × Rat))
  | .inRam _ size => .ok (total - size, fs)
  | .onDisk f _ => if (lookupF fs f).isSome then .ok (total, removeF fs f) else .error .other

/-- `while len(data) > 1 and data[1][0] <= t: d = data.pop(0); remove / account` -/
def evictS : List (Entry Stored) → Int → List (File × Rat) → Int →
    Except Err (List (Entry Stored) × Int × List (File × Rat))
  | e0 :: e1 :: es, total, fs, m =>
    if e1.t ≤ m then
      match dropEntry total fs e0.v with
      | .error e => .error e
      | .ok (total', fs') => evictS (e1 :: es) total' fs' m
    else .ok (e0 :: e1 :: es, total, fs)
  | d, total, fs, _ => .ok (d, total, fs)

/-- `finalize` / `_finalize`: `for _t, d in self.data: if isinstance(d, str): os.remove(d)`; `data.clear()` -/
def finalizeFs : List (Entry Stored) → List (File × Rat) → Except Err (List (File × Rat))
  | [], fs => .ok fs
  | e :: es, fs =>
    match e.v with
    | .inRam _ _ => finalizeFs es fs
    | .onDisk f _ => if (lookupF fs f).isSome then finalizeFs es (removeF fs f) else .error .other

/-! ### Read paths on stored entries (`u` = `self._unpack`) -/

/-- `LinearTime._interpolate` loop: `interpolate(self._unpack(data_prev), self._unpack(data), dt)` -/
def linLoopS (u : Stored → Except Err Rat) (p : Entry Stored) : List (Entry Stored) → Int → Except Err Rat
  | [], _ => .error .timeErr
  | e :: es, t =>
    if t > e.t then linLoopS u e es t
    else if t = e.t then u e.v
    else match u p.v with
      | .error x => .error x
      | .ok a => match u e.v with
        | .error x => .error x
        | .ok b => .ok (lerp a b (frac p.t e.t t))

def linInterpS (u : Stored → Except Err Rat) : List (Entry Stored) → Int → Except Err Rat
  | [], _ => .error .timeErr
  | [e], _ => u e.v
  | e0 :: es, t => linLoopS u (lastE e0 es) (e0 :: es) t

/-- `extract.append((t, self._unpack(data)))` for every stacked entry -/
def unpackAll (u : Stored → Except Err Rat) : List (Entry Stored) → Except Err (List Rat)
  | [] => .ok []
  | e :: es => match u e.v with
    | .error x => .error x
    | .ok a => match unpackAll u es with
      | .error x => .error x
      | .ok r => .ok (a :: r)

/-- the integration loop; `v_new = self._unpack(v_new)` happens before the `continue` / `break` tests -/
def loopS (u : Stored → Except Err Rat) (step : Option Rat) (scaled : Bool) (prev t : Int)
    (old : Entry Rat) : List (Entry Stored) → Option Rat → Except Err (Option Rat)
  | [], acc => .ok acc
  | new :: rest, acc =>
    match u new.v with
    | .error x => .error x
    | .ok vn =>
      if prev ≥ new.t then loopS u step scaled prev t ⟨new.t, vn⟩ rest acc
      else if t ≤ old.t then .ok acc
      else loopS u step scaled prev t ⟨new.t, vn⟩ rest
        (some (acc.getD 0 + TI.piece step scaled old ⟨new.t, vn⟩ prev t))

def avgInterpS (u : Stored → Except Err Rat) (step : Option Rat) :
    List (Entry Stored) → Int → Int → Except Err Rat
  | [], _, _ => .error .timeErr
  | [e], _, _ => u e.v
  | e0 :: es, prev, t =>
    if t ≤ e0.t then u e0.v
    else match u e0.v with
      | .error x => .error x
      | .ok v0 =>
        match loopS u step true prev t ⟨e0.t, v0⟩ es none with
        | .error x => .error x
        | .ok acc =>
          if t - prev > 0 then
            match acc with
            | some s => .ok (s / TI.secs (t - prev))
            | none => .error .other
          else .error .timeErr

def sumInterpS (u : Stored → Except Err Rat) (step : Option Rat) (perTime : Bool) (initUs : Int) :
    List (Entry Stored) → Int → Int → Except Err Rat
  | [], _, _ => .error .timeErr
  | [e], _, _ => match u e.v with
    | .error x => .error x
    | .ok v => .ok (TI.initVal perTime initUs ⟨e.t, v⟩)
  | e0 :: es, prev, t =>
    if t ≤ e0.t then
      match u e0.v with
      | .error x => .error x
      | .ok v => .ok (TI.initVal perTime initUs ⟨e0.t, v⟩)
    else match u e0.v with
      | .error x => .error x
      | .ok v0 =>
        match loopS u step perTime prev t ⟨e0.t, v0⟩ es none with
        | .error x => .error x
        | .ok (some s) => .ok s
        | .ok none => .error .other

/-- select an entry, then `_unpack` it -/
def thenUnpack (u : Stored → Except Err Rat) : Except Err Stored → Except Err (List Rat)
  | .error x => .error x
  | .ok s => match u s with
    | .error x => .error x
    | .ok v => .ok [v]

def single : Except Err Rat → Except Err (List Rat)
  | .error x => .error x
  | .ok v => .ok [v]

/-- the read of one request, per slot kind, on the stored buffer: range checks as in `get_data` /
    `_get_data`, then the kind's `_interpolate` -/
def readS (k : SlotKind) (u : Stored → Except Err Rat) (d : List (Entry Stored)) (prev : Option Int)
    (t : Int) : Except Err (List Rat) :=
  match k with
  | .output => thenUnpack u (lookup d t)
  | .next => match checkRange d t with
    | .error x => .error x | .ok () => thenUnpack u (nextInterp d t)
  | .prev => match checkRange d t with
    | .error x => .error x | .ok () => thenUnpack u (prevInterp d t)
  | .step pos => match checkRange d t with
    | .error x => .error x | .ok () => thenUnpack u (stepInterp pos d t)
  | .linear => match checkRange d t with
    | .error x => .error x | .ok () => single (linInterpS u d t)
  | .stack => match checkRange d t with
    | .error x => .error x | .ok () => unpackAll u (stackInterp d t)
  | .avg step => match checkRange d t with
    | .error x => .error x
    | .ok () => match prev with
      | none => .error .other
      | some p => single (avgInterpS u step d p t)
  | .sum step perTime initUs => match checkRange d t with
    | .error x => .error x
    | .ok () => match prev with
      | none => .error .other
      | some p => single (sumInterpS u step perTime initUs d p t)

/-- the same read on a buffer that holds every value in RAM: the models of C08/C09, C11, C12 -/
def readR (k : SlotKind) (d : List (Entry Rat)) (prev : Option Int) (t : Int) : Except Err (List Rat) :=
  match k with
  | .output => single (lookup d t)
  | .next => single (TA.getData .next d t)
  | .prev => single (TA.getData .prev d t)
  | .step pos => single (TA.getData (.step pos) d t)
  | .linear => single (TA.getData .linear d t)
  | .stack => match checkRange d t with
    | .error x => .error x | .ok () => .ok ((stackInterp d t).map (·.v))
  | .avg step => match checkRange d t with
    | .error x => .error x
    | .ok () => match prev with
      | none => .error .other
      | some p => single (TI.avgInterp step d p t)
  | .sum step perTime initUs => match checkRange d t with
    | .error x => .error x
    | .ok () => match prev with
      | none => .error .other
      | some p => single (TI.sumInterp step perTime initUs d p t)

def isIntegration : SlotKind → Bool
  | .avg _ => true | .sum _ _ _ => true | _ => false

inductive Ev where
  | push (t : Int) (v : Rat) (size : Nat)   -- `push_data` / `_source_updated`: `_pack` and append
  | pull (k : Nat) (t : Int)                -- `get_data`; `k` = requesting end point (outputs only)
  | finalize

/-- time up to which entries are discarded after a served request: an `Output` uses the minimum of
    the end points' last requests (none while one has not pulled), the interpolation adapters and
    `StackTime` the request time, the integration adapters the *previous* request time -/
def evictTime (k : SlotKind) (prev : Option Int) (last' : List (Option Int)) (t : Int) : Option Int :=
  match k with
  | .output => if allSome last' then minLast last' else none
  | .avg _ => prev
  | .sum _ _ _ => prev
  | _ => some t

def stepS (c : Cfg) (s : SState) : Ev → SState × Option (Except Err (List Rat))
  | .push t v size =>
    let (s', st) := pack c s v size
    ({ s' with data := s'.data ++ [⟨t, st⟩],
               prev := if isIntegration c.kind then (match s.prev with | none => some t | some p => some p) else s.prev },
     none)
  | .pull k t =>
    match readS c.kind (unpack c s.fs) s.data s.prev t with
    | .error x => (s, some (.error x))
    | .ok vs =>
      let last' := if c.kind = .output then s.last.set k (some t) else s.last
      let prev' := if isIntegration c.kind then some t else s.prev
      match evictTime c.kind s.prev last' t with
      | none => ({ s with last := last', prev := prev' }, some (.ok vs))
      | some m =>
        match evictS s.data s.total s.fs m with
        | .error x => (s, some (.error x))
        | .ok (d', total', fs') =>
          ({ s with data := d', total := total', fs := fs', last := last', prev := prev' }, some (.ok vs))
  | .finalize =>
    match finalizeFs s.data s.fs with
    | .error x => (s, some (.error x))
    | .ok fs' => ({ s with data := [], fs := fs' }, none)

/-- reference: the same slot holding everything in RAM, no files at all -/
structure RState where
  data : List (Entry Rat)
  prev : Option Int
  last : List (Option Int)

def initR (nEnds : Nat) : RState := ⟨[], none, List.replicate nEnds none⟩

def stepR (k : SlotKind) (r : RState) : Ev → RState × Option (Except Err (List Rat))
  | .push t v _ =>
    ({ r with data := r.data ++ [⟨t, v⟩],
              prev := if isIntegration k then (match r.prev with | none => some t | some p => some p) else r.prev },
     none)
  | .pull i t =>
    match readR k r.data r.prev t with
    | .error x => (r, some (.error x))
    | .ok vs =>
      let last' := if k = .output then r.last.set i (some t) else r.last
      let prev' := if isIntegration k then some t else r.prev
      match evictTime k r.prev last' t with
      | none => ({ r with last := last', prev := prev' }, some (.ok vs))
      | some m => ({ data := clear r.data m, last := last', prev := prev' }, some (.ok vs))
  | .finalize => ({ r with data := [] }, none)

def runS (c : Cfg) : SState → List Ev → List (Option (Except Err (List Rat)))
  | _, [] => []
  | s, ev :: evs => (stepS c s ev).2 :: runS c (stepS c s ev).1 evs

def runR (k : SlotKind) : RState → List Ev → List (Option (Except Err (List Rat)))
  | _, [] => []
  | r, ev :: evs => (stepR k r ev).2 :: runR k (stepR k r ev).1 evs

def finalS (c : Cfg) : SState → List Ev → SState
  | s, [] => s
  | s, ev :: evs => finalS c (stepS c s ev).1 evs

def statesS (c : Cfg) : SState → List Ev → List SState
  | _, [] => []
  | s, ev :: evs => (stepS c s ev).1 :: statesS c (stepS c s ev).1 evs

/-- Σ `nbytes` of the entries held in RAM -/
def ramBytes : List (Entry Stored) → Int
  | [] => 0
  | e :: es => (match e.v with | .inRam _ size => (size : Int) | .onDisk _ _ => 0) + ramBytes es

/-- the files named by the buffer, oldest first -/
def diskFiles : List (Entry Stored) → List File
  | [] => []
  | e :: es => match e.v with
    | .inRam _ _ => diskFiles es
    | .onDisk f _ => f :: diskFiles es

end Finam.SP
