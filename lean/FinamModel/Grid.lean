import FinamModel.Index
/-
  Model of the structured grids of `finam/data/grid_base.py` (`StructuredGrid`),
  `finam/data/grid_spec.py` (`RectilinearGrid`, `UniformGrid`, `EsriGrid`, `UnstructuredGrid`)
  and of the generators in `finam/data/grid_tools.py`.

  Coordinates are `Rat`.  A grid is given by its increasing axes (what
  `check_axes_monotonicity` leaves in `self._axes`), the per-axis direction flags
  (`axes_increase`), `axes_reversed`, `order` and the data location.  Uniform and ESRI grids are
  the same structure with particular axes / flags (their constructors only compute the axes).
-/
namespace Finam

/-- `finam.Location` -/
inductive Loc where
  | cells | points
deriving DecidableEq, Repr, Inhabited

def Order.swap : Order → Order
  | .C => .F
  | .F => .C

/-- `point_order(order, axes_reversed)` (grid_tools.py:9-28) -/
def pointOrder (o : Order) (axesReversed : Bool) : Order := if axesReversed then o.swap else o

/-- `order_map(shape, of, to)` (grid_tools.py:31-52):
    `arange(size).reshape(shape, order=of).reshape(-1, order=to)[k]` -/
def orderMap (shape : List Nat) (of to : Order) (k : Nat) : Nat := ravel of shape (unravel to shape k)

structure SGrid where
  /-- `self.axes`: xyz order, every axis increasing -/
  axes : List (List Rat)
  /-- `self.axes_increase` -/
  inc : List Bool
  /-- `self.axes_reversed` -/
  rev : Bool
  order : Order
  /-- `self.data_location` -/
  loc : Loc
  /-- `self.crs` (only compared for equality) -/
  crs : Option Nat := none

namespace SGrid

/-- `dims` (grid_spec.py:163-166) -/
def dims (g : SGrid) : List Nat := g.axes.map List.length
def dim (g : SGrid) : Nat := g.axes.length

/-- one axis of `cell_axes` (grid_base.py:323-327): `(ax[:-1] + ax[1:]) / 2 if len(ax) > 1 else ax` -/
def cellAxis (ax : List Rat) : List Rat :=
  if ax.length > 1 then List.zipWith (fun a b => (a + b) / 2) ax ax.tail else ax

def cellAxes (g : SGrid) : List (List Rat) := g.axes.map cellAxis

/-- `for i, inc in enumerate(axes_increase): if not inc: axes[i] = axes[i][::-1]` -/
def dirAxes : List (List Rat) → List Bool → List (List Rat)
  | ax :: axs, b :: bs => (if b then ax else ax.reverse) :: dirAxes axs bs
  | axs, _ => axs

/-- coordinate vector picked from per-axis coordinate lists at a multi-index -/
def pick (axes : List (List Rat)) (ix : List Nat) : List Rat :=
  List.zipWith (fun ax i => ax.getD i 0) axes ix

/-- `gen_points(axes, order, axes_increase)` (grid_tools.py:113-153): direction flags applied,
    padded to three axes with `[0.0]`, `mgrid` indices flattened in `order`, first `dim` columns. -/
def genPoints (axes : List (List Rat)) (o : Order) (inc : List Bool) : List (List Rat) :=
  let ax := dirAxes axes inc
  let ax3 := ax ++ List.replicate (3 - ax.length) [0]
  let d3 := ax3.map List.length
  (List.range (prod d3)).map fun k => (pick ax3 (unravel o d3 k)).take ax.length

/-- `points` (grid_base.py:335-342) -/
def points (g : SGrid) : List (List Rat) := genPoints g.axes (pointOrder g.order g.rev) g.inc

/-- `cell_centers` (grid_base.py:352-359) -/
def cellCenters (g : SGrid) : List (List Rat) :=
  genPoints g.cellAxes (pointOrder g.order g.rev) g.inc

/-- `data_points` (grid_base.py:157-162) -/
def dataPoints (g : SGrid) : List (List Rat) :=
  if g.loc = .points then g.points else g.cellCenters

/-- `data_axes` (grid_base.py:377-385) -/
def dataAxes (g : SGrid) : List (List Rat) :=
  let axes := if g.loc = .cells then g.cellAxes else g.axes
  let l := dirAxes axes g.inc
  if g.rev then l.reverse else l

/-- `StructuredGrid.data_shape` (grid_base.py:394-400) for a given location -/
def shapeFor (g : SGrid) (l : Loc) : List Nat :=
  let d := if g.rev then g.dims.reverse else g.dims
  if l = .cells then d.map (fun n => max (n - 1) 1) else d

def dataShape (g : SGrid) : List Nat := g.shapeFor g.loc

/-- `data_size` (grid_base.py:164-167) -/
def dataSize (g : SGrid) : Nat := prod g.dataShape

/-- `point_count`, `cell_count` (grid_base.py:311-320) -/
def pointCount (g : SGrid) : Nat := prod g.dims
def cellCount (g : SGrid) : Nat := prod (g.dims.map fun n => max (n - 1) 1)

/-- `mesh_dim` (grid_base.py:361-364) -/
def meshDim (g : SGrid) : Nat := (g.dims.filter (· > 1)).length

/-- The coordinate (xyz order) of the element at multi-index `i` of a data array in `data_shape`,
    read off the per-axis `data_axes`: array axis `k` is spatial axis `k` (or `dim-1-k` when the
    axes are reversed). -/
def coordAt (g : SGrid) (i : List Nat) : List Rat :=
  let c := pick g.dataAxes i
  if g.rev then c.reverse else c

end SGrid

/-- the Fortran-order cell table of `gen_cells` (grid_tools.py:156-214) for the squeezed cell
    dimensions `c_dim`; the integer arithmetic is copied literally. -/
def genCellsF (cdim : List Nat) : List (List Nat) :=
  match cdim with
  | [] => [[0]]
  | [a] => (List.range a).map fun j => [j, j + 1]
  | [a, b] => (List.range (a * b)).map fun j =>
      let c3 := j + j / a
      let c2 := c3 + 1
      let c1 := c3 + 2 + a
      let c0 := c1 - 1
      [c0, c1, c2, c3]
  | a :: b :: c :: _ => (List.range (a * b * c)).map fun j =>
      let c7 := j + (a + b + 1) * (j / (a * b)) + (j % (a * b)) / a
      let c6 := c7 + 1
      let c5 := c7 + 2 + a
      let c4 := c5 - 1
      let c3 := c7 + (1 + a) * (1 + b)
      let c2 := c3 + 1
      let c1 := c3 + 2 + a
      let c0 := c1 - 1
      [c0, c1, c2, c3, c4, c5, c6, c7]

/-- `gen_cells(dims, order)`: for `order == "C"` and more than one non-degenerate axis the point
    ids are mapped through `order_map(dims, of="C", to="F")` and the rows reordered by
    `order_map(c_dim, of="F", to="C")`. -/
def genCells (dims : List Nat) (o : Order) : List (List Nat) :=
  let cdim := (dims.filter (· > 1)).map (· - 1)
  let c := genCellsF cdim
  if o = .C ∧ cdim.length > 1 then
    let c1 := c.map fun row => row.map (orderMap dims .C .F)
    (List.range c1.length).map fun j => c1.getD (orderMap cdim .F .C j) []
  else c

namespace SGrid

/-- `cells` (grid_base.py:344-350) -/
def cells (g : SGrid) : List (List Nat) := genCells g.dims (pointOrder g.order g.rev)

end SGrid

/-- componentwise mean of a list of points (`np.mean(points, axis=1)` in `gen_node_centers`) -/
def meanPts (dim : Nat) (ps : List (List Rat)) : List Rat :=
  (List.range dim).map fun a => (ps.map (·.getD a 0)).sum / (ps.length : Rat)

/-- `UnstructuredGrid` as produced by `RectilinearGrid.to_unstructured` (grid_spec.py:145-160) -/
structure UGrid where
  dim : Nat
  points : List (List Rat)
  cells : List (List Nat)
  /-- `NODE_COUNT[cell_types]`: every cell of a structured grid has the same type -/
  nodeCount : Nat
  loc : Loc
  order : Order

namespace UGrid

/-- `gen_node_centers` (grid_tools.py:55-76) -/
def cellCenters (u : UGrid) : List (List Rat) :=
  u.cells.map fun row => meanPts u.dim ((row.take u.nodeCount).map fun p => u.points.getD p [])

def dataPoints (u : UGrid) : List (List Rat) := if u.loc = .points then u.points else u.cellCenters

/-- `UnstructuredGrid.data_shape` (grid_spec.py:520-527) -/
def dataShape (u : UGrid) : List Nat := if u.loc = .points then [u.points.length] else [u.cells.length]
def dataSize (u : UGrid) : Nat := if u.loc = .points then u.points.length else u.cells.length

end UGrid

/-- `NODE_COUNT[cell_types]` of a structured grid: VERTEX 1, LINE 2, QUAD 4, HEX 8 by `mesh_dim`
    (grid_base.py:366-375 with the generated `NODE_COUNT` table) -/
def nodeCountOfMeshDim (m : Nat) : Nat :=
  match m with | 0 => 1 | 1 => 2 | 2 => 4 | _ => 8

def SGrid.toUnstructured (g : SGrid) : UGrid :=
  ⟨g.dim, g.points, g.cells, nodeCountOfMeshDim g.meshDim, g.loc, g.order⟩

/-! ### The `data_shape` / `data_size` memo of `RectilinearGrid` (grid_spec.py:142-143, 170-182, 225-233)

A pool of grid objects of one geometry; `copy` (shallow or deep: `__dict__` is copied with the
memo fields) appends an object, the casts (`to_unstructured`, `to_rectilinear`, `to_uniform`)
construct a fresh object. -/

structure GObj where
  loc : Loc
  /-- `_data_shape` -/
  memoShape : Option (List Nat)
  /-- `_data_size` -/
  memoSize : Option Nat
deriving Repr, DecidableEq

inductive GOp where
  | readShape (k : Nat)
  | readSize (k : Nat)
  | readPoints (k : Nat)
  | setLoc (k : Nat) (l : Loc)
  | copy (k : Nat)
  | cast (k : Nat)
deriving Repr

inductive GObs where
  | shape (s : List Nat)
  | size (n : Nat)
  | npoints (n : Nat)
  | done
  | rejected
  | bad
deriving Repr, DecidableEq

/-- One operation. `g` carries the fixed geometry and layout, `valid` is `valid_locations`.
    The setter stores the location only after `_check_location` accepted it and then forgets both
    memo fields. -/
def gstep (g : SGrid) (valid : List Loc) (pool : List GObj) : GOp → List GObj × GObs
  | .readShape k =>
    match pool[k]? with
    | none => (pool, .bad)
    | some ob =>
      match ob.memoShape with
      | some s => (pool, .shape s)
      | none =>
        let s := g.shapeFor ob.loc
        (pool.set k { ob with memoShape := some s }, .shape s)
  | .readSize k =>
    match pool[k]? with
    | none => (pool, .bad)
    | some ob =>
      match ob.memoSize with
      | some n => (pool, .size n)
      | none =>
        -- `Grid.data_size` is `np.prod(self.data_shape)`: reading it fills the shape memo as well
        let s := match ob.memoShape with | some s => s | none => g.shapeFor ob.loc
        (pool.set k { ob with memoShape := some s, memoSize := some (prod s) }, .size (prod s))
  | .readPoints k =>
    match pool[k]? with
    | none => (pool, .bad)
    | some ob => (pool, .npoints ({ g with loc := ob.loc }.dataPoints.length))
  | .setLoc k l =>
    match pool[k]? with
    | none => (pool, .bad)
    | some ob =>
      if l ∈ valid then (pool.set k { ob with loc := l, memoShape := none, memoSize := none }, .done)
      else (pool, .rejected)
  | .copy k =>
    match pool[k]? with
    | none => (pool, .bad)
    | some ob => (pool ++ [ob], .done)
  | .cast k =>
    match pool[k]? with
    | none => (pool, .bad)
    | some ob => (pool ++ [{ loc := ob.loc, memoShape := none, memoSize := none }], .done)

def grun (g : SGrid) (valid : List Loc) : List GObj → List GOp → List GObs
  | _, [] => []
  | pool, op :: ops => (gstep g valid pool op).2 :: grun g valid (gstep g valid pool op).1 ops

def gfinal (g : SGrid) (valid : List Loc) : List GObj → List GOp → List GObj
  | pool, [] => pool
  | pool, op :: ops => gfinal g valid (gstep g valid pool op).1 ops

/-- a freshly constructed grid object -/
def GObj.fresh (l : Loc) : GObj := ⟨l, none, none⟩

end Finam
