import FinamModel.Info
/-!
  Helper lemmas for the metadata exchange model (`Info.lean`).
-/
namespace Finam.Info

theorem pick_isSome {α} (a b : Option α) : (pick a b).isSome = (a.isSome || b.isSome) := by
  cases a <;> simp [pick]

theorem pick_some {α} (x : α) (b : Option α) : pick (some x) b = some x := rfl
theorem pick_none {α} (b : Option α) : pick none b = b := rfl

/-! ### `fillMeta` -/

theorem fillMeta_error (req own : List (String × Option Nat)) (e : Err)
    (h : fillMeta req own = .error e) : e = .metaErr := by
  induction own with
  | nil => simp [fillMeta] at h
  | cons x rest ih =>
    obtain ⟨k, v⟩ := x
    cases v with
    | some v =>
      simp only [fillMeta] at h
      cases hr : fillMeta req rest with
      | ok r => simp [hr] at h
      | error e' => simp only [hr, Except.error.injEq] at h; subst h; exact ih hr
    | none =>
      simp only [fillMeta] at h
      split at h
      · cases hr : fillMeta req rest with
        | ok r => simp [hr] at h
        | error e' => simp only [hr, Except.error.injEq] at h; subst h; exact ih hr
      · cases h; rfl

/-- after the fill every entry has a value: the own one if it was set, else the requested one -/
theorem fillMeta_ok (req : List (String × Option Nat)) : ∀ (own m : List (String × Option Nat)),
    fillMeta req own = .ok m →
      (∀ e ∈ m, e.2.isSome) ∧ m.map (·.1) = own.map (·.1) ∧
      (∀ k v, (k, some v) ∈ own → (k, some v) ∈ m) ∧
      (∀ k, (k, none) ∈ own → ∃ x, req.lookup k = some (some x) ∧ (k, some x) ∈ m) := by
  intro own
  induction own with
  | nil => intro m h; simp [fillMeta] at h; subst h; simp
  | cons x rest ih =>
    intro m h
    obtain ⟨k, v⟩ := x
    cases v with
    | some v =>
      simp only [fillMeta] at h
      cases hr : fillMeta req rest with
      | error e' => simp [hr] at h
      | ok r =>
        simp only [hr, Except.ok.injEq] at h; subst h
        obtain ⟨h1, h2, h3, h4⟩ := ih r hr
        refine ⟨?_, ?_, ?_, ?_⟩
        · intro e he; rcases List.mem_cons.mp he with rfl | he; · rfl
          exact h1 e he
        · simp [h2]
        · intro k' v' hm
          rcases List.mem_cons.mp hm with heq | hm
          · cases heq; exact List.mem_cons_self
          · exact List.mem_cons_of_mem _ (h3 k' v' hm)
        · intro k' hm
          rcases List.mem_cons.mp hm with heq | hm
          · cases heq
          · obtain ⟨x, hx1, hx2⟩ := h4 k' hm; exact ⟨x, hx1, List.mem_cons_of_mem _ hx2⟩
    | none =>
      simp only [fillMeta] at h
      split at h
      · rename_i x hx
        cases hr : fillMeta req rest with
        | error e' => simp [hr] at h
        | ok r =>
          simp only [hr, Except.ok.injEq] at h; subst h
          obtain ⟨h1, h2, h3, h4⟩ := ih r hr
          refine ⟨?_, ?_, ?_, ?_⟩
          · intro e he; rcases List.mem_cons.mp he with rfl | he; · rfl
            exact h1 e he
          · simp [h2]
          · intro k' v' hm
            rcases List.mem_cons.mp hm with heq | hm
            · cases heq
            · exact List.mem_cons_of_mem _ (h3 k' v' hm)
          · intro k' hm
            rcases List.mem_cons.mp hm with heq | hm
            · cases heq; exact ⟨x, hx, List.mem_cons_self⟩
            · obtain ⟨y, hy1, hy2⟩ := h4 k' hm; exact ⟨y, hy1, List.mem_cons_of_mem _ hy2⟩
      · cases h

/-! ### `Output.get_info` -/

theorem outputGetInfo_ok (R : Rel) (o : OutState) (req r : Info) (o' : OutState)
    (h : outputGetInfo R o req = .ok (r, o')) : ∃ oi, o.info = some oi ∧
      accepts R oi req true = true ∧
      r.time = pick oi.time req.time ∧ (o.static = false → r.time.isSome) ∧
      r.grid = pick oi.grid req.grid ∧ r.grid.isSome ∧
      r.units = pick oi.units req.units ∧ r.units.isSome ∧
      r.mask = oi.mask ∧ fillMeta req.extra oi.extra = .ok r.extra ∧
      o' = ⟨some r, o.exchanged + 1, o.static⟩ := by
  simp only [outputGetInfo] at h
  cases hi : o.info with
  | none => simp [hi] at h
  | some oi =>
    simp only [hi] at h
    split at h
    · cases h
    · rename_i hacc
      cases hg : pick oi.grid req.grid with
      | none => simp [hg] at h
      | some g =>
        simp only [hg] at h
        split at h
        · cases h
        · rename_i ht
          cases hu : pick oi.units req.units with
          | none => simp [hu] at h
          | some u =>
            simp only [hu] at h
            cases hm : fillMeta req.extra oi.extra with
            | error e => simp [hm] at h
            | ok m =>
              simp only [hm, Except.ok.injEq, Prod.mk.injEq] at h
              obtain ⟨rfl, rfl⟩ := h
              refine ⟨oi, rfl, by simpa using hacc, rfl, ?_, hg.symm, rfl, hu.symm, rfl, rfl, hm, rfl⟩
              intro hs
              simp only [hs, Bool.not_false, Bool.and_true, Bool.and_eq_true, Option.isNone_iff_eq_none,
                not_and] at ht
              simp only [pick_isSome]
              cases h1 : oi.time with
              | some t => simp
              | none =>
                have := ht h1
                cases h2 : req.time with
                | none => exact absurd h2 this
                | some t => simp

theorem outputGetInfo_error (R : Rel) (o : OutState) (req : Info) (oi : Info) (e : Err)
    (hi : o.info = some oi) (h : outputGetInfo R o req = .error e) : e = .metaErr := by
  simp only [outputGetInfo, hi] at h
  split at h
  · cases h; rfl
  · cases hg : pick oi.grid req.grid with
    | none => simp [hg] at h; exact h.symm
    | some g =>
      simp only [hg] at h
      split at h
      · cases h; rfl
      · cases hu : pick oi.units req.units with
        | none => simp [hu] at h; exact h.symm
        | some u =>
          simp only [hu] at h
          cases hm : fillMeta req.extra oi.extra with
          | error e' =>
            simp only [hm, Except.error.injEq] at h; subst h
            exact fillMeta_error _ _ _ hm
          | ok m => simp [hm] at h

/-- a request the output does not accept is answered with a metadata error -/
theorem outputGetInfo_reject (R : Rel) (o : OutState) (req oi : Info) (hi : o.info = some oi)
    (h : accepts R oi req true = false) : outputGetInfo R o req = .error .metaErr := by
  simp [outputGetInfo, hi, h]

/-! ### chains of adapters that do not rewrite metadata -/

def allIdentity (chain : List AState) : Prop := ∀ a ∈ chain, a.kind = .identity

theorem chain_identity_ok (R : Rel) : ∀ (chain : List AState) (o : OutState) (req r : Info) (chain' : List AState)
    (o' : OutState), allIdentity chain → chainGetInfo R chain o req = .ok (r, chain', o') →
    outputGetInfo R o req = .ok (r, o') := by
  intro chain
  induction chain with
  | nil =>
    intro o req r chain' o' _ h
    simp only [chainGetInfo] at h
    cases ho : outputGetInfo R o req with
    | error e => simp [ho] at h
    | ok p => obtain ⟨r2, o2⟩ := p; simp only [ho, Except.ok.injEq, Prod.mk.injEq] at h; obtain ⟨rfl, _, rfl⟩ := h; rfl
  | cons a rest ih =>
    intro o req r chain' o' hid h
    have ha : a.kind = .identity := hid a (by simp)
    simp only [chainGetInfo, ha] at h
    cases hc : chainGetInfo R rest o req with
    | error e => simp [hc] at h
    | ok p =>
      obtain ⟨r2, rest2, o2⟩ := p
      simp only [hc, Except.ok.injEq, Prod.mk.injEq] at h
      obtain ⟨rfl, _, rfl⟩ := h
      exact ih o req r2 rest2 o2 (fun b hb => hid b (List.mem_cons_of_mem _ hb)) hc

theorem chain_identity_error (R : Rel) : ∀ (chain : List AState) (o : OutState) (req : Info) (e : Err),
    allIdentity chain → chainGetInfo R chain o req = .error e → outputGetInfo R o req = .error e := by
  intro chain
  induction chain with
  | nil =>
    intro o req e _ h
    simp only [chainGetInfo] at h
    cases ho : outputGetInfo R o req with
    | error e' => simp only [ho, Except.error.injEq] at h; subst h; rfl
    | ok p => obtain ⟨r2, o2⟩ := p; simp [ho] at h
  | cons a rest ih =>
    intro o req e hid h
    have ha : a.kind = .identity := hid a (by simp)
    simp only [chainGetInfo, ha] at h
    cases hc : chainGetInfo R rest o req with
    | error e' =>
      simp only [hc, Except.error.injEq] at h; subst h
      exact ih o req e' (fun b hb => hid b (List.mem_cons_of_mem _ hb)) hc
    | ok p => obtain ⟨r2, rest2, o2⟩ := p; simp [hc] at h

/-- an identity chain forwards the output's verdict -/
theorem chain_identity_of_error (R : Rel) : ∀ (chain : List AState) (o : OutState) (req : Info) (e : Err),
    allIdentity chain → outputGetInfo R o req = .error e → chainGetInfo R chain o req = .error e := by
  intro chain
  induction chain with
  | nil => intro o req e _ h; simp [chainGetInfo, h]
  | cons a rest ih =>
    intro o req e hid h
    have ha : a.kind = .identity := hid a (by simp)
    simp only [chainGetInfo, ha]
    rw [ih o req e (fun b hb => hid b (List.mem_cons_of_mem _ hb)) h]

theorem chain_identity_of_ok (R : Rel) : ∀ (chain : List AState) (o : OutState) (req r : Info) (o' : OutState),
    allIdentity chain → outputGetInfo R o req = .ok (r, o') →
    ∃ chain', chainGetInfo R chain o req = .ok (r, chain', o') := by
  intro chain
  induction chain with
  | nil => intro o req r o' _ h; exact ⟨[], by simp [chainGetInfo, h]⟩
  | cons a rest ih =>
    intro o req r o' hid h
    have ha : a.kind = .identity := hid a (by simp)
    obtain ⟨c', hc⟩ := ih o req r o' (fun b hb => hid b (List.mem_cons_of_mem _ hb)) h
    exact ⟨{ a with inInfo := some r, outInfo := some r } :: c', by simp only [chainGetInfo, ha, hc]⟩

/-! ### `overrideMeta` / `mergeInfo` -/

theorem overrideMeta_complete : ∀ (own base : List (String × Option Nat)),
    (∀ e ∈ base, e.2.isSome) → ∀ e ∈ overrideMeta base own, e.2.isSome := by
  intro own
  induction own with
  | nil => intro base h; simpa [overrideMeta] using h
  | cons x rest ih =>
    intro base h
    obtain ⟨k, v⟩ := x
    cases v with
    | none => simpa [overrideMeta] using ih base h
    | some v =>
      simp only [overrideMeta]
      apply ih
      intro e he
      split at he
      · simp only [List.mem_map] at he
        obtain ⟨e0, he0, rfl⟩ := he
        split
        · rfl
        · exact h e0 he0
      · simp only [List.mem_append, List.mem_singleton] at he
        rcases he with he | rfl
        · exact h e he
        · rfl

end Finam.Info

namespace Finam.Info

/-! ### rewriting adapters -/

/-- state invariant of a regridding adapter: once the output mask was settled it is known -/
def AInv (a : AState) : Prop :=
  (a.maskChecked = true → a.outputMask.isSome) ∧ (a.initialized = true → a.outputMask.isSome)

theorem ainv_fresh (k : AKind) : AInv { kind := k } := by
  constructor <;> intro h <;> cases h

theorem checkAndSetOutMask_ok (R : Rel) (a a' : AState) (h : checkAndSetOutMask R a = .ok a') :
    (a.maskChecked = true → a' = a) ∧
    (a.maskChecked = false → a' = { a with outputMask := pick a.outputMask a.downstreamMask,
                                            maskChecked := (pick a.outputMask a.downstreamMask).isSome }) := by
  simp only [checkAndSetOutMask] at h
  split at h
  · rename_i hc
    cases h
    exact ⟨fun _ => rfl, fun h2 => by simp [hc] at h2⟩
  · rename_i hc
    split at h
    · cases h
    · cases h
      exact ⟨fun h2 => absurd h2 hc, fun _ => rfl⟩

theorem mkInfo_ok (R : Rel) (i j : Info) (h : mkInfo R i = .ok j) : j = i := by
  simp only [mkInfo] at h
  split at h
  · cases h; rfl
  · cases h

theorem regridAfter_ok (R : Rel) (a a' : AState) (req inInfo out : Info)
    (h : regridAfter R a req inInfo = .ok (out, a')) (hinv : AInv a) :
    out.grid.isSome ∧ out.mask.isSome ∧ out.time = inInfo.time ∧ out.units = inInfo.units ∧
    out.extra = inInfo.extra ∧ AInv a' ∧ a'.kind = a.kind ∧
    out.grid = pick a.outputGrid req.grid ∧
    (a.maskChecked = false → a.initialized = false → out.mask = pick a.outputMask req.mask) := by
  simp only [regridAfter] at h
  split at h; · cases h
  rename_i h1
  split at h; · cases h
  split at h; · cases h
  rename_i h3
  split at h; · cases h
  split at h; · cases h
  split at h; · cases h
  have hog : (pick a.outputGrid req.grid).isSome := by
    rw [pick_isSome]
    cases hx : a.outputGrid.isSome <;> cases hy : req.grid.isSome <;> simp_all
  split at h
  · -- first call
    rename_i hinit
    cases hc1 : checkAndSetOutMask R
        { a with inputGrid := pick inInfo.grid a.inputGrid, inputMask := pick a.inputMask inInfo.mask,
                 outputGrid := pick a.outputGrid req.grid, downstreamMask := req.mask } with
    | error e => simp [hc1] at h
    | ok a2 =>
      simp only [hc1] at h
      cases hc2 : checkAndSetOutMask R a2 with
      | error e => simp [hc2] at h
      | ok a3 =>
        simp only [hc2] at h
        cases hm : mkInfo R inInfo with
        | error e => simp [hm] at h
        | ok i =>
          have hi := mkInfo_ok R _ _ hm
          subst hi
          simp only [hm] at h
          split at h
          · simp only [Except.ok.injEq, Prod.mk.injEq] at h
            obtain ⟨rfl, rfl⟩ := h
            -- the output mask after the two settle calls
            have hmask : a3.outputMask.isSome ∧ a3.outputGrid = pick a.outputGrid req.grid ∧ a3.kind = a.kind ∧
                (a.maskChecked = false → a3.outputMask = pick a.outputMask req.mask) := by
              obtain ⟨p1, p2⟩ := checkAndSetOutMask_ok R _ _ hc1
              obtain ⟨q1, q2⟩ := checkAndSetOutMask_ok R _ _ hc2
              cases hmc : a.maskChecked with
              | true =>
                have e2 := p1 hmc; subst e2
                have e3 := q1 hmc; subst e3
                exact ⟨hinv.1 hmc, rfl, rfl, fun h => by cases h⟩
              | false =>
                have e2 := p2 hmc; subst e2
                have hsome : (pick a.outputMask req.mask).isSome := by
                  rw [pick_isSome]
                  cases hx : a.outputMask.isSome <;> cases hy : req.mask.isSome <;> simp_all
                have e3 := q1 (by simpa using hsome); subst e3
                exact ⟨hsome, rfl, rfl, fun _ => rfl⟩
            refine ⟨by simpa [hmask.2.1] using hog, hmask.1, rfl, rfl, rfl, ⟨fun _ => hmask.1, fun _ => hmask.1⟩,
              hmask.2.2.1, hmask.2.1, fun hc _ => hmask.2.2.2 hc⟩
          · cases h
  · -- later calls
    rename_i hinit
    have hinit' : a.initialized = true := by simpa using hinit
    cases hm : mkInfo R inInfo with
    | error e => simp [hm] at h
    | ok i =>
      have hi := mkInfo_ok R _ _ hm
      subst hi
      simp only [hm] at h
      split at h
      · simp only [Except.ok.injEq, Prod.mk.injEq] at h
        obtain ⟨rfl, rfl⟩ := h
        exact ⟨hog, hinv.2 hinit', rfl, rfl, rfl, ⟨hinv.1, hinv.2⟩, rfl, rfl, fun _ hi => by simp [hinit'] at hi⟩
      · cases h

end Finam.Info

namespace Finam.Info

def ChainInv (chain : List AState) : Prop := ∀ a ∈ chain, AInv a

theorem chainInv_fresh (kinds : List AKind) : ChainInv (kinds.map fun k => { kind := k }) := by
  intro a ha
  simp only [List.mem_map] at ha
  obtain ⟨k, _, rfl⟩ := ha
  exact ainv_fresh k

theorem ainv_set_infos (a : AState) (x y : Option Info) (h : AInv a) :
    AInv { a with inInfo := x, outInfo := y } := h

/-- what comes down an adapter chain is a complete info (no unset field), whatever the adapters -/
theorem chain_complete (R : Rel) : ∀ (chain : List AState) (o : OutState) (req r : Info) (chain' : List AState)
    (o' : OutState), chainGetInfo R chain o req = .ok (r, chain', o') → o.static = false →
    (∀ oi, o.info = some oi → oi.mask.isSome) → ChainInv chain → Complete r ∧ ChainInv chain' := by
  intro chain
  induction chain with
  | nil =>
    intro o req r chain' o' h hs hm _
    simp only [chainGetInfo] at h
    cases ho : outputGetInfo R o req with
    | error e => simp [ho] at h
    | ok p =>
      obtain ⟨r2, o2⟩ := p
      simp only [ho, Except.ok.injEq, Prod.mk.injEq] at h
      obtain ⟨rfl, rfl, rfl⟩ := h
      obtain ⟨oi, hoi, _, _, ht, _, hg, _, hu, hmask, hex, _⟩ := outputGetInfo_ok R o req r2 o2 ho
      refine ⟨⟨ht hs, hg, hu, ?_, (fillMeta_ok _ _ _ hex).1⟩, ?_⟩
      · rw [hmask]; exact hm oi hoi
      · intro a ha; cases ha
  | cons a rest ih =>
    intro o req r chain' o' h hs hm hinv
    have hrest : ChainInv rest := fun b hb => hinv b (List.mem_cons_of_mem _ hb)
    have ha : AInv a := hinv a (by simp)
    simp only [chainGetInfo] at h
    cases hk : a.kind with
    | identity =>
      simp only [hk] at h
      cases hc : chainGetInfo R rest o req with
      | error e => simp [hc] at h
      | ok p =>
        obtain ⟨r2, rest2, o2⟩ := p
        simp only [hc, Except.ok.injEq, Prod.mk.injEq] at h
        obtain ⟨rfl, rfl, rfl⟩ := h
        obtain ⟨c1, c2⟩ := ih o req r2 rest2 o2 hc hs hm hrest
        refine ⟨c1, ?_⟩
        intro b hb
        rcases List.mem_cons.mp hb with rfl | hb
        · exact ha
        · exact c2 b hb
    | gridToValue =>
      simp only [hk] at h
      cases hmk : mkInfo R req with
      | error e => simp [hmk, Except.map] at h
      | ok i =>
        simp only [hmk, Except.map] at h
        cases hc : chainGetInfo R rest o { i with grid := none } with
        | error e => simp [hc] at h
        | ok p =>
          obtain ⟨r2, rest2, o2⟩ := p
          simp only [hc] at h
          cases hm2 : mkInfo R r2 with
          | error e => simp [hm2] at h
          | ok j =>
            have := mkInfo_ok R _ _ hm2; subst this
            simp only [hm2, Except.ok.injEq, Prod.mk.injEq] at h
            obtain ⟨rfl, rfl, rfl⟩ := h
            obtain ⟨c1, c2⟩ := ih o _ j rest2 o2 hc hs hm hrest
            refine ⟨⟨c1.1, rfl, c1.2.2.1, c1.2.2.2.1, c1.2.2.2.2⟩, ?_⟩
            intro b hb
            rcases List.mem_cons.mp hb with rfl | hb
            · exact ha
            · exact c2 b hb
    | sumOverTime =>
      simp only [hk] at h
      cases hmk : mkInfo R req with
      | error e => simp [hmk, Except.map] at h
      | ok i =>
        simp only [hmk, Except.map] at h
        cases hc : chainGetInfo R rest o { i with units := none } with
        | error e => simp [hc] at h
        | ok p =>
          obtain ⟨r2, rest2, o2⟩ := p
          simp only [hc] at h
          cases hu : r2.units with
          | none => simp [hu] at h
          | some u =>
            simp only [hu] at h
            cases hm2 : mkInfo R r2 with
            | error e => simp [hm2] at h
            | ok j =>
              have := mkInfo_ok R _ _ hm2; subst this
              simp only [hm2, Except.ok.injEq, Prod.mk.injEq] at h
              obtain ⟨rfl, rfl, rfl⟩ := h
              obtain ⟨c1, c2⟩ := ih o _ j rest2 o2 hc hs hm hrest
              refine ⟨⟨c1.1, c1.2.1, rfl, c1.2.2.2.1, c1.2.2.2.2⟩, ?_⟩
              intro b hb
              rcases List.mem_cons.mp hb with rfl | hb
              · exact ha
              · exact c2 b hb
    | regrid =>
      simp only [hk] at h
      cases hmk : mkInfo R req with
      | error e => simp [hmk, Except.map] at h
      | ok i =>
        simp only [hmk, Except.map] at h
        cases hc : chainGetInfo R rest o { i with grid := a.inputGrid, mask := none } with
        | error e => simp [hc] at h
        | ok p =>
          obtain ⟨r2, rest2, o2⟩ := p
          simp only [hc] at h
          cases hr : regridAfter R a req r2 with
          | error e => simp [hr] at h
          | ok q =>
            obtain ⟨out, a2⟩ := q
            simp only [hr, Except.ok.injEq, Prod.mk.injEq] at h
            obtain ⟨rfl, rfl, rfl⟩ := h
            obtain ⟨c1, c2⟩ := ih o _ r2 rest2 o2 hc hs hm hrest
            obtain ⟨g1, g2, g3, g4, g5, g6, _, _, _⟩ := regridAfter_ok R a a2 req r2 out hr ha
            refine ⟨⟨g3 ▸ c1.1, g1, g4 ▸ c1.2.2.1, g2, g5 ▸ c1.2.2.2.2⟩, ?_⟩
            intro b hb
            rcases List.mem_cons.mp hb with rfl | hb
            · exact g6
            · exact c2 b hb

theorem mergeInfo_complete (src own : Info) (h : Complete src) : Complete (mergeInfo src own) := by
  obtain ⟨h1, h2, h3, h4, h5⟩ := h
  refine ⟨?_, ?_, ?_, h4, overrideMeta_complete own.extra src.extra h5⟩
  · simp only [mergeInfo, pick_isSome, h1, Bool.or_true]
  · simp only [mergeInfo, pick_isSome, h2, Bool.or_true]
  · simp only [mergeInfo, pick_isSome, h3, Bool.or_true]

/-- what a successful `Input.exchange_info` did -/
theorem exchange_ok (R : Rel) (chain : List AState) (o : OutState) (inp inp' : InState) (chain' : List AState)
    (o' : OutState) (h : exchange R chain o inp = .ok (inp', chain', o')) :
    ∃ src, chainGetInfo R chain o inp.info = .ok (src, chain', o') ∧ accepts R inp.info src false = true ∧
      inp' = ⟨mergeInfo src inp.info, true, some src⟩ ∧ inp.exchanged = false := by
  simp only [exchange] at h
  split at h; · cases h
  rename_i hx
  cases hc : chainGetInfo R chain o inp.info with
  | error e => simp [hc] at h
  | ok p =>
    obtain ⟨src, c2, o2⟩ := p
    simp only [hc] at h
    split at h; · cases h
    rename_i hacc
    split at h; · cases h
    split at h; · cases h
    simp only [Except.ok.injEq, Prod.mk.injEq] at h
    obtain ⟨rfl, rfl, rfl⟩ := h
    exact ⟨src, rfl, by simpa using hacc, rfl, by simpa using hx⟩

end Finam.Info
