import FinamModel.Basic
/-!
  Model of `finam/adapters/regrid.py` (`ARegridding._get_in_coords/_get_out_coords`,
  `RegridNearest._update_grid_specs/_get_data`, the unstructured/masked path of
  `RegridLinear._update_grid_specs/_get_data`) together with the flat level of
  `finam/data/tools/mask.py` (`to_compressed` / `from_compressed`).

  Everything is flat: a grid contributes the list of its data locations `data_points` *in grid
  order* (the order in which `np.ravel(data, order=grid.order)` enumerates the data; that this list
  pairs every multi-index with the right coordinate for every layout is property C14), a mask is the
  list `np.ravel(mask, order=grid.order)`, a field is the list of its values in the same order.

  External libraries are parameters: `nn` (`scipy.spatial.KDTree(points).query(q)[1]`, an arg-min of
  the Euclidean distance) and `ι` (`scipy.interpolate.LinearNDInterpolator`, `none` = NaN).
-/
namespace Finam.Regrid
open Finam

abbrev Pt := List Rat

/-- squared Euclidean distance -/
def dist2 : Pt → Pt → Rat
  | a :: as, b :: bs => (a - b) * (a - b) + dist2 as bs
  | _, _ => 0

/-- `arr[np.logical_not(mask)]` / `arr.compress(np.logical_not(mask))` on flat lists:
    the elements at unmasked positions, in order -/
def compress {α : Type} : List Bool → List α → List α
  | m :: ms, x :: xs => if m then compress ms xs else x :: compress ms xs
  | _, _ => []

/-- one element of a delivered (masked) array -/
inductive Cell (α : Type) where
  | masked
  | nan
  | val (v : α)
deriving DecidableEq, Repr

/-- `data[np.logical_not(mask)] = xdata` followed by `to_masked(..., mask=mask)` on flat lists;
    `none` when the number of values differs from the number of unmasked positions (numpy raises) -/
def scatter {α : Type} : List Bool → List (Cell α) → Option (List (Cell α))
  | [], [] => some []
  | [], _ :: _ => none
  | true :: ms, xs => (scatter ms xs).map (Cell.masked :: ·)
  | false :: ms, x :: xs => (scatter ms xs).map (x :: ·)
  | false :: _, [] => none

/-- `from_compressed(xdata, shape, order, mask)` at the flat level -/
def fromCompressed {α : Type} (tm : List Bool) (xs : List (Cell α)) : Except Err (List (Cell α)) :=
  match scatter tm xs with
  | some l => .ok l
  | none => .error .other

/-- `data[ids]` (fancy indexing; an index out of range raises) -/
def cellAt {α : Type} (cv : List α) (i : Nat) : Cell α :=
  match cv[i]? with
  | some v => .val v
  | none => .nan

/-- **`RegridNearest`.**  `sp sm sv`: source locations, mask, values in source grid order;
    `tp tm`: target locations and output mask in target grid order.
    `_update_grid_specs`: `ids = KDTree(in_coords).query(out_coords)[1]` with
    `in_coords = data_points[~mask.ravel(order)]` on either side;
    `_get_data`: `from_compressed(to_compressed(in_data, order=in.order)[ids], shape, order=out.order, mask=out_mask)`. -/
def regridNearest {α : Type} (nn : List Pt → Pt → Nat) (sp : List Pt) (sm : List Bool) (sv : List α)
    (tp : List Pt) (tm : List Bool) : Except Err (List (Cell α)) :=
  if (compress sm sp).isEmpty then .error .other          -- KDTree of no points / query fails
  else if ((compress tm tp).map (nn (compress sm sp))).all (· < (compress sm sv).length) then
    fromCompressed tm ((compress tm tp).map fun q => cellAt (compress sm sv) (nn (compress sm sp) q))
  else .error .other                                       -- IndexError

/-- the mask asked for at the target side of `RegridLinear` (constructor `out_mask` or the consumer's):
    to be determined (`None` / `Mask.FLEX`), `Mask.NONE`, or an explicit mask -/
inductive MaskReq where
  | flex
  | none
  | explicit (m : List Bool)
deriving DecidableEq, Repr

/-- interpolated value as a cell: NaN stays NaN -/
def cellOfOpt {α : Type} : Option α → Cell α
  | some v => .val v
  | none => .nan

/-- the output mask of `RegridLinear` without nearest fill, from the outlier pattern:
    `None`/FLEX → the outliers; `Mask.NONE` → error if there is an outlier; explicit → error unless
    every outlier is masked (`is_sub_mask(outlier_mask, mask_save)`) -/
def linearMask (outlier : List Bool) : MaskReq → Except Err (List Bool)
  | .flex => .ok outlier
  | .none => if outlier.any id then .error .dataErr else .ok (outlier.map fun _ => false)
  | .explicit m =>
    if m.length = outlier.length ∧ (List.zipWith (fun o b => !o || b) outlier m).all id then .ok m
    else .error .dataErr

/-- mask used with nearest fill: the requested one, nothing masked for FLEX / NONE -/
def fillMask (n : Nat) : MaskReq → List Bool
  | .explicit m => m
  | _ => List.replicate n false

/-- **`RegridLinear`, unstructured / masked-source path.**
    `ι pts vals q` = `LinearNDInterpolator(pts, vals)(q)`; `zero` = the placeholder values used while
    setting up (`np.zeros`).  `out_ids` = NaN pattern of the set-up evaluation, `fill_ids` = nearest
    source index for those. -/
def regridLinear {α : Type} (ι : List Pt → List α → Pt → Option α) (zero : α) (nn : List Pt → Pt → Nat)
    (fill : Bool) (sp : List Pt) (sm : List Bool) (sv : List α) (tp : List Pt) (req : MaskReq) :
    Except Err (List (Cell α)) :=
  if (compress sm sp).isEmpty then .error .other
  else if fill then
    fromCompressed (fillMask tp.length req) ((compress (fillMask tp.length req) tp).map fun q =>
      if (ι (compress sm sp) ((compress sm sp).map fun _ => zero) q).isNone
      then cellAt (compress sm sv) (nn (compress sm sp) q)
      else cellOfOpt (ι (compress sm sp) (compress sm sv) q))
  else
    match linearMask (tp.map fun q => (ι (compress sm sp) ((compress sm sp).map fun _ => zero) q).isNone) req with
    | .error e => .error e
    | .ok tm => fromCompressed tm ((compress tm tp).map fun q => cellOfOpt (ι (compress sm sp) (compress sm sv) q))

/-- a concrete arg-min for the driver: the first index with minimal distance -/
def argminFrom (q : Pt) : List Pt → Nat → Nat → Rat → Nat
  | [], _, best, _ => best
  | p :: ps, i, best, bd => if dist2 p q < bd then argminFrom q ps (i + 1) i (dist2 p q) else argminFrom q ps (i + 1) best bd

def argminFirst (cs : List Pt) (q : Pt) : Nat :=
  match cs with
  | [] => 0
  | p :: ps => argminFrom q ps 1 0 (dist2 p q)

end Finam.Regrid
