import FinamModel.Basic
/-
  Model of `finam/adapters/time.py`: `TimeCachingAdapter` (buffer fed on notification, range check
  of `check_time`, `_clear_cached_data`) and the `_interpolate` bodies of `NextTime`,
  `PreviousTime`, `LinearTime`, `StepTime`, `StackTime`.

  Times are `Int` microseconds, values exact `Rat`.  A gridded payload is a tuple of independent
  scalar series (numpy broadcasts every operation below cell by cell), so the scalar model is run
  once per cell by the driver.
-/
namespace Finam.TA

inductive Kind where
  | next | prev | linear
  | step (pos : Rat)
deriving Repr, DecidableEq

/-- `data[-1]` -/
def lastE {α} (e0 : Entry α) : List (Entry α) → Entry α
  | [] => e0
  | e :: es => lastE e es

/-- `check_time(logger, time, (data[0][0], data[-1][0]))` preceded by the `len(self.data) == 0` test of
    `TimeCachingAdapter._get_data`: first the upper bound, then the lower bound, both `FinamTimeError`. -/
def checkRange {α} : List (Entry α) → Int → Except Err Unit
  | [], _ => .error .noData
  | e0 :: es, t =>
    if t > (lastE e0 es).t then .error .timeErr
    else if t < e0.t then .error .timeErr
    else .ok ()

/-- loop of `NextTime._interpolate`: `if time > t: continue; return data` -/
def nextLoop {α} : List (Entry α) → Int → Except Err α
  | [], _ => .error .timeErr
  | e :: es, t => if t > e.t then nextLoop es t else .ok e.v

/-- `NextTime._interpolate` (single-entry branch first) -/
def nextInterp {α} : List (Entry α) → Int → Except Err α
  | [e], _ => .ok e.v
  | d, t => nextLoop d t

/-- loop of `PreviousTime._interpolate`; `p` = `data[i-1]` (for `i = 0` Python's `data[-1]`) -/
def prevLoop {α} (p : Entry α) : List (Entry α) → Int → Except Err α
  | [], _ => .error .timeErr
  | e :: es, t =>
    if t > e.t then prevLoop e es t
    else if t = e.t then .ok e.v
    else .ok p.v

def prevInterp {α} : List (Entry α) → Int → Except Err α
  | [] , _ => .error .timeErr
  | [e], _ => .ok e.v
  | e0 :: es, t => prevLoop (lastE e0 es) (e0 :: es) t

/-- `dt = (time - t_prev) / (t - t_prev)` (a `timedelta` quotient) -/
def frac (tp tn t : Int) : Rat := ((t - tp : Int) : Rat) / ((tn - tp : Int) : Rat)

/-- `interpolate(old, new, dt) = old + dt * (new - old)` -/
def lerp (old new dt : Rat) : Rat := old + dt * (new - old)

/-- `interpolate_step(old, new, dt, step) = new if dt > step else old` -/
def stepSel {α} (old new : α) (dt pos : Rat) : α := if dt > pos then new else old

def linLoop (p : Entry Rat) : List (Entry Rat) → Int → Except Err Rat
  | [], _ => .error .timeErr
  | e :: es, t =>
    if t > e.t then linLoop e es t
    else if t = e.t then .ok e.v
    else .ok (lerp p.v e.v (frac p.t e.t t))

def linInterp : List (Entry Rat) → Int → Except Err Rat
  | [], _ => .error .timeErr
  | [e], _ => .ok e.v
  | e0 :: es, t => linLoop (lastE e0 es) (e0 :: es) t

def stepLoop {α} (pos : Rat) (p : Entry α) : List (Entry α) → Int → Except Err α
  | [], _ => .error .timeErr
  | e :: es, t =>
    if t > e.t then stepLoop pos e es t
    else if t = e.t then .ok e.v
    else .ok (stepSel p.v e.v (frac p.t e.t t) pos)

def stepInterp {α} (pos : Rat) : List (Entry α) → Int → Except Err α
  | [], _ => .error .timeErr
  | [e], _ => .ok e.v
  | e0 :: es, t => stepLoop pos (lastE e0 es) (e0 :: es) t

/-- `StackTime._interpolate`: every entry up to and including the first one at or after `time` -/
def stackInterp {α} : List (Entry α) → Int → List (Entry α)
  | [], _ => []
  | e :: es, t => if t > e.t then e :: stackInterp es t else [e]

def interp : Kind → List (Entry Rat) → Int → Except Err Rat
  | .next, d, t => nextInterp d t
  | .prev, d, t => prevInterp d t
  | .linear, d, t => linInterp d t
  | .step pos, d, t => stepInterp pos d t

/-- `_clear_cached_data(time)`: `while len(data) > 1 and data[1][0] <= time: data.pop(0)` -/
def clear {α} : List (Entry α) → Int → List (Entry α)
  | e0 :: e1 :: es, t => if e1.t ≤ t then clear (e1 :: es) t else e0 :: e1 :: es
  | d, _ => d

/-- `TimeCachingAdapter._get_data` without the eviction: emptiness, range check, `_interpolate` -/
def getData (k : Kind) (d : List (Entry Rat)) (t : Int) : Except Err Rat :=
  match checkRange d t with
  | .error e => .error e
  | .ok () => interp k d t

/-- Adapter state: `hist` = every notification ever received (ghost, for the specification),
    `buf` = `self.data`, `last` = time of the last successful request (ghost; the precondition
    "requests are non-decreasing" refers to it). -/
structure AState where
  hist : List (Entry Rat)
  buf  : List (Entry Rat)
  last : Option Int

inductive Ev where
  | push (t : Int) (v : Rat)   -- `_source_updated(time)`: pull from the source and buffer
  | pull (t : Int)             -- `_get_data(time, _)`

def init : AState := ⟨[], [], none⟩

def stepImpl (k : Kind) (s : AState) : Ev → AState × Option (Except Err Rat)
  | .push t v => ({ s with hist := s.hist ++ [⟨t, v⟩], buf := s.buf ++ [⟨t, v⟩] }, none)
  | .pull t =>
    match getData k s.buf t with
    | .ok v => ({ s with buf := clear s.buf t, last := some t }, some (.ok v))
    | .error e => (s, some (.error e))

/-! ### Specification: the mathematical definition on the full publication history -/

/-- first publication at or after `t` -/
def firstAtOrAfter {α} (h : List (Entry α)) (t : Int) : Option (Entry α) :=
  h.find? (fun e => decide (t ≤ e.t))

/-- last publication at or before `t` -/
def lastAtOrBefore {α} (h : List (Entry α)) (t : Int) : Option (Entry α) :=
  (h.filter (fun e => decide (e.t ≤ t))).getLast?

/-- value of the interpolant of kind `k` at `t`, from the two bracketing publications -/
def specOf (k : Kind) (lo hi : Entry Rat) (t : Int) : Rat :=
  match k with
  | .next => hi.v
  | .prev => lo.v
  | .linear => if lo.t = hi.t then lo.v
               else lo.v + ((t - lo.t : Int) : Rat) / ((hi.t - lo.t : Int) : Rat) * (hi.v - lo.v)
  | .step pos => if lo.t = hi.t then lo.v
                 else if ((t - lo.t : Int) : Rat) / ((hi.t - lo.t : Int) : Rat) > pos then hi.v else lo.v

def specVal (k : Kind) (h : List (Entry Rat)) (t : Int) : Option Rat :=
  match lastAtOrBefore h t, firstAtOrAfter h t with
  | some lo, some hi => some (specOf k lo hi t)
  | _, _ => none

/-- the property's answer: defined inside the published range, time error outside (no
    extrapolation), "no data" before the first publication -/
def specAnswer (k : Kind) (h : List (Entry Rat)) (t : Int) : Except Err Rat :=
  match specVal k h t with
  | some v => .ok v
  | none => if h = [] then .error .noData else .error .timeErr

def answerSpec (k : Kind) (s : AState) : Ev → Option (Except Err Rat)
  | .push _ _ => none
  | .pull t => some (specAnswer k s.hist t)

def runBoth (k : Kind) : AState → List Ev → List (Option (Except Err Rat) × Option (Except Err Rat))
  | _, [] => []
  | s, ev :: evs => ((stepImpl k s ev).2, answerSpec k s ev) :: runBoth k (stepImpl k s ev).1 evs

def runFinal (k : Kind) : AState → List Ev → AState
  | s, [] => s
  | s, ev :: evs => runFinal k (stepImpl k s ev).1 evs

def runLens (k : Kind) : AState → List Ev → List Nat
  | _, [] => []
  | s, ev :: evs => (stepImpl k s ev).1.buf.length :: runLens k (stepImpl k s ev).1 evs

/-- precondition of one event: publication times strictly increase, request times do not decrease
    (relative to the last served request) -/
def preB (s : AState) : Ev → Bool
  | .push t _ => s.hist.all fun e => decide (e.t < t)
  | .pull t => match s.last with | some a => decide (a ≤ t) | none => true

def preAllB (k : Kind) : AState → List Ev → Bool
  | _, [] => true
  | s, ev :: evs => preB s ev && preAllB k (stepImpl k s ev).1 evs

end Finam.TA
