import FinamModel.GridLemmas
/-!
  Lemmas about `gen_cells` (`genCellsF`, `genCells` of `Grid.lean`): the integer arithmetic of the
  cell tables, including the C-order remapping through `order_map`, produces for the cell with
  (squeezed) multi-index `c` exactly the corners `c + δ`, `δ ∈ {0,1}^m`, as point ids in the grid's
  point order.
-/
namespace Finam

/-! ### Fortran ravel in recursive form -/

/-- first axis fastest: `i₀ + n₀ * (i₁ + n₁ * …)` -/
def ravelFr : List Nat → List Nat → Nat
  | n :: ns, i :: is => i + n * ravelFr ns is
  | _, _ => 0

theorem ravelC_snoc (a x : List Nat) (n i : Nat) (h : x.length = a.length) :
    ravelC (a ++ [n]) (x ++ [i]) = ravelC a x * n + i := by
  induction a generalizing x with
  | nil => cases x <;> simp [ravelC, prod] at *
  | cons m a' ih => cases x with
    | nil => simp at h
    | cons y x' =>
      simp only [List.length_cons, Nat.add_right_cancel_iff] at h
      simp only [List.cons_append, ravelC, ih x' h, prod_append, prod, Nat.mul_one]
      grind

theorem ravel_F_eq (sh ix : List Nat) (h : ix.length = sh.length) : ravel .F sh ix = ravelFr sh ix := by
  simp only [ravel]
  induction sh generalizing ix with
  | nil => cases ix <;> simp [ravelC, ravelFr]
  | cons n ns ih => cases ix with
    | nil => simp at h
    | cons i is =>
      simp only [List.length_cons, Nat.add_right_cancel_iff] at h
      simp only [List.reverse_cons, ravelFr]
      rw [ravelC_snoc _ _ _ _ (by simp [h]), ih is h]
      grind

/-! ### degenerate axes: squeezing and expanding -/

/-- the non-degenerate axis lengths -/
def squeeze (dims : List Nat) : List Nat := dims.filter (· > 1)

/-- full multi-index from an index over the non-degenerate axes (0 on the degenerate ones) -/
def expand : List Nat → List Nat → List Nat
  | [], _ => []
  | d :: ds, c => if d > 1 then c.headD 0 :: expand ds c.tail else 0 :: expand ds c

/-- full shape from a shape over the non-degenerate axes (1 on the degenerate ones) -/
def expandSh : List Nat → List Nat → List Nat
  | [], _ => []
  | d :: ds, cs => if d > 1 then cs.headD 1 :: expandSh ds cs.tail else 1 :: expandSh ds cs

theorem expand_length (dims c : List Nat) : (expand dims c).length = dims.length := by
  induction dims generalizing c with
  | nil => rfl
  | cons d ds ih => simp only [expand]; split <;> simp [ih]

theorem expandSh_length (dims cs : List Nat) : (expandSh dims cs).length = dims.length := by
  induction dims generalizing cs with
  | nil => rfl
  | cons d ds ih => simp only [expandSh]; split <;> simp [ih]

theorem expandSh_squeeze (dims : List Nat) (h : ∀ d ∈ dims, 1 ≤ d) : expandSh dims (squeeze dims) = dims := by
  induction dims with
  | nil => rfl
  | cons d ds ih =>
    have hd := h d (by simp)
    have ih' := ih (fun x hx => h x (by simp [hx]))
    simp only [expandSh, squeeze]
    by_cases hgt : d > 1
    · simp only [hgt, if_true, List.filter_cons, decide_true, List.headD_cons, List.tail_cons]
      rw [show List.filter (fun x => decide (x > 1)) ds = squeeze ds from rfl, ih']
    · simp only [hgt, if_false, List.filter_cons, decide_false, Bool.false_eq_true]
      rw [show List.filter (fun x => decide (x > 1)) ds = squeeze ds from rfl, ih']
      congr 1; omega

/-- `max (d - 1) 1` over all axes = cell dims placed on the non-degenerate axes -/
theorem expandSh_cdim (dims : List Nat) (h : ∀ d ∈ dims, 1 ≤ d) :
    expandSh dims ((squeeze dims).map (· - 1)) = dims.map fun n => max (n - 1) 1 := by
  induction dims with
  | nil => rfl
  | cons d ds ih =>
    have hd := h d (by simp)
    have ih' := ih (fun x hx => h x (by simp [hx]))
    simp only [expandSh, squeeze, List.map_cons]
    by_cases hgt : d > 1
    · simp only [hgt, if_true, List.filter_cons, decide_true, List.map_cons, List.headD_cons, List.tail_cons]
      rw [show List.filter (fun x => decide (x > 1)) ds = squeeze ds from rfl, ih']
      congr 1; omega
    · simp only [hgt, if_false, List.filter_cons, decide_false, Bool.false_eq_true]
      rw [show List.filter (fun x => decide (x > 1)) ds = squeeze ds from rfl, ih']
      congr 1; omega

theorem prod_expandSh (dims cs : List Nat) (h : cs.length = (squeeze dims).length) :
    prod (expandSh dims cs) = prod cs := by
  induction dims generalizing cs with
  | nil => cases cs <;> simp [squeeze] at h ⊢ <;> rfl
  | cons d ds ih =>
    simp only [expandSh]
    by_cases hgt : d > 1
    · simp only [squeeze, List.filter_cons, hgt, decide_true, if_true, List.length_cons] at h ⊢
      cases cs with
      | nil => simp at h
      | cons s cs' =>
        simp only [List.length_cons, Nat.add_right_cancel_iff] at h
        simp [prod, ih cs' h]
    · simp only [squeeze, List.filter_cons, hgt, decide_false, Bool.false_eq_true, if_false] at h ⊢
      simp [prod, ih cs h]

theorem InB_expand (dims cs c : List Nat) (hl : cs.length = (squeeze dims).length) (h : InB cs c) :
    InB (expandSh dims cs) (expand dims c) := by
  induction dims generalizing cs c with
  | nil => simp [expand, expandSh, InB]
  | cons d ds ih =>
    simp only [expand, expandSh]
    by_cases hgt : d > 1
    · simp only [squeeze, List.filter_cons, hgt, decide_true, if_true, List.length_cons] at hl ⊢
      cases cs with
      | nil => simp at hl
      | cons s cs' => cases c with
        | nil => simp [InB] at h
        | cons x c' =>
          simp only [List.length_cons, Nat.add_right_cancel_iff] at hl
          simp only [InB] at h
          simp only [List.headD_cons, List.tail_cons, InB]
          exact ⟨h.1, ih cs' c' hl h.2⟩
    · simp only [squeeze, List.filter_cons, hgt, decide_false, Bool.false_eq_true, if_false] at hl ⊢
      simp only [InB]
      exact ⟨by omega, ih cs c hl h⟩

theorem ravelC_expand (dims cs c : List Nat) (hl : cs.length = (squeeze dims).length) (hc : c.length = cs.length) :
    ravelC (expandSh dims cs) (expand dims c) = ravelC cs c := by
  induction dims generalizing cs c with
  | nil => cases cs <;> cases c <;> simp [squeeze] at * <;> rfl
  | cons d ds ih =>
    simp only [expand, expandSh]
    by_cases hgt : d > 1
    · simp only [squeeze, List.filter_cons, hgt, decide_true, if_true, List.length_cons] at hl ⊢
      cases cs with
      | nil => simp at hl
      | cons s cs' => cases c with
        | nil => simp at hc
        | cons x c' =>
          simp only [List.length_cons, Nat.add_right_cancel_iff] at hl hc
          simp only [List.headD_cons, List.tail_cons, ravelC, ih cs' c' hl hc, prod_expandSh ds cs' hl]
    · simp only [squeeze, List.filter_cons, hgt, decide_false, Bool.false_eq_true, if_false] at hl ⊢
      simp [ravelC, ih cs c hl hc]

theorem ravelFr_expand (dims cs c : List Nat) (hl : cs.length = (squeeze dims).length) (hc : c.length = cs.length) :
    ravelFr (expandSh dims cs) (expand dims c) = ravelFr cs c := by
  induction dims generalizing cs c with
  | nil => cases cs <;> cases c <;> simp [squeeze] at * <;> rfl
  | cons d ds ih =>
    simp only [expand, expandSh]
    by_cases hgt : d > 1
    · simp only [squeeze, List.filter_cons, hgt, decide_true, if_true, List.length_cons] at hl ⊢
      cases cs with
      | nil => simp at hl
      | cons s cs' => cases c with
        | nil => simp at hc
        | cons x c' =>
          simp only [List.length_cons, Nat.add_right_cancel_iff] at hl hc
          simp only [List.headD_cons, List.tail_cons, ravelFr, ih cs' c' hl hc]
    · simp only [squeeze, List.filter_cons, hgt, decide_false, Bool.false_eq_true, if_false] at hl ⊢
      simp [ravelFr, ih cs c hl hc]

/-- **squeeze lemma**: a flat position does not see the degenerate axes (either order) -/
theorem ravel_expand (o : Order) (dims cs c : List Nat) (hl : cs.length = (squeeze dims).length)
    (hc : c.length = cs.length) :
    ravel o (expandSh dims cs) (expand dims c) = ravel o cs c := by
  cases o with
  | C => exact ravelC_expand dims cs c hl hc
  | F =>
    rw [ravel_F_eq _ _ (by rw [expand_length, expandSh_length]), ravel_F_eq _ _ hc]
    exact ravelFr_expand dims cs c hl hc

theorem unravel_expand (o : Order) (dims cs : List Nat) (hl : cs.length = (squeeze dims).length)
    (j : Nat) (hj : j < prod cs) :
    unravel o (expandSh dims cs) j = expand dims (unravel o cs j) := by
  have hin := unravel_inB o cs j hj
  have h1 := ravel_expand o dims cs (unravel o cs j) hl hin.length_eq
  rw [ravel_unravel o cs j hj] at h1
  have := unravel_ravel o _ _ (InB_expand dims cs _ hl hin)
  rw [h1] at this
  exact this

/-! ### the cell tables -/

/-- corner offsets of a cell in the node order of `gen_cells` (ESMF order) -/
def corners : Nat → List (List Nat)
  | 0 => [[]]
  | 1 => [[0], [1]]
  | 2 => [[0, 1], [1, 1], [1, 0], [0, 0]]
  | _ => [[0, 1, 1], [1, 1, 1], [1, 0, 1], [0, 0, 1], [0, 1, 0], [1, 1, 0], [1, 0, 0], [0, 0, 0]]

def addIdx (c δ : List Nat) : List Nat := List.zipWith (· + ·) c δ

theorem genCellsF_length (cdim : List Nat) : (genCellsF cdim).length = prod (cdim.take 3) := by
  match cdim with
  | [] => rfl
  | [a] => simp [genCellsF, prod]
  | [a, b] => simp [genCellsF, prod]
  | a :: b :: c :: _ => simp [genCellsF, prod, Nat.mul_assoc]

theorem lt_mul_of_lt {a b x y : Nat} (hx : x < a) (hy : y < b) : x + a * y < a * b := by
  have : a * (y + 1) ≤ a * b := Nat.mul_le_mul_left a (by omega)
  grind

theorem add_mul_div {a x y : Nat} (hx : x < a) : (x + a * y) / a = y := by
  rw [Nat.add_mul_div_left _ _ (by omega), Nat.div_eq_of_lt hx]; omega

theorem add_mul_mod {a x y : Nat} (hx : x < a) : (x + a * y) % a = x := by
  rw [Nat.add_mul_mod_self_left, Nat.mod_eq_of_lt hx]

/-- **the arithmetic of `gen_cells` (Fortran order).** The row of the cell with multi-index `c`
    lists the point ids of the corners `c + δ` in the node shape `c_dim + 1`. -/
theorem genCellsF_spec (cdim c : List Nat) (hl : cdim.length ≤ 3) (hc : InB cdim c) :
    (genCellsF cdim)[ravelFr cdim c]? =
      some ((corners cdim.length).map fun δ => ravelFr (cdim.map (· + 1)) (addIdx c δ)) := by
  match cdim, c, hc with
  | [], [], _ => rfl
  | [a], [x], hc =>
    simp only [InB, and_true] at hc
    simp [genCellsF, ravelFr, corners, addIdx, hc]
  | [a, b], [x, y], hc =>
    simp only [InB, and_true] at hc
    obtain ⟨hx, hy⟩ := hc
    have hj := lt_mul_of_lt hx hy
    simp only [genCellsF, ravelFr, Nat.mul_zero, Nat.add_zero, List.getElem?_map, List.getElem?_range hj,
      Option.map_some, add_mul_div hx, corners, List.length_cons, List.length_nil, List.map_cons, List.map_nil,
      addIdx, List.zipWith_cons_cons, List.zipWith_nil_right]
    congr 1
    simp only [List.cons.injEq, and_true]
    refine ⟨?_, ?_, ?_, ?_⟩ <;> grind
  | [a, b, d], [x, y, z], hc =>
    simp only [InB, and_true] at hc
    obtain ⟨hx, hy, hz⟩ := hc
    have hxy := lt_mul_of_lt hx hy
    have hj : x + a * (y + b * z) < a * b * d := by
      have := lt_mul_of_lt hxy hz
      grind
    have e1 : x + a * (y + b * z) = (x + a * y) + (a * b) * z := by grind
    have hdiv : (x + a * (y + b * z)) / (a * b) = z := by rw [e1]; exact add_mul_div hxy
    have hmod : (x + a * (y + b * z)) % (a * b) = x + a * y := by rw [e1]; exact add_mul_mod hxy
    simp only [genCellsF, ravelFr, Nat.mul_zero, Nat.add_zero, List.getElem?_map, List.getElem?_range hj,
      Option.map_some, hdiv, hmod, add_mul_div hx, corners, List.length_cons, List.length_nil, List.map_cons,
      List.map_nil, addIdx, List.zipWith_cons_cons, List.zipWith_nil_right]
    congr 1
    simp only [List.cons.injEq, and_true]
    refine ⟨?_, ?_, ?_, ?_, ?_, ?_, ?_, ?_⟩ <;> grind
  | _ :: _ :: _ :: _ :: _, _, _ => simp at hl

/-! ### both orders: `gen_cells` -/

theorem squeeze_gt (dims : List Nat) : ∀ d ∈ squeeze dims, d > 1 := by
  intro d hd
  simpa [squeeze] using (List.mem_filter.mp hd).2

theorem cdim_succ (dims : List Nat) : ((squeeze dims).map (· - 1)).map (· + 1) = squeeze dims := by
  rw [List.map_map]
  conv => rhs; rw [← List.map_id (squeeze dims)]
  apply List.map_congr_left
  intro d hd
  have := squeeze_gt dims d hd
  simp only [Function.comp_apply, id_eq]; omega

theorem corners_bound (m : Nat) (δ : List Nat) (h : δ ∈ corners m) (hm : m ≤ 3) :
    InB (List.replicate m 2) δ := by
  match m, hm with
  | 0, _ => simp [corners] at h; subst h; simp [InB]
  | 1, _ => simp [corners] at h; rcases h with h | h <;> subst h <;> simp [InB, List.replicate]
  | 2, _ => simp [corners] at h; rcases h with h | h | h | h <;> subst h <;> simp [InB, List.replicate]
  | 3, _ =>
    simp [corners] at h
    rcases h with h | h | h | h | h | h | h | h <;> subst h <;> simp [InB, List.replicate]

theorem addIdx_inB (cdim ci δ : List Nat) (hc : InB cdim ci) (hδ : InB (List.replicate cdim.length 2) δ) :
    InB (cdim.map (· + 1)) (addIdx ci δ) := by
  induction cdim generalizing ci δ with
  | nil => cases ci <;> cases δ <;> simp [InB, addIdx] at *
  | cons n ns ih =>
    cases ci with
    | nil => simp [InB] at hc
    | cons x xs => cases δ with
      | nil => simp [InB, List.replicate] at hδ
      | cons e es =>
        simp only [List.length_cons, List.replicate_succ, InB] at hc hδ
        simp only [List.map_cons, addIdx, List.zipWith_cons_cons, InB]
        exact ⟨by omega, ih xs es hc.2 hδ.2⟩

theorem ravel_le_one (sh ix : List Nat) (hl : sh.length ≤ 1) (h : ix.length = sh.length) :
    ravel .C sh ix = ravel .F sh ix := by
  match sh, ix with
  | [], [] => rfl
  | [n], [i] => rfl
  | [], _ :: _ => simp at h
  | [_], [] => simp at h
  | [_], _ :: _ :: _ => simp at h
  | _ :: _ :: _, _ => simp at hl

/-- a corner's point id, whatever the point order: the (squeezed, Fortran) id computed by the cell
    table is the Fortran flat position of the full multi-index -/
theorem node_id_F (dims x : List Nat) (hd : ∀ d ∈ dims, 1 ≤ d) (hx : x.length = (squeeze dims).length) :
    ravelFr (squeeze dims) x = ravel .F dims (expand dims x) := by
  have h := ravel_expand .F dims (squeeze dims) x rfl hx
  rw [expandSh_squeeze dims hd] at h
  rw [h, ravel_F_eq _ _ hx]

theorem InB_expand_dims (dims x : List Nat) (hd : ∀ d ∈ dims, 1 ≤ d) (hx : InB (squeeze dims) x) :
    InB dims (expand dims x) := by
  have := InB_expand dims (squeeze dims) x rfl hx
  rwa [expandSh_squeeze dims hd] at this

/-- **`gen_cells`, either order, degenerate axes included.** The row of the cell with (squeezed)
    multi-index `ci`, found at the flat position of `ci` in the grid's order, lists the point ids —
    flat positions in the same order over the full `dims` — of the corners `ci + δ`. -/
theorem genCells_spec (dims : List Nat) (o : Order) (hd : ∀ d ∈ dims, 1 ≤ d)
    (hm : (squeeze dims).length ≤ 3) (ci : List Nat) (hci : InB ((squeeze dims).map (· - 1)) ci) :
    (genCells dims o)[ravel o ((squeeze dims).map (· - 1)) ci]? =
      some ((corners (squeeze dims).length).map fun δ => ravel o dims (expand dims (addIdx ci δ))) := by
  have hcl : ((squeeze dims).map (· - 1)).length = (squeeze dims).length := by simp
  have hlen3 : ((squeeze dims).map (· - 1)).length ≤ 3 := by rw [hcl]; exact hm
  have hspec := genCellsF_spec _ ci hlen3 hci
  rw [hcl, cdim_succ] at hspec
  -- every corner is inside the node shape
  have hcorner : ∀ δ ∈ corners (squeeze dims).length, InB (squeeze dims) (addIdx ci δ) := by
    intro δ hδ
    have := addIdx_inB _ ci δ hci (by rw [hcl]; exact corners_bound _ δ hδ hm)
    rwa [cdim_succ] at this
  have hF : ∀ δ ∈ corners (squeeze dims).length,
      ravelFr (squeeze dims) (addIdx ci δ) = ravel .F dims (expand dims (addIdx ci δ)) :=
    fun δ hδ => node_id_F dims _ hd (hcorner δ hδ).length_eq
  have hciF : ravel .F ((squeeze dims).map (· - 1)) ci = ravelFr ((squeeze dims).map (· - 1)) ci :=
    ravel_F_eq _ _ hci.length_eq
  unfold genCells
  simp only [show (List.filter (fun x => decide (x > 1)) dims) = squeeze dims from rfl]
  by_cases hC : o = .C ∧ ((squeeze dims).map (· - 1)).length > 1
  · -- C order with at least two non-degenerate axes: the remapping through order_map
    obtain ⟨rfl, hgt⟩ := hC
    rw [if_pos ⟨rfl, hgt⟩]
    have hj0 := ravel_lt .C _ _ hci
    have hlenc : (genCellsF ((squeeze dims).map (· - 1))).length = prod ((squeeze dims).map (· - 1)) := by
      rw [genCellsF_length, List.take_of_length_le hlen3]
    simp only [List.length_map, hlenc, List.getElem?_map, List.getElem?_range hj0, Option.map_some]
    congr 1
    have hom : orderMap ((squeeze dims).map (· - 1)) .F .C (ravel .C ((squeeze dims).map (· - 1)) ci) =
        ravelFr ((squeeze dims).map (· - 1)) ci := by
      simp only [orderMap]
      rw [unravel_ravel .C _ _ hci, hciF]
    rw [hom, List.getD_eq_getElem?_getD, List.getElem?_map, hspec]
    simp only [Option.map_some, Option.getD_some, List.map_map]
    apply List.map_congr_left
    intro δ hδ
    simp only [Function.comp_apply, orderMap]
    rw [hF δ hδ, unravel_ravel .F _ _ (InB_expand_dims dims _ hd (hcorner δ hδ))]
  · rw [if_neg hC]
    have hidx : ravel o ((squeeze dims).map (· - 1)) ci = ravelFr ((squeeze dims).map (· - 1)) ci := by
      cases o with
      | F => exact hciF
      | C =>
        have hle : ((squeeze dims).map (· - 1)).length ≤ 1 := by
          have : ¬ ((squeeze dims).map (· - 1)).length > 1 := fun h => hC ⟨rfl, h⟩
          omega
        rw [ravel_le_one _ _ hle hci.length_eq, hciF]
    rw [hidx, hspec]
    congr 1
    apply List.map_congr_left
    intro δ hδ
    cases o with
    | F => exact hF δ hδ
    | C =>
      have hle : (squeeze dims).length ≤ 1 := by
        have : ¬ ((squeeze dims).map (· - 1)).length > 1 := fun h => hC ⟨rfl, h⟩
        rw [hcl] at this; omega
      have h := ravel_expand .C dims (squeeze dims) (addIdx ci δ) rfl (hcorner δ hδ).length_eq
      rw [expandSh_squeeze dims hd] at h
      rw [h, ravel_le_one _ _ hle (hcorner δ hδ).length_eq, ravel_F_eq _ _ (hcorner δ hδ).length_eq]

theorem genCells_length (dims : List Nat) (o : Order) (hm : (squeeze dims).length ≤ 3) :
    (genCells dims o).length = prod ((squeeze dims).map (· - 1)) := by
  have hlen3 : ((squeeze dims).map (· - 1)).length ≤ 3 := by simpa using hm
  unfold genCells
  simp only [show (List.filter (fun x => decide (x > 1)) dims) = squeeze dims from rfl]
  split <;> simp [genCellsF_length, List.take_of_length_le hlen3]

theorem corner_inB (dims ci δ : List Nat) (hm : (squeeze dims).length ≤ 3)
    (hci : InB ((squeeze dims).map (· - 1)) ci) (hδ : δ ∈ corners (squeeze dims).length) :
    InB (squeeze dims) (addIdx ci δ) := by
  have hcl : ((squeeze dims).map (· - 1)).length = (squeeze dims).length := by simp
  have := addIdx_inB _ ci δ hci (by rw [hcl]; exact corners_bound _ δ hδ hm)
  rwa [cdim_succ] at this

theorem corners_length (m : Nat) (hm : m ≤ 3) : (corners m).length = 2 ^ m := by
  match m, hm with
  | 0, _ => rfl
  | 1, _ => rfl
  | 2, _ => rfl
  | 3, _ => rfl

/-! ### coordinates of corners and centres, axis by axis -/

/-- squeezed position of axis `a`: number of non-degenerate axes before it -/
def qidx : List Nat → Nat → Nat
  | [], _ => 0
  | _ :: _, 0 => 0
  | d :: ds, a + 1 => (if d > 1 then 1 else 0) + qidx ds a

theorem getD_tail {β} (l : List β) (k : Nat) (d : β) : l.tail.getD k d = l.getD (k + 1) d := by
  cases l <;> simp

theorem headD_eq_getD {β} (l : List β) (d : β) : l.headD d = l.getD 0 d := by
  cases l <;> simp

theorem expand_getD (dims v : List Nat) (a : Nat) :
    (expand dims v).getD a 0 = if dims.getD a 0 > 1 then v.getD (qidx dims a) 0 else 0 := by
  induction dims generalizing v a with
  | nil => simp [expand]
  | cons d ds ih =>
    cases a with
    | zero =>
      simp only [expand, qidx]
      by_cases hd : d > 1
      · simp only [hd, if_true, List.getD_cons_zero, headD_eq_getD]
      · simp only [hd, if_false, List.getD_cons_zero]
    | succ a =>
      simp only [expand, qidx]
      by_cases hd : d > 1
      · simp only [hd, if_true, List.getD_cons_succ, ih, getD_tail]
        simp [Nat.add_comm]
      · simp only [hd, if_false, List.getD_cons_succ, ih, Nat.zero_add]

theorem squeeze_getD_qidx (dims : List Nat) (a : Nat) (h : dims.getD a 0 > 1) :
    qidx dims a < (squeeze dims).length ∧ (squeeze dims).getD (qidx dims a) 0 = dims.getD a 0 := by
  induction dims generalizing a with
  | nil => simp at h
  | cons d ds ih =>
    cases a with
    | zero =>
      simp only [List.getD_cons_zero] at h
      simp [squeeze, qidx, h]
    | succ a =>
      simp only [List.getD_cons_succ] at h
      obtain ⟨h1, h2⟩ := ih a h
      simp only [squeeze] at h1 h2
      by_cases hd : d > 1
      · simp only [squeeze, qidx, hd, if_true, List.filter_cons, decide_true, List.length_cons,
          List.getD_cons_succ]
        rw [Nat.add_comm 1]
        exact ⟨by omega, by simpa using h2⟩
      · simp only [squeeze, qidx, hd, if_false, List.filter_cons, decide_false, Bool.false_eq_true,
          Nat.zero_add, List.getD_cons_succ]
        exact ⟨h1, h2⟩

namespace SGrid

/-- one axis with its direction flag applied -/
def dirOne (ax : List Rat) (b : Bool) : List Rat := if b then ax else ax.reverse

theorem dirAxes_getD (axes : List (List Rat)) (inc : List Bool) (a : Nat) :
    (dirAxes axes inc).getD a [] = dirOne (axes.getD a []) (inc.getD a true) := by
  induction axes generalizing inc a with
  | nil => cases inc <;> simp [dirAxes, dirOne]
  | cons ax axs ih =>
    cases inc with
    | nil => simp [dirAxes, dirOne]
    | cons b bs =>
      cases a with
      | zero => simp [dirAxes, dirOne]
      | succ a => simp only [dirAxes, List.getD_cons_succ, ih]

theorem pick_getD (axes : List (List Rat)) (ix : List Nat) (a : Nat) (h : a < ix.length) :
    (pick axes ix).getD a 0 = (axes.getD a []).getD (ix.getD a 0) 0 := by
  induction axes generalizing ix a with
  | nil => simp [pick]
  | cons ax axs ih =>
    cases ix with
    | nil => simp at h
    | cons i is =>
      cases a with
      | zero => simp [pick]
      | succ a =>
        simp only [List.length_cons, Nat.add_lt_add_iff_right] at h
        have := ih is a h
        simp only [pick] at this
        simp only [pick, List.zipWith_cons_cons, List.getD_cons_succ]
        exact this

/-- a cell-centre coordinate is the midpoint of the two neighbouring point coordinates, also on a
    decreasing axis -/
theorem cell_mid (ax : List Rat) (b : Bool) (k : Nat) (h : k + 1 < ax.length) :
    (dirOne (cellAxis ax) b).getD k 0 = ((dirOne ax b).getD k 0 + (dirOne ax b).getD (k + 1) 0) / 2 := by
  have hl : ax.length > 1 := by omega
  have hcl : (cellAxis ax).length = ax.length - 1 := by
    simp only [cellAxis, hl, if_true, List.length_zipWith, List.length_tail]; omega
  have hget : ∀ j, j + 1 < ax.length → (cellAxis ax)[j]? = some ((ax.getD j 0 + ax.getD (j + 1) 0) / 2) := by
    intro j hj
    have h1 : j < ax.length := by omega
    simp only [cellAxis, hl, if_true, List.getElem?_zipWith, List.getElem?_tail]
    rw [List.getElem?_eq_getElem h1, List.getElem?_eq_getElem hj]
    simp [List.getD_eq_getElem?_getD, List.getElem?_eq_getElem h1, List.getElem?_eq_getElem hj]
  cases b with
  | true =>
    simp only [dirOne, if_true]
    rw [List.getD_eq_getElem?_getD, hget k h]; rfl
  | false =>
    simp only [dirOne, Bool.false_eq_true, if_false]
    rw [List.getD_eq_getElem?_getD, List.getElem?_reverse (by omega), hcl,
      hget (ax.length - 1 - 1 - k) (by omega)]
    rw [List.getD_eq_getElem?_getD (l := ax.reverse), List.getD_eq_getElem?_getD (l := ax.reverse),
      List.getElem?_reverse (by omega), List.getElem?_reverse (by omega)]
    have e1 : ax.length - 1 - 1 - k + 1 = ax.length - 1 - k := by omega
    have e2 : ax.length - 1 - (k + 1) = ax.length - 1 - 1 - k := by omega
    simp only [Option.getD_some, e1, e2, List.getD_eq_getElem?_getD]
    grind

theorem cellAxis_single (ax : List Rat) (h : ax.length = 1) : cellAxis ax = ax := by
  simp [cellAxis, h]

end SGrid

/-! ### the mean over the corners -/

theorem mean_const (v : Rat) (m : Nat) (hm : m ≤ 3) :
    (((corners m).map fun _ => v).sum) / ((corners m).length : Rat) = v := by
  match m, hm with
  | 0, _ => simp [corners]; grind
  | 1, _ => simp [corners]; grind
  | 2, _ => simp [corners]; grind
  | 3, _ => simp [corners]; grind

theorem mean_axis (F : Nat → Rat) (m q : Nat) (ci : List Nat) (hm : m ≤ 3) (hq : q < m) (hl : ci.length = m) :
    (((corners m).map fun δ => F ((addIdx ci δ).getD q 0)).sum) / ((corners m).length : Rat) =
      (F (ci.getD q 0) + F (ci.getD q 0 + 1)) / 2 := by
  match m, hm, ci, hl with
  | 1, _, [x], _ =>
    have : q = 0 := by omega
    subst this
    simp [corners, addIdx]; grind
  | 2, _, [x, y], _ =>
    have : q = 0 ∨ q = 1 := by omega
    rcases this with rfl | rfl <;> simp [corners, addIdx] <;> grind
  | 3, _, [x, y, z], _ =>
    have : q = 0 ∨ q = 1 ∨ q = 2 := by omega
    rcases this with rfl | rfl | rfl <;> simp [corners, addIdx] <;> grind

theorem list_ext_getD (l1 l2 : List Rat) (hl : l1.length = l2.length)
    (h : ∀ a, a < l1.length → l1.getD a 0 = l2.getD a 0) : l1 = l2 := by
  apply List.ext_getElem hl
  intro a h1 h2
  have := h a h1
  simpa [List.getD_eq_getElem?_getD, List.getElem?_eq_getElem h1, List.getElem?_eq_getElem h2] using this

theorem meanPts_getD (dim : Nat) (ps : List (List Rat)) (a : Nat) (ha : a < dim) :
    (meanPts dim ps).getD a 0 = (ps.map (·.getD a 0)).sum / (ps.length : Rat) := by
  simp [meanPts, List.getD_eq_getElem?_getD, List.getElem?_map, List.getElem?_range ha]

namespace SGrid

/-- **cell centre = mean of the cell's nodes**, at the level of coordinates: for the cell with
    (squeezed) multi-index `ci`, averaging the points at the corners `ci + δ` gives the point of the
    cell-centre axes at `ci` — on every axis, degenerate or not, increasing or decreasing. -/
theorem mean_of_corners (axes : List (List Rat)) (inc : List Bool) (hne : ∀ ax ∈ axes, ax ≠ [])
    (hm : (squeeze (axes.map List.length)).length ≤ 3) (ci : List Nat)
    (hci : InB ((squeeze (axes.map List.length)).map (· - 1)) ci) :
    meanPts axes.length ((corners (squeeze (axes.map List.length)).length).map fun δ =>
        pick (dirAxes axes inc) (expand (axes.map List.length) (addIdx ci δ))) =
      pick (dirAxes (axes.map cellAxis) inc) (expand (axes.map List.length) ci) := by
  have hcil : ci.length = (squeeze (axes.map List.length)).length := by simpa using hci.length_eq
  apply list_ext_getD
  · simp [meanPts, pick, expand_length, dirAxes_length]
  · intro a ha
    have ha' : a < axes.length := by simpa [meanPts] using ha
    rw [meanPts_getD _ _ _ ha', List.map_map, List.length_map]
    have hexp : ∀ v, a < (expand (axes.map List.length) v).length := by
      intro v; rw [expand_length]; simpa using ha'
    have hax : (axes.map List.length).getD a 0 = (axes.getD a []).length := by
      simp [List.getD_eq_getElem?_getD, List.getElem?_map]
      cases axes[a]? <;> simp
    have hmem : axes.getD a [] ∈ axes := by
      rw [List.getD_eq_getElem?_getD, List.getElem?_eq_getElem ha']; simp
    have hpos : 0 < (axes.getD a []).length := List.length_pos_iff.mpr (hne _ hmem)
    have hcell : (axes.map cellAxis).getD a [] = cellAxis (axes.getD a []) := by
      simp [List.getD_eq_getElem?_getD, List.getElem?_map, List.getElem?_eq_getElem ha']
    -- the coordinate of a node / of the centre on axis `a`
    have hnode : ∀ δ, (pick (dirAxes axes inc) (expand (axes.map List.length) (addIdx ci δ))).getD a 0 =
        (dirOne (axes.getD a []) (inc.getD a true)).getD
          (if (axes.getD a []).length > 1 then (addIdx ci δ).getD (qidx (axes.map List.length) a) 0 else 0) 0 := by
      intro δ
      rw [pick_getD _ _ _ (hexp _), dirAxes_getD, expand_getD, hax]
    have hcentre : (pick (dirAxes (axes.map cellAxis) inc) (expand (axes.map List.length) ci)).getD a 0 =
        (dirOne (cellAxis (axes.getD a [])) (inc.getD a true)).getD
          (if (axes.getD a []).length > 1 then ci.getD (qidx (axes.map List.length) a) 0 else 0) 0 := by
      rw [pick_getD _ _ _ (hexp _), dirAxes_getD, expand_getD, hax, hcell]
    rw [hcentre]
    simp only [Function.comp_def, hnode]
    by_cases hdeg : (axes.getD a []).length > 1
    · simp only [hdeg, if_true]
      obtain ⟨hq, hsq⟩ := squeeze_getD_qidx (axes.map List.length) a (by rw [hax]; exact hdeg)
      rw [mean_axis (fun k => (dirOne (axes.getD a []) (inc.getD a true)).getD k 0) _ _ ci hm hq hcil]
      -- the cell index is below the number of cells on this axis
      have hlt : ci.getD (qidx (axes.map List.length) a) 0 + 1 < (axes.getD a []).length := by
        have hall : ∀ (sh ix : List Nat) (k : Nat), InB sh ix → k < sh.length → ix.getD k 0 < sh.getD k 0 := by
          intro sh
          induction sh with
          | nil => intro ix k _ hk; simp at hk
          | cons n ns ih =>
            intro ix k hin hk
            cases ix with
            | nil => simp [InB] at hin
            | cons i is =>
              simp only [InB] at hin
              cases k with
              | zero => simpa using hin.1
              | succ k => simpa using ih is k hin.2 (by simpa using hk)
        have := hall _ ci (qidx (axes.map List.length) a) hci (by simpa using hq)
        have h2 : ((squeeze (axes.map List.length)).map (· - 1)).getD (qidx (axes.map List.length) a) 0 =
            (squeeze (axes.map List.length)).getD (qidx (axes.map List.length) a) 0 - 1 := by
          simp [List.getD_eq_getElem?_getD, List.getElem?_map, List.getElem?_eq_getElem hq]
        rw [h2, hsq, hax] at this
        omega
      rw [cell_mid _ _ _ hlt]
    · simp only [hdeg, if_false]
      have h1 : (axes.getD a []).length = 1 := by omega
      rw [mean_const _ _ hm, cellAxis_single _ h1]

end SGrid

end Finam
