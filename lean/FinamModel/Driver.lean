import FinamModel.DriverUtil
import FinamModel.DriverGrid
import FinamModel.DriverMeta
import FinamModel.DriverConnect
import FinamModel.DriverRegrid
import FinamModel.Output
import FinamModel.DriverTime
import FinamModel.DriverLink
import FinamModel.DriverSched
import FinamModel.DriverStatic
/-! Line-protocol handlers: one JSON object in, one JSON object out. -/
namespace Finam.Driver
open Lean

def parseEv (j : Json) : Option (Ev Int) :=
  match arr j with
  | [k, a, b] =>
    match asStr k with
    | "push" => some (.push (asInt a) (asInt b))
    | "pull" => some (.pull (asNat a) (asInt b))
    | _ => none
  | _ => none

/-- C09: run an event history through the bounded output and through the unlimited one -/
def handleC09 (j : Json) : Json :=
  let n := getNat j "n"
  let evs := (getArr j "events").filterMap parseEv
  let s0 := initState Int n
  let both := runBoth s0 evs
  let states := runStates s0 evs
  Json.mkObj [
    ("impl", jList (fun p => match p.1 with | none => Json.null | some r => jRes jInt r) both),
    ("spec", jList (fun p => match p.2 with | none => Json.null | some r => jRes jInt r) both),
    ("lens", jList (fun s => jNat s.ret.length) states),
    ("pre", Json.bool (preAllB s0 evs))]

def handlers : List (String × (Json → Json)) := [
  ("c19", C19.handle),
  ("c17", C17.handle), ("c17table", C17.table),
  ("c07", C07.handle),
  ("c06", C06.handle),
  ("c16", C16.handle),
  ("c09", handleC09),
  ("c08", C08.handle)
] ++ gridHandlers ++ Sched.handlers ++ C20.handlers ++ timeHandlers

def step (line : String) : String :=
  match Json.parse line with
  | .error e => (Json.mkObj [("bad", Json.str e)]).compress
  | .ok j =>
    match handlers.lookup (getStr j "op") with
    | some h => (h j).compress
    | none => (Json.mkObj [("bad", Json.str "op")]).compress

end Finam.Driver
