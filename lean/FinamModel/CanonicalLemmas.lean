import FinamModel.GridLemmas
import FinamModel.Canonical
/-! Lemmas about the canonical-form model of `Canonical.lean`: the conversions as index maps. -/
namespace Finam

/-- composition of the flips performed by `flipAll inc k`, as an index map on a fixed shape -/
def flipsIdx : List Bool → Nat → List Nat → List Nat → List Nat
  | [], _, _, i => i
  | b :: bs, k, sh, i => if b then flipsIdx bs (k + 1) sh i else Arr.flipIdx sh k (flipsIdx bs (k + 1) sh i)

theorem flipAll_shape {α} (inc : List Bool) (k : Nat) (a : Arr α) : (flipAll inc k a).shape = a.shape := by
  induction inc generalizing k a with
  | nil => rfl
  | cons b bs ih => cases b <;> simp [flipAll, ih, Arr.flip]

theorem flipAll_get {α} (inc : List Bool) (k : Nat) (a : Arr α) (i : List Nat) :
    (flipAll inc k a).get i = a.get (flipsIdx inc k a.shape i) := by
  induction inc generalizing k a with
  | nil => rfl
  | cons b bs ih => cases b <;> simp [flipAll, flipsIdx, ih, Arr.flip]

theorem flipIdx_append (s1 s2 : List Nat) (n : Nat) (i1 r : List Nat) (x : Nat) (h : i1.length = s1.length) :
    Arr.flipIdx (s1 ++ n :: s2) s1.length (i1 ++ x :: r) = i1 ++ (n - 1 - x) :: r := by
  induction s1 generalizing i1 with
  | nil => cases i1 <;> simp [Arr.flipIdx] at *
  | cons m ms ih => cases i1 with
    | nil => simp at h
    | cons y ys =>
      simp only [List.length_cons, Nat.add_right_cancel_iff] at h
      simp [Arr.flipIdx, ih ys h]

theorem flipsIdx_eq (inc : List Bool) : ∀ (s1 s2 i1 i2 : List Nat), i1.length = s1.length →
    i2.length = s2.length → inc.length ≤ s2.length →
    flipsIdx inc s1.length (s1 ++ s2) (i1 ++ i2) = i1 ++ SGrid.flipIdxAll inc s2 i2 := by
  induction inc with
  | nil => intro s1 s2 i1 i2 _ _ _; cases s2 <;> cases i2 <;> simp [flipsIdx, SGrid.flipIdxAll]
  | cons b bs ih =>
    intro s1 s2 i1 i2 h1 h2 hinc
    cases s2 with
    | nil => simp at hinc
    | cons n s2' =>
      cases i2 with
      | nil => simp at h2
      | cons x i2' =>
        simp only [List.length_cons, Nat.add_le_add_iff_right, Nat.add_right_cancel_iff] at hinc h2
        have hih := ih (s1 ++ [n]) s2' (i1 ++ [x]) i2' (by simp [h1]) h2 hinc
        simp only [List.length_append, List.length_cons, List.length_nil, Nat.zero_add,
          List.append_assoc, List.cons_append, List.nil_append] at hih
        simp only [flipsIdx, SGrid.flipIdxAll]
        rw [hih]
        cases b with
        | true => simp
        | false => simp [flipIdx_append s1 s2' n i1 _ x h1]

/-- the flips of `flipAll inc 0` act position by position on the leading axes -/
theorem flipAll_get0 {α} (inc : List Bool) (a : Arr α) (i : List Nat) (hi : i.length = a.shape.length)
    (hinc : inc.length ≤ a.shape.length) :
    (flipAll inc 0 a).get i = a.get (SGrid.flipIdxAll inc a.shape i) := by
  rw [flipAll_get]
  have := flipsIdx_eq inc [] a.shape [] i rfl hi hinc
  simp only [List.length_nil, List.nil_append] at this
  rw [this]

namespace SGrid

theorem flipIdxAll_length (inc : List Bool) (sh i : List Nat) : (flipIdxAll inc sh i).length = i.length := by
  induction inc generalizing sh i with
  | nil => cases sh <;> cases i <;> simp [flipIdxAll]
  | cons b bs ih => cases sh <;> cases i <;> simp [flipIdxAll, ih]

theorem flipIdxAll_inB (inc : List Bool) (sh i : List Nat) (h : InB sh i) : InB sh (flipIdxAll inc sh i) := by
  induction inc generalizing sh i with
  | nil => cases sh <;> cases i <;> simpa [flipIdxAll] using h
  | cons b bs ih =>
    cases sh with
    | nil => cases i <;> simpa [flipIdxAll] using h
    | cons n ns => cases i with
      | nil => simp [InB] at h
      | cons x xs =>
        simp only [InB] at h
        simp only [flipIdxAll, InB]
        refine ⟨?_, ih ns xs h.2⟩
        cases b <;> simp <;> omega

theorem flipIdxAll_invol (inc : List Bool) (sh i : List Nat) (h : InB sh i) :
    flipIdxAll inc sh (flipIdxAll inc sh i) = i := by
  induction inc generalizing sh i with
  | nil => cases sh <;> cases i <;> simp [flipIdxAll]
  | cons b bs ih =>
    cases sh with
    | nil => cases i <;> simp [flipIdxAll]
    | cons n ns => cases i with
      | nil => simp [flipIdxAll]
      | cons x xs =>
        simp only [InB] at h
        simp only [flipIdxAll, ih ns xs h.2]
        cases b <;> simp <;> omega

/-- flips on the leading axes leave trailing (time) entries alone -/
theorem flipIdxAll_append (inc : List Bool) (sh i e1 e2 : List Nat) (hl : i.length = sh.length)
    (hinc : inc.length ≤ sh.length) :
    flipIdxAll inc (sh ++ e1) (i ++ e2) = flipIdxAll inc sh i ++ e2 := by
  induction inc generalizing sh i with
  | nil => cases sh <;> cases i <;> cases e1 <;> cases e2 <;> simp [flipIdxAll]
  | cons b bs ih =>
    cases sh with
    | nil => simp at hinc
    | cons n ns => cases i with
      | nil => simp at hl
      | cons x xs =>
        simp only [List.length_cons, Nat.add_le_add_iff_right, Nat.add_right_cancel_iff] at hinc hl
        simp [flipIdxAll, ih ns xs hl hinc]

/-- direction-adjusted axes read at `j` = increasing axes read at the mirrored index -/
theorem pick_dirAxes (axes : List (List Rat)) (inc : List Bool) (j : List Nat)
    (hj : InB (axes.map List.length) j) :
    pick (dirAxes axes inc) j = pick axes (flipIdxAll inc (axes.map List.length) j) := by
  induction axes generalizing inc j with
  | nil => cases j <;> cases inc <;> simp [pick, dirAxes, flipIdxAll]
  | cons ax axs ih =>
    cases j with
    | nil => simp [InB] at hj
    | cons x xs =>
      simp only [List.map_cons, InB] at hj
      cases inc with
      | nil => simp [pick, dirAxes, flipIdxAll]
      | cons b bs =>
        have := ih bs xs hj.2
        simp only [pick] at this
        cases b with
        | true =>
          simp only [pick, dirAxes, flipIdxAll, List.map_cons, if_true, List.zipWith_cons_cons, this]
        | false =>
          simp only [pick, dirAxes, flipIdxAll, List.map_cons, Bool.false_eq_true, if_false,
            List.zipWith_cons_cons, this, List.cons.injEq, and_true]
          have hx := hj.1
          rw [List.getD_eq_getElem?_getD, List.getD_eq_getElem?_getD, List.getElem?_reverse hx]

/-! ### to_canonical / from_canonical as index maps

`e` are extra axes (none, or the time axis): trailing for natural axes order, leading for reversed
axes order — which is where the shape tests of the two functions allow them. -/

theorem reverse_of_length_le_one {β} (l : List β) (h : l.length ≤ 1) : l.reverse = l := by
  cases l with
  | nil => rfl
  | cons x xs => cases xs with
    | nil => rfl
    | cons y ys => simp at h

theorem toCanonical_nonrev {α} (g : SGrid) (hr : g.rev = false) (hinc : g.inc.length = g.dataShape.length)
    (a : Arr α) (e : List Nat) (ha : a.shape = g.dataShape ++ e) :
    ∃ c, g.toCanonical a = .ok c ∧ c.shape = g.dataShape ++ e ∧
      ∀ ci t, ci.length = g.dataShape.length → t.length = e.length →
        c.get (ci ++ t) = a.get (flipIdxAll g.inc g.dataShape ci ++ t) := by
  refine ⟨flipAll g.inc 0 a, ?_, by rw [flipAll_shape, ha], ?_⟩
  · simp [toCanonical, hr, ha]
  · intro ci t hc ht
    rw [flipAll_get0 _ _ _ (by simp [ha, hc, ht]) (by simp [ha, hinc]), ha,
      flipIdxAll_append _ _ _ _ _ hc (by omega)]

theorem toCanonical_rev {α} (g : SGrid) (hr : g.rev = true) (hinc : g.inc.length = g.dataShape.length)
    (hd : 1 ≤ g.dataShape.length) (a : Arr α) (e : List Nat) (ha : a.shape = e.reverse ++ g.dataShape) :
    ∃ c, g.toCanonical a = .ok c ∧ c.shape = g.dataShape.reverse ++ e ∧
      ∀ ci t, ci.length = g.dataShape.length → t.length = e.length →
        c.get (ci ++ t) = a.get (t.reverse ++ (flipIdxAll g.inc g.dataShape.reverse ci).reverse) := by
  have hrev : a.shape.reverse = g.dataShape.reverse ++ e := by simp [ha]
  have hcheck : (g.dataShape.reverse == (a.shape.reverse).take g.dataShape.length) = true := by
    rw [hrev]; simp
  by_cases hn : a.ndim > 1
  · refine ⟨flipAll g.inc 0 a.transpose, ?_, by rw [flipAll_shape]; exact hrev, ?_⟩
    · simp [toCanonical, hr, hcheck, hn]
    · intro ci t hc ht
      have hsh : a.transpose.shape = g.dataShape.reverse ++ e := hrev
      rw [flipAll_get0 _ _ _ (by simp [hsh, hc, ht]) (by simp [hsh, hinc]), hsh,
        flipIdxAll_append _ _ _ _ _ (by simp [hc]) (by simp [hinc])]
      simp [Arr.transpose]
  · have hl : a.shape.length ≤ 1 := by simp only [Arr.ndim] at hn; omega
    have he : e = [] := by
      have : a.shape.length = e.length + g.dataShape.length := by simp [ha]
      cases e with
      | nil => rfl
      | cons x xs => simp at this; omega
    subst he
    simp only [List.reverse_nil, List.nil_append] at ha
    have hd1 : g.dataShape.length ≤ 1 := by rw [← ha]; exact hl
    refine ⟨flipAll g.inc 0 a, ?_, ?_, ?_⟩
    · simp [toCanonical, hr, hcheck, hn]
    · rw [flipAll_shape, ha, reverse_of_length_le_one _ hd1]; simp
    · intro ci t hc ht
      have ht0 : t = [] := by simpa using ht
      subst ht0
      simp only [List.append_nil, List.reverse_nil, List.nil_append]
      rw [flipAll_get0 _ _ _ (by simp [ha, hc]) (by simp [ha, hinc]), ha,
        reverse_of_length_le_one _ hd1,
        reverse_of_length_le_one (flipIdxAll g.inc g.dataShape ci) (by rw [flipIdxAll_length]; omega)]

theorem fromCanonical_nonrev {α} (g : SGrid) (hr : g.rev = false) (hinc : g.inc.length = g.dataShape.length)
    (c : Arr α) (e : List Nat) (hc : c.shape = g.dataShape ++ e) :
    ∃ b, g.fromCanonical c = .ok b ∧ b.shape = g.dataShape ++ e ∧
      ∀ i t, i.length = g.dataShape.length → t.length = e.length →
        b.get (i ++ t) = c.get (flipIdxAll g.inc g.dataShape i ++ t) := by
  refine ⟨flipAll g.inc 0 c, ?_, by rw [flipAll_shape, hc], ?_⟩
  · simp [fromCanonical, hr, hc]
  · intro i t hi ht
    rw [flipAll_get0 _ _ _ (by simp [hc, hi, ht]) (by simp [hc, hinc]), hc,
      flipIdxAll_append _ _ _ _ _ hi (by omega)]

theorem fromCanonical_rev {α} (g : SGrid) (hr : g.rev = true) (hinc : g.inc.length = g.dataShape.length)
    (hd : 1 ≤ g.dataShape.length) (c : Arr α) (e : List Nat) (hc : c.shape = g.dataShape.reverse ++ e) :
    ∃ b, g.fromCanonical c = .ok b ∧ b.shape = e.reverse ++ g.dataShape ∧
      ∀ i t, i.length = g.dataShape.length → t.length = e.length →
        b.get (t ++ i) = c.get (flipIdxAll g.inc g.dataShape.reverse i.reverse ++ t.reverse) := by
  have hcheck : (g.dataShape.reverse == c.shape.take g.dataShape.length) = true := by
    rw [hc]; simp
  have hfl : ∀ ci t, ci.length = g.dataShape.length → t.length = e.length →
      (flipAll g.inc 0 c).get (ci ++ t) = c.get (flipIdxAll g.inc g.dataShape.reverse ci ++ t) := by
    intro ci t h1 h2
    rw [flipAll_get0 _ _ _ (by simp [hc, h1, h2]) (by simp [hc, hinc]), hc,
      flipIdxAll_append _ _ _ _ _ (by simp [h1]) (by simp [hinc])]
  by_cases hn : c.ndim > 1
  · refine ⟨(flipAll g.inc 0 c).transpose, ?_, ?_, ?_⟩
    · simp [fromCanonical, hr, hcheck, Arr.ndim, flipAll_shape]
      intro h; simp only [Arr.ndim] at hn; omega
    · simp [Arr.transpose, flipAll_shape, hc]
    · intro i t hi ht
      simp only [Arr.transpose, List.reverse_append]
      exact hfl i.reverse t.reverse (by simp [hi]) (by simp [ht])
  · have hl : c.shape.length ≤ 1 := by simp only [Arr.ndim] at hn; omega
    have he : e = [] := by
      have : c.shape.length = g.dataShape.length + e.length := by simp [hc]
      cases e with
      | nil => rfl
      | cons x xs => simp at this; omega
    subst he
    simp only [List.append_nil] at hc
    have hd1 : g.dataShape.length ≤ 1 := by
      have : c.shape.length = g.dataShape.length := by simp [hc]
      omega
    refine ⟨flipAll g.inc 0 c, ?_, ?_, ?_⟩
    · simp [fromCanonical, hr, hcheck, Arr.ndim, flipAll_shape]
      intro h; simp [Arr.ndim] at hn; omega
    · rw [flipAll_shape, hc, reverse_of_length_le_one _ hd1]; simp
    · intro i t hi ht
      have ht0 : t = [] := by simpa using ht
      subst ht0
      have := hfl i [] hi rfl
      simp only [List.append_nil] at this
      simp only [List.nil_append, List.reverse_nil, List.append_nil]
      rw [this, reverse_of_length_le_one i (by omega)]

end SGrid
end Finam
