import FinamModel.Basic
/-!
  Units (`finam/data/tools/units.py`, `cf_units.py`, the unit branches of `core.prepare` and of
  `Input._convert_and_check`).

  A unit is a dimension vector over the seven base dimensions of the registry (length, mass,
  time, current, temperature, substance, luminosity) with a factor and an offset:
  a magnitude `v` in that unit is `v * factor + offset` in base units.  pint (the registry
  behind `UNITS`) is a *parameter* of the model: the catalogue below is written independently
  from the SI / UDUNITS definitions, and the correspondence run checks pint against it
  pairwise on every run.
-/
namespace Finam.Units

/-- exponents of the base dimensions -/
structure Dim where
  length : Int
  mass : Int
  time : Int
  current : Int
  temperature : Int
  substance : Int
  luminosity : Int
deriving Repr, DecidableEq

def Dim.one : Dim := ⟨0, 0, 0, 0, 0, 0, 0⟩
def Dim.mul (a b : Dim) : Dim :=
  ⟨a.length + b.length, a.mass + b.mass, a.time + b.time, a.current + b.current,
   a.temperature + b.temperature, a.substance + b.substance, a.luminosity + b.luminosity⟩
def Dim.inv (a : Dim) : Dim :=
  ⟨-a.length, -a.mass, -a.time, -a.current, -a.temperature, -a.substance, -a.luminosity⟩
def Dim.toList (a : Dim) : List Int :=
  [a.length, a.mass, a.time, a.current, a.temperature, a.substance, a.luminosity]

structure U where
  dim : Dim
  factor : Rat
  offset : Rat
deriving Repr, DecidableEq

/-! ### unit algebra used to write the catalogue -/

def base (d : Dim) : U := ⟨d, 1, 0⟩
def U.scale (q : Rat) (u : U) : U := ⟨u.dim, q * u.factor, 0⟩
def U.mul (a b : U) : U := ⟨a.dim.mul b.dim, a.factor * b.factor, 0⟩
def U.inv (a : U) : U := ⟨a.dim.inv, 1 / a.factor, 0⟩
def U.div (a b : U) : U := a.mul b.inv
def U.sq (a : U) : U := a.mul a
def U.cube (a : U) : U := (a.mul a).mul a

def one : U := base Dim.one
def metre : U := base ⟨1, 0, 0, 0, 0, 0, 0⟩
def kilogram : U := base ⟨0, 1, 0, 0, 0, 0, 0⟩
def second : U := base ⟨0, 0, 1, 0, 0, 0, 0⟩
def ampere : U := base ⟨0, 0, 0, 1, 0, 0, 0⟩
def kelvin : U := base ⟨0, 0, 0, 0, 1, 0, 0⟩
def mole : U := base ⟨0, 0, 0, 0, 0, 1, 0⟩

def kilo (u : U) : U := u.scale 1000
def hecto (u : U) : U := u.scale 100
def centi (u : U) : U := u.scale (1 / 100)
def milli (u : U) : U := u.scale (1 / 1000)
def micro (u : U) : U := u.scale (1 / 1000000)

def minute : U := second.scale 60
def hour : U := second.scale 3600
def day : U := second.scale 86400
def year : U := day.scale (1461 / 4)          -- `year = 365.25 * day` (cf_units.py)
def gram : U := milli kilogram
def litre : U := (centi metre |>.scale 10).cube  -- a cubic decimetre
def newton : U := (kilogram.mul metre).div second.sq
def pascal : U := newton.div metre.sq
def joule : U := newton.mul metre
def watt : U := joule.div second
/-- degree Celsius: same size as the kelvin, zero at 273.15 K -/
def degC : U := ⟨kelvin.dim, 1, 27315 / 100⟩
/-- degree Fahrenheit: 5/9 K, zero at 459.67 °R below = 255.372… K -/
def degF : U := ⟨kelvin.dim, 5 / 9, 45967 / 180⟩

/-- The catalogue: SI prefixes, powers, rates, offset temperatures, percent, dimensionless
    aliases, CF/UDUNITS spellings (`m s-1`, `kg m-2 s-1`, `m2`, `day`, `gpm`, …). -/
def catalogue : List (String × U) := [
  ("m", metre), ("km", kilo metre), ("mm", milli metre), ("cm", centi metre), ("meter", metre),
  ("millimeter", milli metre), ("um", micro metre), ("gpm", metre),
  ("m**2", metre.sq), ("m2", metre.sq), ("km**2", (kilo metre).sq), ("ha", (hecto metre).sq),
  ("m**3", metre.cube), ("m3", metre.cube), ("L", litre),
  ("s", second), ("min", minute), ("h", hour), ("hour", hour), ("d", day), ("day", day),
  ("year", year), ("yr", year),
  ("m/s", metre.div second), ("m s-1", metre.div second), ("km/h", (kilo metre).div hour),
  ("mm/d", (milli metre).div day), ("mm day-1", (milli metre).div day), ("mm/h", (milli metre).div hour),
  ("mm s-1", (milli metre).div second),
  ("kg", kilogram), ("g", gram), ("t", kilo kilogram), ("mg", milli gram),
  ("kg m-2", kilogram.div metre.sq), ("kg/m**2", kilogram.div metre.sq),
  ("kg m-2 s-1", (kilogram.div metre.sq).div second),
  ("N", newton), ("Pa", pascal), ("hPa", hecto pascal), ("kPa", kilo pascal), ("bar", pascal.scale 100000),
  ("J", joule), ("kJ", kilo joule), ("W", watt), ("W m-2", watt.div metre.sq),
  ("K", kelvin), ("kelvin", kelvin), ("degK", kelvin), ("degC", degC), ("degree_Celsius", degC), ("degF", degF),
  ("%", one.scale (1 / 100)), ("percent", one.scale (1 / 100)), ("1", one), ("", one), ("dimensionless", one),
  ("ppm", micro one),
  ("mol", mole), ("mol/L", mole.div litre), ("mol m-3", mole.div metre.cube), ("mmol/L", (milli mole).div litre),
  ("L/m**2", litre.div metre.sq), ("m3 s-1", metre.cube.div second), ("m**3/s", metre.cube.div second),
  ("L/s", litre.div second), ("Hz", second.inv), ("s-1", second.inv), ("A", ampere)]

def unitOfName (n : String) : Option U := catalogue.lookup n

/-! ### the relation and the conversion -/

/-- `Quantity.to`: magnitude `v` in unit `a` expressed in unit `b` -/
def convert (a b : U) (v : Rat) : Rat := (v * a.factor + a.offset - b.offset) / b.factor

/-- pint's `(v * a).to(b)`: raises `DimensionalityError` iff the dimensions differ -/
def pintTo (a b : U) (v : Rat) : Option Rat := if a.dim = b.dim then some (convert a b v) else none

/-- the tolerance rule of the code: `numpy.isclose(x, 1.0)` = `|x - 1| <= 1e-8 + 1e-5 * |1.0|` -/
def closeTol (x : Rat) : Bool := decide (x - 1 ≤ 1001 / 100000000 ∧ 1 - x ≤ 1001 / 100000000)

/-- `_cache_units(unit1, unit2)` without the store: `(compatible, equivalent)` -/
def cacheUnits (close : Rat → Bool) (a b : U) : Bool × Bool :=
  match pintTo a b 1 with
  | some x => (true, close x)
  | none => (false, false)

def compatible (a b : U) : Bool := (cacheUnits closeTol a b).1
def equivalent (close : Rat → Bool) (a b : U) : Bool := (cacheUnits close a b).2

/-! ### the memo `_UNIT_PAIRS_CACHE` and the operations that go through it -/

/-- the dictionary `(unit1, unit2) -> (compatible, equivalent)`; keys are `pint.Unit` objects
    (`κ`: identity of a unit under pint's `==`/`hash`), newest first -/
abbrev Cache (κ : Type) := List ((κ × κ) × (Bool × Bool))

/-- `_UNIT_PAIRS_CACHE.get((unit1, unit2))`, else `_cache_units` and store -/
def cached {κ} [DecidableEq κ] (unitOf : κ → U) (close : Rat → Bool) (c : Cache κ) (a b : κ) :
    (Bool × Bool) × Cache κ :=
  match c.lookup (a, b) with
  | some r => (r, c)
  | none => (cacheUnits close (unitOf a) (unitOf b), ((a, b), cacheUnits close (unitOf a) (unitOf b)) :: c)

inductive Op (κ : Type) where
  | compat (a b : κ)                                   -- compatible_units(a, b)
  | equiv (a b : κ)                                    -- equivalent_units(a, b)
  | toUnits (v : Rat) (src dst : κ) (chk : Bool)       -- to_units(Quantity(v, src), dst, check_equivalent=chk)
  | prepare (v : Rat) (src : Option κ) (dst : κ)       -- prepare(v [quantified with src], Info(units=dst))
  | link (v : Rat) (a b : κ) (pub : Option κ)          -- Output(units=a) >> Input(units=b): exchange, push, pull
  | clear                                              -- clear_units_cache()
deriving Repr

inductive Ans (κ : Type) where
  | bool (b : Bool)
  | value (v : Rat) (label : κ) (conv : Option (κ × κ))   -- magnitude, units of the result, reported conversion
  | err (e : Err)
  | unit
deriving Repr, DecidableEq

/-! #### unmemoised reference -/

/-- `to_units`: equal units → untouched; `check_equivalent` and equivalent → relabelled; else
    `xdata.to(units)` (pint raises for incompatible units: not a FINAM error) -/
def toUnitsPure {κ} [DecidableEq κ] (unitOf : κ → U) (close : Rat → Bool) (v : Rat) (src dst : κ) (chk : Bool) : Ans κ :=
  if dst = src then .value v src none
  else if chk && equivalent close (unitOf dst) (unitOf src) then .value v dst none
  else match pintTo (unitOf src) (unitOf dst) v with
    | some x => .value x dst (some (src, dst))
    | none => .err .other

/-- the unit branches of `core.prepare` -/
def preparePure {κ} (unitOf : κ → U) (close : Rat → Bool) (v : Rat) (src : Option κ) (dst : κ) : Ans κ :=
  match src with
  | none => .value v dst none                                   -- plain data: quantified with the info's units
  | some s =>
    if !(cacheUnits close (unitOf s) (unitOf dst)).1 then .err .dataErr     -- refuse
    else if !(cacheUnits close (unitOf s) (unitOf dst)).2 then
      .value (convert (unitOf s) (unitOf dst) v) dst (some (s, dst))        -- convert
    else .value v s none                                                     -- equivalent: numbers untouched

/-- a link `Output(units=a) >> Input(units=b)`: both `accepts` tests, publication (`prepare`), pull
    (`to_units(…, check_equivalent=True)`) -/
def linkPure {κ} [DecidableEq κ] (unitOf : κ → U) (close : Rat → Bool) (v : Rat) (a b : κ) (pub : Option κ) : Ans κ :=
  if !(cacheUnits close (unitOf a) (unitOf b)).1 then .err .metaErr
  else if !(cacheUnits close (unitOf b) (unitOf a)).1 then .err .metaErr
  else match preparePure unitOf close v pub a with
    | .value x lab _ =>
      match toUnitsPure unitOf close x lab b true with
      | .value y lab' cv =>
        -- `tools.check(data, input_info)`: compatible_units(info.units, data)
        if !(cacheUnits close (unitOf b) (unitOf lab')).1 then .err .dataErr else .value y lab' cv
      | other => other
    | other => other

def stepPure {κ} [DecidableEq κ] (unitOf : κ → U) (close : Rat → Bool) : Op κ → Ans κ
  | .compat a b => .bool (cacheUnits close (unitOf a) (unitOf b)).1
  | .equiv a b => .bool (cacheUnits close (unitOf a) (unitOf b)).2
  | .toUnits v s d chk => toUnitsPure unitOf close v s d chk
  | .prepare v s d => preparePure unitOf close v s d
  | .link v a b pub => linkPure unitOf close v a b pub
  | .clear => .unit

/-! #### the same operations as coded, through the memo -/

def toUnitsM {κ} [DecidableEq κ] (unitOf : κ → U) (close : Rat → Bool) (c : Cache κ) (v : Rat) (src dst : κ) (chk : Bool) :
    Ans κ × Cache κ :=
  if dst = src then (.value v src none, c)
  else if chk then
    -- `check_equivalent and equivalent_units(units, units2)`: the memo is asked for (dst, src)
    if (cached unitOf close c dst src).1.2 then (.value v dst none, (cached unitOf close c dst src).2)
    else match pintTo (unitOf src) (unitOf dst) v with
      | some x => (.value x dst (some (src, dst)), (cached unitOf close c dst src).2)
      | none => (.err .other, (cached unitOf close c dst src).2)
  else match pintTo (unitOf src) (unitOf dst) v with
    | some x => (.value x dst (some (src, dst)), c)
    | none => (.err .other, c)

def prepareM {κ} [DecidableEq κ] (unitOf : κ → U) (close : Rat → Bool) (c : Cache κ) (v : Rat) (src : Option κ) (dst : κ) :
    Ans κ × Cache κ :=
  match src with
  | none => (.value v dst none, c)
  | some s =>
    -- compatible_units(data.units, units) then equivalent_units(data.units, units)
    if !(cached unitOf close c s dst).1.1 then (.err .dataErr, (cached unitOf close c s dst).2)
    else if !(cached unitOf close (cached unitOf close c s dst).2 s dst).1.2 then
      (.value (convert (unitOf s) (unitOf dst) v) dst (some (s, dst)),
        (cached unitOf close (cached unitOf close c s dst).2 s dst).2)
    else (.value v s none, (cached unitOf close (cached unitOf close c s dst).2 s dst).2)

def linkM {κ} [DecidableEq κ] (unitOf : κ → U) (close : Rat → Bool) (c : Cache κ) (v : Rat) (a b : κ) (pub : Option κ) :
    Ans κ × Cache κ :=
  -- Output.get_info: out_info.accepts(in_info, incoming_donwstream=True) → compatible_units(a, b)
  if !(cached unitOf close c a b).1.1 then (.err .metaErr, (cached unitOf close c a b).2)
  -- Input.exchange_info: in_info.accepts(src_info) → compatible_units(b, a)
  else if !(cached unitOf close (cached unitOf close c a b).2 b a).1.1 then
    (.err .metaErr, (cached unitOf close (cached unitOf close c a b).2 b a).2)
  else match prepareM unitOf close (cached unitOf close (cached unitOf close c a b).2 b a).2 v pub a with
    | (.value x lab _, c') =>
      match toUnitsM unitOf close c' x lab b true with
      | (.value y lab' cv, c'') =>
        -- `tools.check(data, input_info)`: compatible_units(info.units, data)
        if !(cached unitOf close c'' b lab').1.1 then (.err .dataErr, (cached unitOf close c'' b lab').2)
        else (.value y lab' cv, (cached unitOf close c'' b lab').2)
      | (other, c'') => (other, c'')
    | (other, c') => (other, c')

def stepMemo {κ} [DecidableEq κ] (unitOf : κ → U) (close : Rat → Bool) (c : Cache κ) : Op κ → Ans κ × Cache κ
  | .compat a b => (.bool (cached unitOf close c a b).1.1, (cached unitOf close c a b).2)
  | .equiv a b => (.bool (cached unitOf close c a b).1.2, (cached unitOf close c a b).2)
  | .toUnits v s d chk => toUnitsM unitOf close c v s d chk
  | .prepare v s d => prepareM unitOf close c v s d
  | .link v a b pub => linkM unitOf close c v a b pub
  | .clear => (.unit, [])

/-- a query history run through the memo: the answers and the final dictionary -/
def runMemo {κ} [DecidableEq κ] (unitOf : κ → U) (close : Rat → Bool) : Cache κ → List (Op κ) → List (Ans κ) × Cache κ
  | c, [] => ([], c)
  | c, op :: ops =>
    ((stepMemo unitOf close c op).1 :: (runMemo unitOf close (stepMemo unitOf close c op).2 ops).1,
     (runMemo unitOf close (stepMemo unitOf close c op).2 ops).2)

end Finam.Units
