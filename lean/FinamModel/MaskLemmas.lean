import FinamModel.CanonicalLemmas
import FinamModel.Mask
/-! Lemmas about the mask model of `Mask.lean`. -/
namespace Finam

end Finam
