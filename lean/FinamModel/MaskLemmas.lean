import FinamModel.CanonicalLemmas
import FinamModel.Mask
/-! Lemmas about the mask model of `Mask.lean`. -/
namespace Finam

/-- a leading axis of length one does not change the flat position (either order) -/
theorem ravel_cons_zero (o : Order) (sh i : List Nat) (h : i.length = sh.length) :
    ravel o (1 :: sh) (0 :: i) = ravel o sh i := by
  cases o with
  | C => simp [ravel, ravelC]
  | F => simp only [ravel, List.reverse_cons]; exact ravelC_pad_one _ _ (by simp [h])

theorem unravel_singleton (o : Order) (n k : Nat) : unravel o [n] k = [k] := by
  cases o <;> simp [unravel, unravelC, prod]

theorem ravel_singleton (o : Order) (n k : Nat) : ravel o [n] [k] = k := by
  cases o <;> simp [ravel, ravelC, prod]

/-- two arrays of one shape have the same C-order element list iff they agree on every index -/
theorem toList_eq_iff {α} (a b : Arr α) (h : a.shape = b.shape) :
    a.toList = b.toList ↔ ∀ i, InB a.shape i → a.get i = b.get i := by
  unfold Arr.toList Arr.flat
  rw [← h]
  constructor
  · intro hl i hi
    have hk := ravel_lt .C _ _ hi
    have := congrArg (fun l => l[ravel .C a.shape i]?) hl
    simp only [List.getElem?_map, List.getElem?_range hk, Option.map_some, Option.some.injEq] at this
    rwa [unravel_ravel .C _ _ hi] at this
  · intro hall
    apply List.map_congr_left
    intro k hk
    simp only [List.mem_range] at hk
    exact hall _ (unravel_inB .C _ _ hk)

theorem allFalse_iff (l : List Bool) : allFalse l = true ↔ ∀ b ∈ l, b = false := by
  simp [allFalse]

/-! ### the steps of `prepare` on the three payload forms -/

theorem checkInputShape_shaped (gshape : List Nat) (o : Order) (y : Payload) (hy : y.data.shape = gshape)
    (hl : gshape.length ≠ 1) (hne : gshape ≠ []) :
    checkInputShape gshape o y = .ok { y with data := y.data.expandDims0,
                                               dmask := y.dmask.map (fun dm => dm.map Arr.expandDims0) } := by
  obtain ⟨s0, rest, rfl⟩ := List.exists_cons_of_ne_nil hne
  unfold checkInputShape
  have c1 : (y.data.ndim == (s0 :: rest).length + 1) = false := by simp [Arr.ndim, hy]
  simp only [c1, Bool.false_eq_true, if_false]
  rw [if_neg (by simp [Arr.size, hy]), if_pos (by simpa [Arr.ndim, hy] using hl),
    if_pos (by
      simp only [hy, List.tail_cons, bne_iff_ne, ne_eq]
      intro h; have := congrArg List.length h; simp at this),
    if_pos (by simp [hy])]

theorem checkInputShape_time (gshape : List Nat) (o : Order) (y : Payload) (hy : y.data.shape = 1 :: gshape)
    (hne : gshape ≠ []) : checkInputShape gshape o y = .ok y := by
  have hlen : gshape.length ≠ 0 := by simpa using hne
  unfold checkInputShape
  have c1 : (y.data.ndim == gshape.length + 1) = true := by simp [Arr.ndim, hy]
  simp only [c1, if_true]
  have c2 : (y.data.ndim != 1) = true := by
    simp only [Arr.ndim, hy, List.length_cons, bne_iff_ne, ne_eq]; omega
  rw [if_neg (by simp [Arr.size, hy, prod]), if_pos c2, if_neg (by simp [hy])]

theorem checkInputShape_flat (gshape : List Nat) (o : Order) (y : Payload) (hy : y.data.shape = [prod gshape])
    (hne : gshape ≠ []) :
    checkInputShape gshape o y =
      .ok { y with data := y.data.reshape o (1 :: gshape),
                   dmask := y.dmask.map (fun dm => dm.map (Arr.reshape o (1 :: gshape))) } := by
  have hlen : gshape.length ≠ 0 := by simpa using hne
  unfold checkInputShape
  have c1 : (y.data.ndim == gshape.length + 1) = false := by
    simp only [Arr.ndim, hy, List.length_cons, List.length_nil, beq_eq_false_iff_ne, ne_eq]; omega
  simp only [c1, Bool.false_eq_true, if_false]
  rw [if_neg (by simp [Arr.size, hy, prod]), if_neg (by simp [Arr.ndim, hy])]

theorem prepAttach_plain (infoMask mask : MaskSpec) (x : Payload) (hs : infoMask.specified = true)
    (hp : x.dmask = none) (m : Arr Bool) (hm : attachMask x.data.shape mask = .ok m) :
    prepAttach infoMask mask x = .ok { x with dmask := some (some m) } := by
  simp [prepAttach, hs, hp, hm]


end Finam
