import FinamModel.Sched
import FinamModel.Output
/-
  The network model used by C01's run-level theorem: the scheduler state of `Sched.lean` together with one
  bounded `Output` history (`OState`: all publications, the retained ones, the last request of every end
  point) per output.  An update pulls every non-static input link of the component at its announced time
  through the link's adapter chain from the source's history (`Output.stepImpl`: the lookup of
  `Output._interpolate` followed by the eviction of `Output._clear_data`), then publishes on every own output,
  then advances (`applyUpdate`).  `netRunLoop` is `Composition.run` on this state.
  Links here go through pass-through and fixed-delay adapters (the request reaches the source output).
-/
namespace Finam

/-- the time that reaches the source output for a pull at `t` through a chain without push-based adapters -/
def reqTime : List Ad → Int → Int
  | [], t => t
  | a :: r, t => reqTime r (a.withDelay [] t)

def adDirect : Ad → Bool
  | .pass => true
  | .dfix _ _ => true
  | _ => false

/-! ### the network: scheduler state + one bounded history per output -/

structure Net where
  sch : State
  os : Nat → OState Unit            -- history of every output (hist = all publications, ret = retained)
  ep : Nat → Nat → Nat              -- end-point number of input link `j` of component `c` at its source output

def updO (os : Nat → OState Unit) (o : Nat) (x : OState Unit) : Nat → OState Unit :=
  fun o' => if o' = o then x else os o'

/-- the pulls of one update, in input order; returns the histories afterwards and the answers -/
def pullLinks (ep : Nat → Nat → Nat) (u : Nat) (t : Int) :
    List Link → Nat → (Nat → OState Unit) → (Nat → OState Unit) × List (Option (Except Err Unit))
  | [], _, os => (os, [])
  | l :: ls, j, os =>
    if l.static then pullLinks ep u t ls (j+1) os
    else
      let st := stepImpl (os l.src) (.pull (ep u j) (reqTime l.ads t))
      let rest := pullLinks ep u t ls (j+1) (updO os l.src st.1)
      (rest.1, st.2 :: rest.2)

/-- `comp.update()` on the network: pull, publish, advance -/
def netUpdate (n : Net) (u : Nat) : Net × List (Option (Except Err Unit)) :=
  let t := getNext (n.sch.comp u)
  let p := pullLinks n.ep u t (n.sch.comp u).inputs 0 n.os
  let os2 : Nat → OState Unit := fun o =>
    if o < n.sch.outs.length ∧ (n.sch.out o).owner = u then (stepImpl (p.1 o) (.push t ())).1 else p.1 o
  ({ sch := applyUpdate n.sch u, os := os2, ep := n.ep }, p.2)


/-- `Composition.run` on the network; per update: the updated component, the number of retained entries of every
    output afterwards, and whether every pull of the update was answered -/
def netRunLoop : Nat → Net → Int → List (Nat × List Nat × Bool) → List (Nat × List Nat × Bool) × RunEnd × Net
  | 0, n, _, acc => (acc.reverse, .outOfFuel, n)
  | fuel+1, n, endT, acc =>
    match select n.sch with
    | none => (acc.reverse, .done, n)
    | some c0 =>
      match updateRec n.sch (n.sch.comps.length + 1) c0 [] none with
      | .error e => (acc.reverse, .err e, n)
      | .ok none => (acc.reverse, .err .fuel, n)
      | .ok (some u) =>
        let r := netUpdate n u
        let lens := (List.range n.sch.outs.length).map fun o => (r.1.os o).ret.length
        let ok := r.2.all fun a => a == some (.ok ())
        let acc' := (u, lens, ok) :: acc
        if anyRunning r.1.sch endT then netRunLoop fuel r.1 endT acc' else (acc'.reverse, .done, r.1)

end Finam
