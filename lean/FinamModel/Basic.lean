/-
  Basic vocabulary of the FINAM model.

  Time is `Int` microseconds since an arbitrary epoch (Python `datetime` has exactly this
  resolution; steps are `timedelta`, again integer microseconds).  Errors mirror FINAM's
  exception classes (`finam/errors.py`); `other` stands for any non-FINAM exception
  (`TypeError`, `ValueError`, `NotImplementedError`, ...).
-/
namespace Finam

inductive Err where
  | timeErr | noData | dataErr | metaErr | staticErr | connectErr | circular | statusErr | other
deriving Repr, DecidableEq, Inhabited

def Err.toString : Err → String
  | .timeErr => "FinamTimeError" | .noData => "FinamNoDataError" | .dataErr => "FinamDataError"
  | .metaErr => "FinamMetaDataError" | .staticErr => "FinamStaticDataError"
  | .connectErr => "FinamConnectError" | .circular => "FinamCircularCouplingError"
  | .statusErr => "FinamStatusError" | .other => "other"

instance : ToString Err := ⟨Err.toString⟩

deriving instance DecidableEq for Except

/-- A published entry: publication time and payload. -/
structure Entry (α : Type) where
  t : Int
  v : α
deriving Repr, DecidableEq

/-- Python `timedelta / 2` (true division by an int): microseconds, round-half-even. -/
def halfEven (d : Int) : Int :=
  let q := d / 2
  if d % 2 = 0 then q else if q % 2 = 0 then q else q + 1

/-- strictly increasing publication times -/
def Sorted {α} : List (Entry α) → Prop
  | [] => True
  | [_] => True
  | e0 :: e1 :: es => e0.t < e1.t ∧ Sorted (e1 :: es)

def sortedB {α} : List (Entry α) → Bool
  | [] => true
  | [_] => true
  | e0 :: e1 :: es => decide (e0.t < e1.t) && sortedB (e1 :: es)

theorem sortedB_iff {α} (l : List (Entry α)) : sortedB l = true ↔ Sorted l := by
  induction l with
  | nil => simp [sortedB, Sorted]
  | cons a l ih =>
    cases l with
    | nil => simp [sortedB, Sorted]
    | cons b l => simp [sortedB, Sorted, ih]

instance {α} (l : List (Entry α)) : Decidable (Sorted l) :=
  decidable_of_iff _ (sortedB_iff l)

theorem sorted_tail {α} {e : Entry α} {es} (h : Sorted (e :: es)) : Sorted es := by
  cases es with
  | nil => trivial
  | cons e1 es => exact h.2

end Finam
