import FinamModel.Driver
open Finam.Driver

partial def loop (hin : IO.FS.Stream) (hout : IO.FS.Stream) : IO Unit := do
  let line ← hin.getLine
  if line.isEmpty then return ()
  hout.putStrLn (step line)
  hout.flush
  loop hin hout

def main : IO Unit := do
  loop (← IO.getStdin) (← IO.getStdout)
