import FinamModel.Basic
import FinamModel.Generated
import FinamModel.Output
import FinamModel.OutputLemmas
import FinamModel.Props.Gen
import FinamModel.Props.C09
