#!/bin/bash
# Builds the Lean project (model, proofs, driver) from the files on disk; offline.
set -e
cd "$(dirname "$0")"
mkdir -p evidence/replays
export PYTHONDONTWRITEBYTECODE=1
/venv/bin/python -W ignore -c "from harness import common; common.regenerate()"
cd lean
lake build 2>&1 | tail -5
test -x .lake/build/bin/driver
test -x .lake/build/bin/trdriver
echo "setup ok"
