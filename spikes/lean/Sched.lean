namespace Finam

inductive Ad where
  | pass | cache | nodep | dpush
  | dfix (d : Int) (init : Int)
  | dpull (first : Int) (add : Int) (init : Int)
deriving Repr, DecidableEq

def Ad.withDelay : Ad → Int → Int
  | .dfix d i, t => if t - d < i then i else t - d
  | .dpull f a i, _ => if f - a < i then i else f - a
  | _, t => t

/-- required newest publication time at the source (spec) ; none = no requirement -/
def need : List Ad → Int → Option Int
  | [], t => some t
  | .pass :: r, t => need r t
  | .cache :: _, t => some t
  | .nodep :: _, _ => none
  | .dpush :: _, _ => none
  | a :: r, t => need r (a.withDelay t)

structure Link where
  ads : List Ad
  src : Nat        -- output id
  static : Bool
deriving Repr

inductive CompKind where
  | time (now next : Int) (finished : Bool)
  | pull
deriving Repr

structure Comp where
  kind : CompKind
  inputs : List Link
deriving Repr

structure Out where
  owner : Nat
  time : Int      -- newest publication (meaningful for time owners)
deriving Repr

structure State where
  comps : List Comp
  outs : List Out
deriving Repr

def State.comp (s : State) (c : Nat) : Comp := s.comps.getD c ⟨.pull, []⟩
def State.out (s : State) (o : Nat) : Out := s.outs.getD o ⟨0, 0⟩

def Comp.isTime (c : Comp) : Bool := match c.kind with | .time .. => true | .pull => false

/-- dict insert with max-merge keeping first insertion position -/
def depsInsert : List (Nat × Int) → Nat → Int → List (Nat × Int)
  | [], o, t => [(o, t)]
  | (o', t') :: r, o, t => if o' = o then (o', if t > t' then t else t') :: r else (o', t') :: depsInsert r o t

/-- mirror of `_find_dependencies` (with the walk = need, i.e. fixed semantics) -/
def findDeps (s : State) (c : Nat) (target : Int) : List (Nat × Int) :=
  (s.comp c).inputs.foldl (fun deps l =>
    if l.static then deps else
    match need l.ads target with
    | none => deps
    | some lt =>
      let o := s.out l.src
      if (s.comp o.owner).isTime && !(o.time < lt) then deps else depsInsert deps l.src lt) []

inductive Err where | circular | finished | fuel
deriving Repr, DecidableEq

mutual
def updateRec (s : State) : Nat → Nat → List Nat → Option Int → Except Err (Option Nat)
  | 0, _, _, _ => .error .fuel
  | fuel+1, c, chain, tgt =>
    if c ∈ chain then .error .circular else
    let chain := c :: chain
    let k := (s.comp c).kind
    let target := match k with | .time _ nx _ => nx | .pull => tgt.getD 0
    match depsLoop s fuel chain (findDeps s c target) with
    | .error e => .error e
    | .ok (some u) => .ok (some u)
    | .ok none =>
      match k with
      | .time _ _ fin => if fin then .error .finished else .ok (some c)
      | .pull => .ok none
def depsLoop (s : State) : Nat → List Nat → List (Nat × Int) → Except Err (Option Nat)
  | _, _, [] => .ok none
  | fuel, chain, (o, lt) :: r =>
    let ow := (s.out o).owner
    if (s.comp ow).isTime then
      if (s.out o).time < lt then updateRec s fuel ow chain none else depsLoop s fuel chain r
    else
      match updateRec s fuel ow chain (some lt) with
      | .error e => .error e
      | .ok (some u) => .ok (some u)
      | .ok none => depsLoop s fuel chain r
end

/-- spec: output `o` can serve a request whose upper requirement is `t` -/
inductive Avail (s : State) : Nat → Int → Prop where
  | time (o t) : (s.comp (s.out o).owner).isTime = true → t ≤ (s.out o).time → Avail s o t
  | pull (o t) : (s.comp (s.out o).owner).isTime = false →
      (∀ l ∈ (s.comp (s.out o).owner).inputs, l.static = false → ∀ lt, need l.ads t = some lt → Avail s l.src lt) →
      Avail s o t

def Ready (s : State) (c : Nat) (target : Int) : Prop :=
  ∀ l ∈ (s.comp c).inputs, l.static = false → ∀ lt, need l.ads target = some lt → Avail s l.src lt

end Finam
