import Scratch.OutRefine2
namespace Finam

/-- run a whole history, collecting the implementation's and the specification's answers -/
def runBoth {α} : OState α → List (Ev α) → List (Option (Res α) × Option (Res α))
  | _, [] => []
  | s, ev :: evs => ((stepImpl s ev).2, answerSpec s ev) :: runBoth (stepImpl s ev).1 evs

/-- the history respects the property's preconditions (increasing publications, per-end-point monotone requests) -/
def PreAll {α} : OState α → List (Ev α) → Prop
  | _, [] => True
  | s, ev :: evs => Pre s ev ∧ PreAll (stepImpl s ev).1 evs

def initState (α : Type) (n : Nat) : OState α := ⟨[], [], List.replicate n none⟩

theorem init_inv (α : Type) (n : Nat) : Inv2 (initState α n) where
  sorted := trivial
  suffix := ⟨[], rfl⟩
  lastOk := by intro a ha; simp [initState] at ha
  lastNone := by intro _ x hx; simp [initState] at hx; exact hx.2
  guard := Or.inl rfl

/-- C09, first sentence: for every interleaving of publications and pulls by any number of end points,
    every pull of the bounded output returns exactly what the unlimited history returns. -/
theorem evict_refines_unbounded {α} : ∀ (evs : List (Ev α)) (s : OState α), Inv2 s → PreAll s evs →
    ∀ p ∈ runBoth s evs, p.1 = p.2 := by
  intro evs
  induction evs with
  | nil => intro s _ _ p hp; cases hp
  | cons ev evs ih =>
    intro s hi hpre p hp
    simp only [runBoth] at hp
    cases hp with
    | head => exact answers_agree s hi.toInv ev hpre.1
    | tail _ h => exact ih _ (inv_step s hi ev hpre.1) hpre.2 p h

theorem evict_refines_unbounded_from_init {α} (n : Nat) (evs : List (Ev α)) (h : PreAll (initState α n) evs) :
    ∀ p ∈ runBoth (initState α n) evs, p.1 = p.2 :=
  evict_refines_unbounded evs _ (init_inv α n) h

-- TODO (build phase): make `Pre` Bool-valued so that a concrete two-consumer history with evictions can be
-- checked by `decide` as the non-vacuity example.

end Finam
