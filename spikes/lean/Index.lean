namespace Finam

def prod : List Nat → Nat
  | [] => 1
  | n :: ns => n * prod ns

def InB : List Nat → List Nat → Prop
  | [], [] => True
  | n :: ns, i :: is => i < n ∧ InB ns is
  | _, _ => False

def ravelC : List Nat → List Nat → Nat
  | _ :: ns, i :: is => i * prod ns + ravelC ns is
  | _, _ => 0

def unravelC : List Nat → Nat → List Nat
  | [], _ => []
  | _ :: ns, k => (k / prod ns) :: unravelC ns (k % prod ns)

theorem ravelC_lt : ∀ (sh ix : List Nat), InB sh ix → ravelC sh ix < prod sh := by
  intro sh
  induction sh with
  | nil => intro ix h; cases ix <;> simp [InB, ravelC, prod] at *
  | cons n ns ih =>
    intro ix h
    cases ix with
    | nil => simp [InB] at h
    | cons i is =>
      obtain ⟨hi, hr⟩ := h
      have := ih is hr
      simp only [ravelC, prod]
      calc i * prod ns + ravelC ns is < i * prod ns + prod ns := by omega
        _ = (i + 1) * prod ns := by rw [Nat.add_mul, Nat.one_mul]
        _ ≤ n * prod ns := Nat.mul_le_mul_right _ (by omega)

theorem unravel_ravelC : ∀ (sh ix : List Nat), InB sh ix → unravelC sh (ravelC sh ix) = ix := by
  intro sh
  induction sh with
  | nil => intro ix h; cases ix <;> simp [InB, unravelC] at *
  | cons n ns ih =>
    intro ix h
    cases ix with
    | nil => simp [InB] at h
    | cons i is =>
      obtain ⟨hi, hr⟩ := h
      have hlt := ravelC_lt ns is hr
      have hpos : 0 < prod ns := by omega
      simp only [ravelC, unravelC]
      have h1 : (i * prod ns + ravelC ns is) / prod ns = i := by
        rw [Nat.mul_comm, Nat.mul_add_div hpos, Nat.div_eq_of_lt hlt]; omega
      have h2 : (i * prod ns + ravelC ns is) % prod ns = ravelC ns is := by
        rw [Nat.mul_comm, Nat.mul_add_mod, Nat.mod_eq_of_lt hlt]
      rw [h1, h2, ih is hr]

/-- F order = C order on reversed shape and index -/
def ravelF (sh ix : List Nat) : Nat := ravelC sh.reverse ix.reverse

end Finam
