namespace Finam

/-- conjunctive rule system: item `i` may fire once all of `pre i` are done -/
structure Rules where
  pre : Nat → List Nat

inductive Derivable (R : Rules) : Nat → Prop where
  | mk (i : Nat) : (∀ p ∈ R.pre i, Derivable R p) → Derivable R i

def enabled (R : Rules) (d : List Nat) (i : Nat) : Bool :=
  !d.contains i && (R.pre i).all (fun p => d.contains p)

def fire (R : Rules) (d : List Nat) (i : Nat) : List Nat :=
  if enabled R d i then i :: d else d

/-- one iteration of the connect loop: every item gets one attempt, in the order `σ`
    (components in listing order, items of a component in the helper's fixed order) -/
def pass (R : Rules) (σ : List Nat) (d : List Nat) : List Nat := σ.foldl (fire R) d

theorem fire_mono (R : Rules) (d : List Nat) (i x : Nat) (h : x ∈ d) : x ∈ fire R d i := by
  unfold fire; split <;> simp [h]

theorem pass_mono (R : Rules) (σ d) (x : Nat) (h : x ∈ d) : x ∈ pass R σ d := by
  unfold pass
  induction σ generalizing d with
  | nil => simpa
  | cons i σ ih => simp only [List.foldl_cons]; exact ih _ (fire_mono R d i x h)

/-- soundness: only derivable items are ever marked done -/
theorem fire_sound (R : Rules) (d : List Nat) (i : Nat) (hd : ∀ x ∈ d, Derivable R x) :
    ∀ x ∈ fire R d i, Derivable R x := by
  unfold fire
  split
  · rename_i he
    intro x hx
    cases hx with
    | head =>
      simp only [enabled, Bool.and_eq_true, List.all_eq_true] at he
      exact .mk _ (fun p hp => hd p (by simpa using he.2 p hp))
    | tail _ h => exact hd x h
  · exact hd

theorem pass_sound (R : Rules) (σ d) (hd : ∀ x ∈ d, Derivable R x) : ∀ x ∈ pass R σ d, Derivable R x := by
  unfold pass
  induction σ generalizing d with
  | nil => simpa
  | cons i σ ih => simp only [List.foldl_cons]; exact ih _ (fire_sound R d i hd)

/-- an iteration that made no progress leaves nothing enabled among the attempted items -/
theorem pass_length (R : Rules) (σ d) : d.length ≤ (pass R σ d).length := by
  unfold pass
  induction σ generalizing d with
  | nil => simp
  | cons i σ ih =>
    simp only [List.foldl_cons]
    have : d.length ≤ (fire R d i).length := by unfold fire; split <;> simp
    exact Nat.le_trans this (ih _)

theorem stall_closed (R : Rules) (σ d) (hstall : (pass R σ d).length = d.length) :
    ∀ i ∈ σ, enabled R d i = false := by
  induction σ generalizing d with
  | nil => intro i hi; cases hi
  | cons j σ ih =>
    intro i hi
    have hlen : (pass R σ (fire R d j)).length = d.length := by simpa [pass] using hstall
    have h1 := pass_length R σ (fire R d j)
    -- `j` did not fire
    have hj : enabled R d j = false := by
      cases he : enabled R d j with
      | false => rfl
      | true =>
        have : (fire R d j).length = d.length + 1 := by simp [fire, he]
        omega
    have hfj : fire R d j = d := by simp [fire, hj]
    cases hi with
    | head => exact hj
    | tail _ hi' => exact ih d (by rw [hfj] at hlen; simpa [pass] using hlen) i hi'

/-- completeness at a stall: everything derivable (among the attempted items) is done,
    so the stalled state is the least fixed point whatever order the attempts were made in -/
theorem stall_complete (R : Rules) (σ d) (hstall : (pass R σ d).length = d.length)
    (hall : ∀ i, Derivable R i → i ∈ σ) : ∀ i, Derivable R i → i ∈ d := by
  intro i hi
  induction hi with
  | mk i _ ih =>
    have hcl := stall_closed R σ d hstall i (hall i (.mk i (by assumption)))
    simp only [enabled, Bool.and_eq_false_iff, Bool.not_eq_false', List.all_eq_false] at hcl
    rcases hcl with h | ⟨p, hp, hnp⟩
    · simpa using h
    · exact absurd (ih p hp) (by simpa using hnp)

/-- order independence (C05/C06 core): two stalled states reached by *any* attempt orders from
    derivable-only states contain the same items -/
theorem stall_unique (R : Rules) (σ₁ σ₂ d₁ d₂)
    (h₁ : (pass R σ₁ d₁).length = d₁.length) (h₂ : (pass R σ₂ d₂).length = d₂.length)
    (a₁ : ∀ i, Derivable R i → i ∈ σ₁) (a₂ : ∀ i, Derivable R i → i ∈ σ₂)
    (s₁ : ∀ x ∈ d₁, Derivable R x) (s₂ : ∀ x ∈ d₂, Derivable R x) :
    ∀ i, i ∈ d₁ ↔ i ∈ d₂ :=
  fun i => ⟨fun h => stall_complete R σ₂ d₂ h₂ a₂ i (s₁ i h), fun h => stall_complete R σ₁ d₁ h₁ a₁ i (s₂ i h)⟩

end Finam
