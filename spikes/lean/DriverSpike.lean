import Lean.Data.Json
import Scratch.Out
open Lean Finam

def parseEntries (j : Json) : List (Entry Int) :=
  match j.getArr? with
  | .ok arr => arr.toList.filterMap fun e =>
      match e.getArr? with
      | .ok #[t, v] => match t.getInt?, v.getInt? with
          | .ok t, .ok v => some ⟨t, v⟩
          | _, _ => none
      | _ => none
  | _ => []

def step (line : String) : String :=
  match Json.parse line with
  | .error e => s!"bad-json {e}"
  | .ok j =>
    let op := (j.getObjValAs? String "op").toOption.getD ""
    let d := parseEntries ((j.getObjVal? "data").toOption.getD (Json.arr #[]))
    let t := (j.getObjValAs? Int "t").toOption.getD 0
    match op with
    | "lookup" => match lookup d t with
        | .ok v => s!"ok {v}"
        | .timeErr => "timeErr"
        | .noData => "noData"
    | "evict" => toString ((evict d t).map fun e => (e.t, e.v))
    | _ => "bad-op"

partial def loop (h : IO.FS.Stream) : IO Unit := do
  let line ← h.getLine
  if line.isEmpty then return ()
  IO.println (step line)
  loop h

def main : IO Unit := do loop (← IO.getStdin)
