namespace Finam

notation "Time" => Int

structure Entry (α : Type) where
  t : Time
  v : α
deriving Repr, DecidableEq

inductive Res (α : Type) where
  | ok (v : α) | timeErr | noData
deriving Repr, DecidableEq

/-- Python `timedelta / 2` : microseconds, round-half-even (d ≥ 0). -/
def halfEven (d : Int) : Int :=
  let q := d / 2
  if d % 2 = 0 then q else if q % 2 = 0 then q else q + 1

/-- loop body of `Output._interpolate` from index ≥ 1, `prev` = data[i-1] -/
def lookupAux {α} (prev : Entry α) : List (Entry α) → Time → Res α
  | [], _ => .timeErr
  | e :: es, t =>
    if t > e.t then lookupAux e es t
    else if t = e.t then .ok e.v
    else if t < prev.t + halfEven (e.t - prev.t) then .ok prev.v else .ok e.v

def lastT {α} (e0 : Entry α) : List (Entry α) → Time
  | [] => e0.t
  | e :: es => lastT e es

def lookup {α} : List (Entry α) → Time → Res α
  | [], _ => .noData
  | e0 :: es, t =>
    if t < e0.t ∨ t > lastT e0 es then .timeErr
    else if t = e0.t then .ok e0.v
    else lookupAux e0 es t

/-- `Output._clear_data` loop -/
def evict {α} : List (Entry α) → Time → List (Entry α)
  | e0 :: e1 :: es, tmin => if e1.t ≤ tmin then evict (e1 :: es) tmin else e0 :: e1 :: es
  | d, _ => d

def Sorted {α} : List (Entry α) → Prop
  | [] => True
  | [_] => True
  | e0 :: e1 :: es => e0.t < e1.t ∧ Sorted (e1 :: es)

theorem sorted_tail {α} {e : Entry α} {es} (h : Sorted (e :: es)) : Sorted es := by
  cases es with
  | nil => trivial
  | cons e1 es => exact h.2

theorem lastT_ge {α} (e0 : Entry α) (es) (h : Sorted (e0 :: es)) : e0.t ≤ lastT e0 es := by
  induction es generalizing e0 with
  | nil => simp [lastT]
  | cons e1 es ih =>
    have := ih e1 h.2
    simp only [lastT]; have := h.1; omega

/-- key lemma: dropping the head when the second entry is not newer than the request -/
theorem lookup_drop_head {α} (e0 e1 : Entry α) (es) (t : Time)
    (hs : Sorted (e0 :: e1 :: es)) (ht : e1.t ≤ t) :
    lookup (e0 :: e1 :: es) t = lookup (e1 :: es) t := by
  have h01 := hs.1
  have hl := lastT_ge e1 es hs.2
  simp only [lookup, lastT, lookupAux]
  by_cases hgt : t > lastT e1 es
  · simp [hgt]
  · have : ¬ (t < e0.t) := by omega
    have : ¬ (t < e1.t) := by omega
    have : ¬ (t = e0.t) := by omega
    simp [*]
    by_cases heq : t = e1.t
    · simp [heq]
    · have : t > e1.t := by omega
      simp [*]

theorem evict_lookup {α} (d : List (Entry α)) (tmin t : Time) (hs : Sorted d) (ht : tmin ≤ t) :
    lookup (evict d tmin) t = lookup d t := by
  fun_induction evict d tmin with
  | case1 e0 e1 es tmin h ih =>
    rw [ih hs.2 ht]; exact (lookup_drop_head e0 e1 es t hs (by omega)).symm
  | case2 => rfl
  | case3 => rfl

end Finam
