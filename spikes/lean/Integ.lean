namespace Finam
def lin (t0 t1 v0 v1 x : Rat) : Rat := v0 + (x - t0) / (t1 - t0) * (v1 - v0)
def trap (t0 t1 v0 v1 a b : Rat) : Rat := (b - a) * (lin t0 t1 v0 v1 a + lin t0 t1 v0 v1 b) / 2

theorem trap_additive (t0 t1 v0 v1 a b c : Rat) (h : t0 < t1) :
    trap t0 t1 v0 v1 a b + trap t0 t1 v0 v1 b c = trap t0 t1 v0 v1 a c := by
  unfold trap lin
  have hne : t1 - t0 ≠ 0 := by grind
  grind

/-- code form: fractions dt1, dt2 of the interval, value = (dt2-dt1)*0.5*(v1'+v2') * range -/
def codePiece (t0 t1 v0 v1 p q : Rat) : Rat :=
  let r := t1 - t0
  let dt1 := (p - t0) / r
  let dt2 := (q - t0) / r
  (dt2 - dt1) * (1/2) * ((v0 + dt1 * (v1 - v0)) + (v0 + dt2 * (v1 - v0))) * r

theorem codePiece_eq_trap (t0 t1 v0 v1 p q : Rat) (h : t0 < t1) :
    codePiece t0 t1 v0 v1 p q = trap t0 t1 v0 v1 p q := by
  unfold codePiece trap lin
  have hne : t1 - t0 ≠ 0 := by grind
  grind
end Finam
