namespace Finam

/-- a component on a ring: current time, announced step, accumulated delay on its incoming link,
    start time of its upstream neighbour (lower clamp of the delay adapters) -/
structure RingNode where
  t : Int
  s : Int
  d : Int
deriving Repr

/-- `b` (upstream of `a`) lags behind what `a` needs for its announced pull: b.t < max (a.t + a.s - a.d) bstart,
    where b.t ≥ bstart always, so only the first operand can make it true -/
def lag (a b : RingNode) (bstart : Int) : Prop := b.t < max (a.t + a.s - a.d) bstart

/-- consecutive lags along `l`, closing at `f` -/
def chainLag : List (RingNode × Int) → (RingNode × Int) → Prop
  | [], _ => True
  | [a], f => lag a.1 f.1 f.2
  | a :: b :: r, f => lag a.1 b.1 b.2 ∧ chainLag (b :: r) f

def slack : List (RingNode × Int) → Int
  | [] => 0
  | a :: r => (a.1.s - a.1.d) + slack r

theorem chainLag_bound : ∀ (l : List (RingNode × Int)) (h f : RingNode × Int),
    (∀ x ∈ (h :: l), x.2 ≤ x.1.t) → f.2 ≤ f.1.t →
    chainLag (h :: l) f → f.1.t < h.1.t + slack (h :: l) := by
  intro l
  induction l with
  | nil =>
    intro h f _ hf hc
    simp only [chainLag, lag] at hc
    simp only [slack]
    omega
  | cons b r ih =>
    intro h f hst hf hc
    simp only [chainLag] at hc
    obtain ⟨h1, h2⟩ := hc
    have hb : b.2 ≤ b.1.t := hst b (by simp)
    have := ih b f (fun x hx => hst x (List.mem_cons_of_mem _ hx)) hf h2
    simp only [lag] at h1
    simp only [slack] at *
    omega

/-- C04, second sentence, snapshot form: on a ring whose accumulated delays sum to at least the sum of the
    announced steps, the lag inequalities cannot all hold, wherever the delay sits and however it is split. -/
theorem no_lag_cycle_of_delay_sum (h : RingNode × Int) (l : List (RingNode × Int))
    (hst : ∀ x ∈ (h :: l), x.2 ≤ x.1.t)
    (hsum : slack (h :: l) ≤ 0) : ¬ chainLag (h :: l) h := by
  intro hc
  have := chainLag_bound l h h hst (hst h (by simp)) hc
  omega

end Finam
