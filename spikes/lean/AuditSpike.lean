import Lean
import Scratch
open Lean Elab Command

elab "#audit " ns:ident : command => do
  let env ← getEnv
  let pre := ns.getId
  let names := env.constants.fold (init := (#[] : Array Name)) fun acc n ci =>
    if pre.isPrefixOf n && !n.isInternal then
      match ci with
      | .thmInfo _ => acc.push n
      | _ => acc
    else acc
  for n in names.qsort (fun a b => a.toString < b.toString) do
    let axs ← Lean.collectAxioms n
    logInfo m!"AUDIT {n} {axs.toList}"

#audit Finam
