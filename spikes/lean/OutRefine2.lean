import Scratch.OutRefine
namespace Finam

theorem evict_suffix {α} (d : List (Entry α)) (m : Int) : ∃ q, d = q ++ evict d m := by
  fun_induction evict d m with
  | case1 e0 e1 es m h ih => obtain ⟨q, hq⟩ := ih; exact ⟨e0 :: q, by rw [List.cons_append, ← hq]⟩
  | case2 => exact ⟨[], rfl⟩
  | case3 => exact ⟨[], rfl⟩

theorem evict_ne_nil {α} (d : List (Entry α)) (m : Int) (h : d ≠ []) : evict d m ≠ [] := by
  fun_induction evict d m with
  | case1 e0 e1 es m _ ih => exact ih (by simp)
  | case2 => simp
  | case3 d m hd => exact h

theorem evict_head_le {α} (d : List (Entry α)) (m : Int) (h : headLe d m) : headLe (evict d m) m := by
  fun_induction evict d m with
  | case1 e0 e1 es m hle ih => exact ih (by simpa [headLe] using hle)
  | case2 => exact h
  | case3 => exact h

theorem lookup_ok_ge_head {α} (e : Entry α) (r : List (Entry α)) (t : Int) (v : α)
    (h : lookup (e :: r) t = .ok v) : e.t ≤ t := by
  simp only [lookup] at h
  split at h
  · cases h
  · rename_i hn; omega

theorem minLast_le : ∀ (l : List (Option Int)) (m : Int), minLast l = some m → ∀ a, some a ∈ l → m ≤ a := by
  intro l
  induction l with
  | nil => intro m h; simp [minLast] at h
  | cons x xs ih =>
    intro m h a ha
    cases xs with
    | nil =>
      simp only [minLast] at h
      simp at ha; subst h; simp at ha; omega
    | cons y ys =>
      simp only [minLast] at h
      cases hx : x with
      | none => simp [hx] at h
      | some xa =>
        cases hm : minLast (y :: ys) with
        | none => simp [hx, hm] at h
        | some mb =>
          simp only [hx, hm, Option.some.injEq] at h
          have := ih mb hm
          subst hx
          cases ha with
          | head => split at h <;> omega
          | tail _ ha' => have := this a ha'; split at h <;> omega

theorem minLast_mem : ∀ (l : List (Option Int)) (m : Int), minLast l = some m → some m ∈ l := by
  intro l
  induction l with
  | nil => intro m h; simp [minLast] at h
  | cons x xs ih =>
    intro m h
    cases xs with
    | nil => simp only [minLast] at h; simp [h]
    | cons y ys =>
      simp only [minLast] at h
      cases hx : x with
      | none => simp [hx] at h
      | some xa =>
        cases hm : minLast (y :: ys) with
        | none => simp [hx, hm] at h
        | some mb =>
          simp only [hx, hm, Option.some.injEq] at h
          have := ih mb hm
          split at h
          · subst h; simp
          · subst h; exact List.mem_cons_of_mem _ this

/-- strengthened invariant (preserved by every step) -/
structure Inv2 {α} (s : OState α) : Prop where
  sorted : Sorted s.hist
  suffix : ∃ p, s.hist = p ++ s.ret
  lastOk : ∀ a, some a ∈ s.last → headLe s.ret a
  lastNone : s.ret = [] → ∀ x ∈ s.last, x = none
  guard  : s.hist = s.ret ∨ (s.ret ≠ [] ∧ ∀ x ∈ s.last, ∃ a, x = some a)

theorem Inv2.toInv {α} {s : OState α} (h : Inv2 s) : Inv s where
  sorted := h.sorted
  suffix := h.suffix
  guard := by
    rcases h.guard with hg | ⟨hne, hall⟩
    · exact Or.inl ⟨[], by simpa using hg, rfl⟩
    · exact Or.inr ⟨hne, fun x hx => by obtain ⟨a, ha⟩ := hall x hx; exact ⟨a, ha, h.lastOk a (ha ▸ hx)⟩⟩

theorem sorted_snoc {α} : ∀ (l : List (Entry α)) (e : Entry α), Sorted l → (∀ x ∈ l, x.t < e.t) → Sorted (l ++ [e]) := by
  intro l
  induction l with
  | nil => intro e _ _; trivial
  | cons a l ih =>
    intro e hs hlt
    cases l with
    | nil => exact ⟨hlt a (by simp), trivial⟩
    | cons b l' =>
      exact ⟨hs.1, ih e hs.2 (fun x hx => hlt x (List.mem_cons_of_mem _ hx))⟩

theorem headLe_append {α} (r : List (Entry α)) (e : Entry α) (a : Int) (hne : r ≠ []) (h : headLe r a) :
    headLe (r ++ [e]) a := by
  cases r with
  | nil => exact absurd rfl hne
  | cons x xs => simpa [headLe] using h

theorem inv_step {α} (s : OState α) (hi : Inv2 s) (ev : Ev α) (hp : Pre s ev) : Inv2 (stepImpl s ev).1 := by
  cases ev with
  | push t v =>
    simp only [stepImpl]
    obtain ⟨p, hp1⟩ := hi.suffix
    refine ⟨sorted_snoc _ _ hi.sorted hp, ⟨p, by simp [hp1]⟩, ?_, ?_, ?_⟩
    · intro a ha
      by_cases hne : s.ret = []
      · have := hi.lastNone hne _ ha; simp at this
      · exact headLe_append _ _ _ hne (hi.lastOk a ha)
    · intro h; simp at h
    · rcases hi.guard with hg | ⟨hne, hall⟩
      · left; simp [hg]
      · right; exact ⟨by simp, hall⟩
  | pull k t =>
    simp only [stepImpl]
    cases hl : lookup s.ret t with
    | timeErr => exact hi
    | noData => exact hi
    | ok v =>
      simp only
      have hne : s.ret ≠ [] := by intro h; rw [h] at hl; simp [lookup] at hl
      obtain ⟨e, r, hr⟩ : ∃ e r, s.ret = e :: r := by
        cases h : s.ret with
        | nil => exact absurd h hne
        | cons e r => exact ⟨e, r, rfl⟩
      have hget : e.t ≤ t := lookup_ok_ge_head e r t v (hr ▸ hl)
      have hlast' : ∀ a, some a ∈ s.last.set k (some t) → headLe s.ret a := by
        intro a ha
        rcases List.mem_or_eq_of_mem_set ha with h | h
        · exact hi.lastOk a h
        · cases h; rw [hr]; exact hget
      cases hm : minLast (s.last.set k (some t)) with
      | none =>
        refine ⟨hi.sorted, hi.suffix, hlast', fun h => absurd h hne, ?_⟩
        rcases hi.guard with hg | ⟨_, hall⟩
        · exact Or.inl hg
        · right; refine ⟨hne, ?_⟩
          intro x hx
          rcases List.mem_or_eq_of_mem_set hx with h | h
          · exact hall x h
          · exact ⟨t, h⟩
      | some m =>
        simp only
        by_cases hall : allSome (s.last.set k (some t)) = true
        · simp only [hall, if_true]
          obtain ⟨p, hp1⟩ := hi.suffix
          obtain ⟨q, hq⟩ := evict_suffix s.ret m
          have hmle := minLast_le _ m hm
          have hmmem := minLast_mem _ m hm
          have hhead : headLe (evict s.ret m) m := evict_head_le _ _ (hlast' m hmmem)
          refine ⟨hi.sorted, ⟨p ++ q, by rw [List.append_assoc, ← hq, hp1]⟩, ?_, fun h => absurd h (evict_ne_nil _ _ hne), ?_⟩
          · intro a ha
            have := hmle a ha
            cases he : evict s.ret m with
            | nil => trivial
            | cons x xs => rw [he] at hhead; simp only [headLe] at *; omega
          · right
            refine ⟨evict_ne_nil _ _ hne, ?_⟩
            intro x hx
            simp only [allSome, List.all_eq_true] at hall
            have := hall x hx
            cases x with
            | none => simp at this
            | some a => exact ⟨a, rfl⟩
        · simp only [hall]
          refine ⟨hi.sorted, hi.suffix, hlast', fun h => absurd h hne, ?_⟩
          rcases hi.guard with hg | ⟨_, hall'⟩
          · exact Or.inl hg
          · right; refine ⟨hne, ?_⟩
            intro x hx
            rcases List.mem_or_eq_of_mem_set hx with h | h
            · exact hall' x h
            · exact ⟨t, h⟩

end Finam
