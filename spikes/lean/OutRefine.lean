import Scratch.Out
namespace Finam

/-! C09: the bounded output refines the unbounded one, for every event history. -/

theorem sorted_append_right {α} : ∀ (p r : List (Entry α)), Sorted (p ++ r) → Sorted r := by
  intro p
  induction p with
  | nil => intro r h; simpa using h
  | cons a p ih => intro r h; exact ih r (sorted_tail h)

/-- dropping any prefix whose successor entry is not newer than the request does not change the answer -/
theorem lookup_drop_prefix {α} : ∀ (p : List (Entry α)) (e : Entry α) (r : List (Entry α)) (t : Int),
    Sorted (p ++ e :: r) → e.t ≤ t → lookup (p ++ e :: r) t = lookup (e :: r) t := by
  intro p
  induction p with
  | nil => intro e r t _ _; rfl
  | cons a p ih =>
    intro e r t hs ht
    have hs' : Sorted (p ++ e :: r) := sorted_tail hs
    cases p with
    | nil =>
      simp only [List.nil_append, List.cons_append] at *
      exact lookup_drop_head a e r t hs ht
    | cons b p' =>
      have hb : b.t ≤ t := by
        -- b is before e in a sorted list
        have : ∀ (q : List (Entry α)) (x : Entry α), Sorted (x :: (q ++ e :: r)) → x.t < e.t := by
          intro q
          induction q with
          | nil => intro x h; exact h.1
          | cons y q ihq => intro x h; have := ihq y h.2; have := h.1; omega
        have := this p' b hs'
        omega
      have h1 : lookup (a :: b :: (p' ++ e :: r)) t = lookup (b :: (p' ++ e :: r)) t :=
        lookup_drop_head a b _ t hs hb
      simp only [List.cons_append] at *
      rw [h1]
      exact ih e r t hs' ht

structure OState (α : Type) where
  hist : List (Entry α)          -- everything ever published (specification state)
  ret  : List (Entry α)          -- what the implementation retains
  last : List (Option Int)       -- last request per end point

inductive Ev (α : Type) where
  | push (t : Int) (v : α)
  | pull (k : Nat) (t : Int)

def minLast : List (Option Int) → Option Int
  | [] => none
  | [x] => x
  | x :: xs => match x, minLast xs with
    | some a, some b => some (if a ≤ b then a else b)
    | _, _ => none

def allSome (l : List (Option Int)) : Bool := l.all Option.isSome

/-- implementation step; returns the answer of a pull -/
def stepImpl {α} (s : OState α) : Ev α → OState α × Option (Res α)
  | .push t v => ({ s with hist := s.hist ++ [⟨t, v⟩], ret := s.ret ++ [⟨t, v⟩] }, none)
  | .pull k t =>
    match lookup s.ret t with
    | .ok v =>
      let last' := s.last.set k (some t)
      let ret' := match minLast last' with
        | some m => if allSome last' then evict s.ret m else s.ret
        | none => s.ret
      ({ s with last := last', ret := ret' }, some (.ok v))
    | r => (s, some r)

/-- specification: unlimited history -/
def answerSpec {α} (s : OState α) : Ev α → Option (Res α)
  | .push _ _ => none
  | .pull _ t => some (lookup s.hist t)

def headLe {α} (r : List (Entry α)) (m : Int) : Prop :=
  match r with | [] => True | e :: _ => e.t ≤ m

/-- invariant -/
structure Inv {α} (s : OState α) : Prop where
  sorted : Sorted s.hist
  suffix : ∃ p, s.hist = p ++ s.ret
  guard  : (∃ p, s.hist = p ++ s.ret ∧ p = []) ∨
           (s.ret ≠ [] ∧ ∀ x ∈ s.last, ∃ a, x = some a ∧ headLe s.ret a)

/-- precondition of one event: pushes are newer than everything, pulls are monotone per end point -/
def Pre {α} (s : OState α) : Ev α → Prop
  | .push t _ => ∀ e ∈ s.hist, e.t < t
  | .pull k t => k < s.last.length ∧ ∀ a, s.last[k]? = some (some a) → a ≤ t

theorem answers_agree {α} (s : OState α) (hi : Inv s) (ev : Ev α) (hp : Pre s ev) :
    (stepImpl s ev).2 = answerSpec s ev := by
  cases ev with
  | push t v => rfl
  | pull k t =>
    have key : lookup s.ret t = lookup s.hist t := by
      rcases hi.guard with ⟨p, hp1, hp2⟩ | ⟨hne, hall⟩
      · subst hp2; simp at hp1; rw [hp1]
      · obtain ⟨p, hp1⟩ := hi.suffix
        cases hr : s.ret with
        | nil => exact absurd hr hne
        | cons e r =>
          rw [hp1, hr]
          have hk := hp.1
          have hmem : s.last[k] ∈ s.last := List.getElem_mem hk
          obtain ⟨a, ha, hle⟩ := hall _ hmem
          have : a ≤ t := hp.2 a (by simp [List.getElem?_eq_getElem hk, ha])
          rw [hr] at hle
          simp only [headLe] at hle
          exact (lookup_drop_prefix p e r t (by rw [← hr, ← hp1]; exact hi.sorted) (by omega)).symm
    simp only [stepImpl, answerSpec]
    rw [← key]
    cases lookup s.ret t <;> rfl

end Finam
