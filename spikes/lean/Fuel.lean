import Scratch.Sched
namespace Finam

/-- pigeonhole: a duplicate-free list of naturals below `n` has at most `n` elements -/
theorem nodup_bounded_length : ∀ (n : Nat) (l : List Nat), l.Nodup → (∀ x ∈ l, x < n) → l.length ≤ n := by
  intro n
  induction n with
  | zero => intro l _ hb; cases l with
    | nil => simp
    | cons a _ => exact absurd (hb a (by simp)) (by omega)
  | succ n ih =>
    intro l hnd hb
    -- remove `n` from the list
    have hlen : (l.erase n).length ≤ n := by
      apply ih
      · exact hnd.erase n
      · intro x hx
        have hxl : x ∈ l := List.mem_of_mem_erase hx
        have hne : x ≠ n := by
          intro h; subst h
          exact (List.Nodup.mem_erase_iff hnd).mp hx |>.1 rfl
        have := hb x hxl; omega
    have : l.length ≤ (l.erase n).length + 1 := by
      rw [List.length_erase]; split <;> omega
    omega

/-- all owners of outputs are valid component indices -/
def WF (s : State) : Prop := ∀ o, (s.out o).owner < s.comps.length

/-- with fuel exceeding the number of components not yet on the chain, recursion never runs dry (C04: no unbounded recursion) -/
theorem updateRec_fuel_enough (s : State) (hwf : WF s) : ∀ (fuel : Nat),
    (∀ c chain tgt, c < s.comps.length → chain.Nodup → (∀ x ∈ chain, x < s.comps.length) →
        s.comps.length < fuel + chain.length → updateRec s fuel c chain tgt ≠ .error .fuel) ∧
    (∀ chain deps, chain.Nodup → (∀ x ∈ chain, x < s.comps.length) →
        s.comps.length < fuel + chain.length → depsLoop s fuel chain deps ≠ .error .fuel) := by
  intro fuel
  induction fuel with
  | zero =>
    constructor
    · intro c chain tgt _ hnd hb hf
      have := nodup_bounded_length _ chain hnd hb; omega
    · intro chain deps hnd hb hf
      have := nodup_bounded_length _ chain hnd hb; omega
  | succ n ih =>
    obtain ⟨ihU, ihL⟩ := ih
    have hU : ∀ c chain tgt, c < s.comps.length → chain.Nodup → (∀ x ∈ chain, x < s.comps.length) →
        s.comps.length < (n+1) + chain.length → updateRec s (n+1) c chain tgt ≠ .error .fuel := by
      intro c chain tgt hc hnd hb hf
      simp only [updateRec]
      split
      · simp
      · rename_i hnot
        have hnd' : (c :: chain).Nodup := List.nodup_cons.mpr ⟨hnot, hnd⟩
        have hb' : ∀ x ∈ c :: chain, x < s.comps.length := by
          intro x hx; cases hx with
          | head => exact hc
          | tail _ h => exact hb x h
        have := ihL (c :: chain) (findDeps s c (match (s.comp c).kind with | .time _ nx _ => nx | .pull => tgt.getD 0)) hnd' hb' (by simp only [List.length_cons]; omega)
        split
        · rename_i e he; intro h; cases h; exact this he
        · simp
        · split
          · split <;> simp
          · simp
    refine ⟨hU, ?_⟩
    intro chain deps hnd hb hf
    induction deps with
    | nil => simp [depsLoop]
    | cons p ps ihd =>
      obtain ⟨o, lt⟩ := p
      simp only [depsLoop]
      split
      · split
        · exact hU _ _ _ (hwf o) hnd hb hf
        · exact ihd
      · have h1 := hU (s.out o).owner chain (some lt) (hwf o) hnd hb hf
        split
        · rename_i e he; intro h; cases h; exact h1 he
        · simp
        · exact ihd

end Finam
