import numpy as np, finam as fm, datetime as dt, logging
from finam import Location
T0=dt.datetime(2000,1,1); D=dt.timedelta(days=1)
rng=np.random.default_rng(3)
def run(gs, gd, smask, dmask, fill):
    log=[]
    sp=gs.data_points
    coef=rng.integers(-3,4,size=sp.shape[1]).astype(float); c0=float(rng.integers(-3,4))
    f=lambda P: P@coef+c0
    vals=f(sp).reshape(gs.data_shape, order=gs.order)
    data=np.ma.masked_array(vals, smask) if smask is not None else vals
    src=fm.components.CallbackGenerator({"Out": (lambda t: data.copy(), fm.Info(time=None, grid=gs, units="m", mask=(smask if smask is not None else fm.Mask.NONE)))}, start=T0, step=D).with_name("src")
    cons=fm.components.CallbackComponent(inputs={"In": fm.Info(time=None, grid=gd, units="m", mask=(dmask if dmask is not None else fm.Mask.FLEX))}, outputs={}, callback=lambda inp,t: log.append(inp["In"].magnitude) or {}, start=T0, step=D).with_name("cons")
    comp=fm.Composition([src,cons], print_log=False, log_level=logging.CRITICAL)
    src.outputs["Out"] >> fm.adapters.RegridLinear(fill_with_nearest=fill) >> cons.inputs["In"]
    comp.run(end_time=T0+D)
    got=log[-1][0]
    dp=gd.data_points
    gv=np.ma.getdata(got).reshape(-1,order=gd.order); gm=np.ma.getmaskarray(got).reshape(-1,order=gd.order)
    # inside hull test via scipy Delaunay on unmasked source pts
    from scipy.spatial import Delaunay
    sm=(smask.reshape(-1,order=gs.order) if smask is not None else np.zeros(len(sp),bool))
    pts=sp[~sm]
    try:
        inside = Delaunay(pts).find_simplex(dp)>=0 if pts.shape[1]>1 else ((dp[:,0]>=pts.min())&(dp[:,0]<=pts.max()))
    except Exception as e:
        return "skip-degenerate"
    exp=f(dp)
    dm=(dmask.reshape(-1,order=gd.order) if dmask is not None else np.zeros(len(dp),bool))
    for j in range(len(dp)):
        if dm[j]:
            if not gm[j]: return f"target mask lost at {j}"
            continue
        if inside[j]:
            if gm[j]: 
                # boundary cases may be flagged outside by interpolator; tolerate if on hull boundary
                continue
            if not np.isclose(gv[j],exp[j],atol=1e-9): return f"WRONG inside at {j}: {gv[j]} vs {exp[j]}"
        else:
            if fill:
                if gm[j]: return f"fill requested but masked at {j}"
                d2=np.sum((pts-dp[j])**2,axis=1); best=np.isclose(d2,d2.min())
                sv=f(pts)
                if not any(np.isclose(gv[j],sv[k]) for k in np.nonzero(best)[0]): return f"WRONG fill at {j}"
            else:
                if not gm[j]: return f"outside not masked at {j}"
    return "OK"
res={}
for it in range(120):
    d=int(rng.integers(2,4)); dims=tuple(int(x) for x in rng.integers(3,5,size=d))
    kind=rng.choice(["unstruct","points","masked_uniform"])
    order=rng.choice(["C","F"]); rev=bool(rng.integers(2))
    base=fm.UniformGrid(dims, order=order, axes_reversed=rev, data_location=[Location.CELLS,Location.POINTS][rng.integers(2)])
    smask=None
    if kind=="unstruct": gs=base.to_unstructured()
    elif kind=="points": gs=fm.UnstructuredPoints(rng.integers(0,8,size=(int(np.prod(dims)),d)).astype(float)/2, order=order)
    else:
        gs=base; smask=rng.random(gs.data_shape)<0.2
        if smask.sum()==0: smask.flat[0]=True
    dims2=tuple(int(x) for x in rng.integers(2,5,size=d))
    gd=fm.UniformGrid(dims2, spacing=(0.75,)*d, origin=tuple(rng.integers(-1,2,size=d)*0.5), order=rng.choice(["C","F"]), axes_reversed=bool(rng.integers(2)), data_location=[Location.CELLS,Location.POINTS][rng.integers(2)])
    fill=bool(rng.integers(2))
    dmask=None  # determined / flex
    try: r=run(gs,gd,smask,dmask,fill)
    except Exception as e: r="EXC "+type(e).__name__+" "+str(e)[:70]
    res[r.split(" at ")[0]]=res.get(r.split(" at ")[0],0)+1
    if not r.startswith(("OK","skip")) and res[r.split(" at ")[0]]<=3: print(r, kind, dims, dims2, order, rev, fill)
print(res)
