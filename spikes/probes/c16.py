import numpy as np, finam as fm, itertools, datetime as dt
from finam import Location
T0=dt.datetime(2000,1,1); D=dt.timedelta(days=1)
rng=np.random.default_rng(1)
def mkgrid(kind, dims, rng):
    d=len(dims)
    order=rng.choice(["C","F"]); rev=bool(rng.integers(2)); inc=tuple(bool(x) for x in rng.integers(2,size=d)); loc=[Location.CELLS,Location.POINTS][rng.integers(2)]
    if kind=="uniform":
        return fm.UniformGrid(dims, spacing=(1.0,1.5,2.0)[:d], origin=tuple(rng.integers(0,3,size=d)*0.25), order=order, axes_reversed=rev, axes_increase=inc, data_location=loc)
    if kind=="unstruct":
        g=fm.UniformGrid(dims, spacing=(1.0,1.5,2.0)[:d], order=order, axes_reversed=rev, axes_increase=inc, data_location=loc)
        return g.to_unstructured()
    if kind=="points":
        n=int(np.prod(dims)); return fm.UnstructuredPoints(rng.random((n,d))*4, order=order)
def run(gs, gd, smask, dmask, cls, **kw):
    log=[]
    vals=rng.random(gs.data_shape)
    data=np.ma.masked_array(vals, smask) if smask is not None else vals
    src=fm.components.CallbackGenerator({"Out": (lambda t: data.copy(), fm.Info(time=None, grid=gs, units="m", mask=(smask if smask is not None else fm.Mask.NONE)))}, start=T0, step=D).with_name("src")
    cons=fm.components.CallbackComponent(inputs={"In": fm.Info(time=None, grid=gd, units="m", mask=(dmask if dmask is not None else fm.Mask.FLEX))}, outputs={}, callback=lambda inp,t: log.append(inp["In"].magnitude) or {}, start=T0, step=D).with_name("cons")
    comp=fm.Composition([src,cons], print_log=False)
    src.outputs["Out"] >> cls(**kw) >> cons.inputs["In"]
    comp.run(end_time=T0+D)
    got=log[-1][0]
    # brute force
    sp=gs.data_points; dp=gd.data_points
    sv=vals.reshape(-1,order=gs.order); sm=(smask.reshape(-1,order=gs.order) if smask is not None else np.zeros(len(sp),bool))
    gv=np.ma.getdata(got).reshape(-1,order=gd.order); gm=np.ma.getmaskarray(got).reshape(-1,order=gd.order)
    dm=(dmask.reshape(-1,order=gd.order) if dmask is not None else np.zeros(len(dp),bool))
    if not np.array_equal(gm,dm): return "MASKDIFF"
    for j,p in enumerate(dp):
        if dm[j]: continue
        dist=np.sum((sp-p)**2,axis=1); dist[sm]=np.inf
        best=np.isclose(dist, dist.min())
        if not any(np.isclose(gv[j], sv[k]) for k in np.nonzero(best)[0]): return f"WRONG at {j}"
    return "OK"
res={}
for it in range(150):
    d=int(rng.integers(1,4)); dims=tuple(int(x) for x in rng.integers(2,5,size=d))
    ks=rng.choice(["uniform","unstruct","points"]); kd=rng.choice(["uniform","unstruct","points"])
    gs=mkgrid(ks,dims,rng); dims2=tuple(int(x) for x in rng.integers(2,5,size=d)); gd=mkgrid(kd,dims2,rng)
    smask=(rng.random(gs.data_shape)<0.3) if rng.random()<0.5 else None
    if smask is not None and smask.all(): smask[...]=False
    dmask=(rng.random(gd.data_shape)<0.3) if rng.random()<0.5 else None
    try:
        r=run(gs,gd,smask,dmask,fm.adapters.RegridNearest)
    except Exception as e:
        r="EXC "+type(e).__name__+" "+str(e)[:80]
    res[r]=res.get(r,0)+1
    if r!="OK" and res[r]<=3: print(r, ks, kd, dims, dims2, getattr(gs,'axes_reversed',None), gs.order, getattr(gd,'axes_reversed',None), gd.order, smask is not None, dmask is not None)
print(res)
