import datetime as dt, numpy as np, finam as fm, itertools, logging
T0=dt.datetime(2000,1,1); D=dt.timedelta(days=1)
def run(pgrid, punits, cons_specs, order, adapter=None):
    vals=lambda g: np.arange(int(np.prod(g.data_shape)),dtype=float).reshape(g.data_shape) if g is not None and not isinstance(g,fm.NoGrid) else 3.0
    state={}
    def gen(t):
        g=src.outputs["Out"].info.grid if src.outputs["Out"].has_info() and src.outputs["Out"]._output_info.grid is not None else None
        return vals(g) if g is not None else None
    src=fm.components.CallbackGenerator({"Out": (lambda t: vals(src.outputs["Out"]._output_info.grid), fm.Info(time=None, grid=pgrid, units=punits))}, start=T0, step=D).with_name("src")
    logs={}
    comps=[]
    for k,(g,u) in enumerate(cons_specs):
        logs[k]=[]
        comps.append(fm.components.CallbackComponent(inputs={"In": fm.Info(time=None, grid=g, units=u)}, outputs={}, callback=(lambda kk: lambda inp,t: (logs[kk].append(inp["In"]) if inp else None) or {})(k), start=T0, step=D, initial_pull=False).with_name(f"c{k}"))
    allc=[src]+comps
    comp=fm.Composition([allc[i] for i in order], print_log=False, log_level=logging.CRITICAL)
    for c in comps:
        o=src["Out"]
        if adapter: o=o>>adapter()
        o>>c["In"]
    try:
        comp.run(end_time=T0+D)
        return "ok", [(str(c.inputs["In"].info.grid), str(c.inputs["In"].info.units), tuple(logs[k][-1].shape)) for k,c in enumerate(comps)], str(src["Out"].info.grid)
    except Exception as e:
        return type(e).__name__, str(e).splitlines()[0][:80], None
g=fm.UniformGrid((3,4)); grev=fm.UniformGrid((3,4),axes_reversed=True); g2=fm.UniformGrid((4,5))
cases=[
 ("prod none; A g, B g2 (incompatible)", None,"m",[(g,"m"),(g2,"m")]),
 ("prod none; A g, B grev (compatible)", None,"m",[(g,"m"),(grev,"km")]),
 ("prod g; A none, B grev", g,"m",[(None,None),(grev,"mm")]),
 ("prod g; A none units s (incompatible)", g,"m",[(None,"s")]),
 ("prod units none; A m, B km", g,None,[(g,"m"),(g,"km")]),
 ("prod units none; A m, B s", g,None,[(g,"m"),(g,"s")]),
]
for name,pg,pu,cs in cases:
    outs=set()
    for order in itertools.permutations(range(len(cs)+1)):
        r=run(pg,pu,cs,list(order)); outs.add(str(r))
    print(name,"->",len(outs),"distinct outcomes over orders")
    for o in sorted(outs)[:3]: print("    ",o[:230])
