import numpy as np, finam as fm
from finam.data.tools import to_compressed, from_compressed, UNITS
mask=np.array([[True,False,False],[False,False,True]])
data=np.arange(6.).reshape(2,3)
for name,x,m in [("plain+mask",data,mask),("quant+mask",UNITS.Quantity(data,"m"),mask),("masked",np.ma.masked_array(data,mask),None),("quant masked",UNITS.Quantity(np.ma.masked_array(data,mask),"m"),None),("quant nomask no mask arg",UNITS.Quantity(data,"m"),None)]:
    for order in "CF":
        try:
            c=to_compressed(x,order=order,mask=m); r=from_compressed(c,(2,3),order=order,mask=mask)
            print(name,order,"->",c, "| back:", np.ma.getdata(getattr(r,'magnitude',r)).tolist(), type(r).__name__)
        except Exception as e: print(name,order,"EXC",type(e).__name__,e)
