import datetime as dt, numpy as np, finam as fm, logging
T0=dt.datetime(2000,1,1); D=dt.timedelta(days=1)
cnt={}
class CountScale(fm.adapters.Scale):
    def _finalize(self): cnt[id(self)]=cnt.get(id(self),0)+1
class CountLin(fm.adapters.LinearTime):
    def _finalize(self): cnt[id(self)]=cnt.get(id(self),0)+1
src=fm.components.CallbackGenerator({"Out": (lambda t: 1.0, fm.Info(time=None, grid=fm.NoGrid()))}, start=T0, step=D).with_name("src")
c1=fm.components.CallbackComponent(inputs={"A": fm.Info(time=None, grid=fm.NoGrid()),"B": fm.Info(time=None, grid=fm.NoGrid())}, outputs={}, callback=lambda inp,t: {}, start=T0, step=D).with_name("c1")
c2=fm.components.CallbackComponent(inputs={"A": fm.Info(time=None, grid=fm.NoGrid())}, outputs={}, callback=lambda inp,t: {}, start=T0, step=2*D).with_name("c2")
comp=fm.Composition([c1,src,c2], print_log=False, log_level=logging.CRITICAL)
shared=CountScale(2.0); a2=CountScale(1.0); a3=CountLin(); a4=CountScale(3.0)
n=src["Out"]>>shared
n>>a2>>c1["A"]; n>>a3>>c1["B"]; n>>a4>>c2["A"]
comp.run(end_time=T0+4*D)
print("finalize counts", sorted(cnt.values()), "expected 4 adapters once each")
print("status", src.status, c1.status, c2.status, "times", src.time, c1.time, c2.time)
