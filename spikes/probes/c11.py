import datetime as dt, numpy as np, finam as fm, random
from fractions import Fraction as F
from datetime import timedelta as td
T0=dt.datetime(2000,1,1); H=td(hours=1)
bad=0;n=0
for seed in range(400):
    rnd=random.Random(seed)
    kind=rnd.choice(["next","prev","lin","step"])
    stepv=rnd.choice([F(0),F(1),F(1,2),F(1,4),F(3,4),F(1,8)])
    ad={"next":fm.adapters.NextTime,"prev":fm.adapters.PreviousTime,"lin":fm.adapters.LinearTime}.get(kind)
    ad = ad() if ad else fm.adapters.StepTime(step=float(stepv))
    out=fm.Output(name="o", info=fm.Info(time=T0, grid=fm.NoGrid()))
    i=fm.Input(name="i", info=fm.Info(time=T0, grid=fm.NoGrid()))
    out>>ad>>i; i.ping(); i.exchange_info()
    hist=[(0,F(rnd.randint(0,9)))]; out.push_data(float(hist[0][1]),T0)
    last=0;t=0
    for k in range(40):
        if rnd.random()<0.45:
            t+=rnd.choice([1,2,3,4,8]); v=F(rnd.randint(0,9)); hist.append((t,v)); out.push_data(float(v),T0+t*H)
        else:
            rt=rnd.randint(last, hist[-1][0]+ (1 if rnd.random()<0.05 else 0))
            try:
                got=float(i.pull_data(T0+rt*H).magnitude.ravel()[0])
            except fm.errors.FinamTimeError:
                got="timeerr"
            n+=1
            if rt>hist[-1][0]: exp="timeerr"
            else:
                last=rt
                le=[e for e in hist if e[0]<=rt][-1]; ge=[e for e in hist if e[0]>=rt][0]
                if le[0]==ge[0]: exp=le[1]
                elif kind=="next": exp=ge[1]
                elif kind=="prev": exp=le[1]
                elif kind=="lin": exp=le[1]+F(rt-le[0],ge[0]-le[0])*(ge[1]-le[1])
                else: exp= ge[1] if F(rt-le[0],ge[0]-le[0])>stepv else le[1]
                exp=float(exp)
            if got!=exp and not (isinstance(exp,float) and isinstance(got,float) and abs(got-exp)<1e-12):
                bad+=1; print("MISMATCH",seed,kind,stepv,"rt",rt,"got",got,"exp",exp,hist[-4:]); break
print("pulls",n,"bad",bad)
