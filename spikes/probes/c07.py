import datetime as dt, numpy as np, finam as fm, itertools, logging
T0=dt.datetime(2000,1,1); D=dt.timedelta(days=1)
G=lambda **kw: fm.UniformGrid((3,4), **kw)
grids={"none":None, "g":G(), "g_rev":G(axes_reversed=True), "g_other":fm.UniformGrid((4,5)), "nogrid":fm.NoGrid()}
units={"none":None,"m":"m","km":"km","s":"s"}
m1=np.zeros((2,3),bool); m1[0,0]=True
m2=np.zeros((2,3),bool); m2[1,1]=True
masks={"flex":fm.Mask.FLEX,"nomask":fm.Mask.NONE,"m1":m1,"m2":m2}
def shape_ok(mask, grid):
    return mask is fm.Mask.FLEX or mask is fm.Mask.NONE or (grid is not None and hasattr(grid,"data_shape") and tuple(grid.data_shape)==mask.shape) or grid is None
res={}
rows=[]
for (pg,pu,pm,cg,cu,cm) in itertools.product(grids,units,masks,grids,units,masks):
    g1=grids[pg]; g2=grids[cg]
    mm1=masks[pm]; mm2=masks[cm]
    if isinstance(mm1,np.ndarray) and not (g1 is None or (hasattr(g1,"data_shape") and tuple(g1.data_shape)==mm1.shape)): continue
    if isinstance(mm2,np.ndarray) and not (g2 is None or (hasattr(g2,"data_shape") and tuple(g2.data_shape)==mm2.shape)): continue
    if isinstance(mm2,np.ndarray) and cg=="g_rev": mm2=mm2.T
    if isinstance(mm1,np.ndarray) and pg=="g_rev": mm1=mm1.T
    try:
        pinfo=fm.Info(time=None, grid=g1, units=units[pu], mask=mm1); cinfo=fm.Info(time=None, grid=g2, units=units[cu], mask=mm2)
    except Exception as e:
        continue
    shape=(1,) if g1 is None or not hasattr(g1,"data_shape") or isinstance(g1,fm.NoGrid) else g1.data_shape
    src=fm.components.CallbackGenerator({"Out": (lambda t: np.zeros(shape), pinfo)}, start=T0, step=D).with_name("src")
    cons=fm.components.CallbackComponent(inputs={"In": cinfo}, outputs={}, callback=lambda inp,t: {}, start=T0, step=D, initial_pull=False).with_name("cons")
    comp=fm.Composition([src,cons], print_log=False, log_level=logging.CRITICAL)
    src["Out"]>>cons["In"]
    try:
        comp.connect(); got="ok"
        ii=cons.inputs["In"].info; oi=src.outputs["Out"].info
        detail=(ii.grid is not None, ii.units is not None, ii.time is not None)
    except fm.FinamMetaDataError: got="meta"; detail=None
    except fm.FinamCircularCouplingError: got="circ"; detail=None
    except Exception as e: got="EXC "+type(e).__name__; detail=str(e)[:60]
    # spec
    ge = g1 if g1 is not None else g2; ue = units[pu] if units[pu] is not None else units[cu]
    exp="ok"
    if g1 is None and g2 is None: exp="meta"
    elif g1 is not None and g2 is not None and not g1.compatible_with(g2): exp="meta"
    if units[pu] is None and units[cu] is None: exp="meta?"   # units can't be filled
    elif units[pu] is not None and units[cu] is not None and not fm.data.tools.compatible_units(units[pu],units[cu]): exp="meta"
    # mask: consumer flex any; consumer nomask only nomask; consumer explicit only equal
    if cm=="nomask" and pm!="nomask": exp="meta"
    if cm in("m1","m2") and pm!=cm: exp="meta"
    rows.append(((pg,pu,pm,cg,cu,cm),got,exp,detail))
    key=(got,exp); res[key]=res.get(key,0)+1
for k,v in sorted(res.items(), key=str): print(k,v)
shown=0
for r in rows:
    if (r[1],r[2]) in (("meta","ok"),("ok","meta")):
        if shown<90: print(r); shown+=1
