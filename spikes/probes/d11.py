import datetime as dt, numpy as np, finam as fm, sys, logging
from functools import partial
T0=dt.datetime(2000,1,1); D=dt.timedelta(days=1)
class Pull(fm.Component):
    def _initialize(self):
        self.inputs.add(name="In", time=T0, grid=fm.NoGrid(), units="")
        self.outputs.add(fm.CallbackOutput(callback=self._get, name="Out", time=T0, grid=fm.NoGrid(), units=""))
        self.create_connector()
    def _connect(self, st): self.try_connect(st)
    def _validate(self): pass
    def _update(self): pass
    def _finalize(self): pass
    def _get(self, _c, time):
        try: return self.inputs["In"].pull_data(time)*1.0
        except fm.errors.FinamNoDataError: return None
C=fm.components.CallbackComponent(inputs={"In": fm.Info(time=None, grid=fm.NoGrid(), units="")}, outputs={"Out": fm.Info(time=None, grid=fm.NoGrid(), units="")}, callback=lambda inp,t: {"Out": 1.0}, start=T0, step=D, initial_pull=False).with_name("C")
P=Pull().with_name("P")
comp=fm.Composition([C,P], print_log=False, log_level=logging.CRITICAL)
C["Out"]>>P["In"]; P["Out"]>>C["In"]
try:
    comp.run(end_time=T0+3*D); print("OK")
except Exception as e: print("EXC", type(e).__name__, str(e)[:80])
