import datetime as dt, numpy as np, finam as fm, logging
T0=dt.datetime(2000,1,1); D=dt.timedelta(days=1)
# static output
out=fm.Output(name="o", info=fm.Info(time=None, grid=fm.NoGrid()), static=True)
i1=fm.Input(name="i1", info=fm.Info(time=None, grid=fm.NoGrid()), static=True)
i2=fm.Input(name="i2", info=fm.Info(time=None, grid=fm.NoGrid()), static=True)
out>>i1; out>>i2; i1.ping(); i2.ping(); i1.exchange_info(); i2.exchange_info()
try: out.get_data(None,i1); print("get before push ok?!")
except Exception as e: print("get before push:", type(e).__name__)
out.push_data(5.0, None)
print([float(i1.pull_data(t).magnitude.ravel()[0]) for t in (None, T0, T0+D)], [float(i2.pull_data(t).magnitude.ravel()[0]) for t in (T0+3*D, None)])
try: out.push_data(6.0,None); print("second push accepted!")
except Exception as e: print("second push:", type(e).__name__)
try: out.push_data(6.0,T0); print("second push with time accepted!")
except Exception as e: print("second push with time:", type(e).__name__)
print("after refused push:", float(i1.pull_data(T0).magnitude.ravel()[0]), float(out.get_data(T0,i1).magnitude.ravel()[0]), len(out.data))
# static input caches
calls=[]
og=out.get_data
out.get_data=lambda t,tg: (calls.append(t), og(t,tg))[1]
i3=fm.Input(name="i3", info=fm.Info(time=None, grid=fm.NoGrid()), static=True)
out2=fm.Output(name="o2", info=fm.Info(time=None, grid=fm.NoGrid()), static=True); out2>>i3; i3.ping(); i3.exchange_info(); out2.push_data(1.0,None)
og2=out2.get_data; out2.get_data=lambda t,tg: (calls.append(("o2",t)), og2(t,tg))[1]
for t in (None,T0,T0+D): i3.pull_data(t)
print("static input fetches:", calls)
# static output with first push time not None
out3=fm.Output(name="o3", info=fm.Info(time=None, grid=fm.NoGrid()), static=True); i4=fm.Input(name="i4", info=fm.Info(time=None, grid=fm.NoGrid()), static=True); out3>>i4; i4.ping(); i4.exchange_info()
out3.push_data(2.0, T0); print("static push with time stored as", out3.data[0][0], out3.time)
# CallbackOutput time passthrough
req=[]
co=fm.CallbackOutput(callback=lambda c,t: (req.append(t), float((t-T0)/D))[1], name="co", info=fm.Info(time=T0, grid=fm.NoGrid()))
i5=fm.Input(name="i5", info=fm.Info(time=T0, grid=fm.NoGrid())); co>>fm.adapters.Scale(2.0)>>i5; i5.ping(); i5.exchange_info()
print([float(i5.pull_data(T0+k*D).magnitude.ravel()[0]) for k in (0,3,3,1)], [ (t-T0).days for t in req])
