import datetime as dt, numpy as np, finam as fm, random
from fractions import Fraction as F
from datetime import timedelta as td
T0=dt.datetime(2000,1,1); H=td(hours=1)
def interp_lin(hist,t):
    for (a,va),(b,vb) in zip(hist,hist[1:]):
        if a<=t<=b: return va+F(t-a,b-a)*(vb-va)
def integ(hist, p0,p1, step):
    tot=F(0)
    for (a,va),(b,vb) in zip(hist,hist[1:]):
        lo=max(a,p0); hi=min(b,p1)
        if hi<=lo: continue
        if step is None:
            tot+= (interp_lin(hist,lo)+interp_lin(hist,hi))/2*(hi-lo)
        else:
            s=a+step*(b-a)
            tot+= va*max(F(0),min(hi,s)-lo) + vb*max(F(0),hi-max(lo,s))
    return tot
bad=0;n=0
for seed in range(200):
    rnd=random.Random(seed)
    step=rnd.choice([None,F(0),F(1),F(1,2),F(1,4),F(3,4)])
    cls=rnd.choice(["avg","sum","sumabs"])
    out=fm.Output(name="o", info=fm.Info(time=T0, grid=fm.NoGrid(), units="m/h" if cls!="sumabs" else "m"))
    if cls=="avg": ad=fm.adapters.AvgOverTime(step=None if step is None else float(step))
    elif cls=="sum": ad=fm.adapters.SumOverTime(step=None if step is None else float(step), per_time=True)
    else: ad=fm.adapters.SumOverTime(step=None if step is None else float(step), per_time=False)
    i=fm.Input(name="i", info=fm.Info(time=T0, grid=fm.NoGrid(), units=None))
    out>>ad>>i; i.ping(); i.exchange_info()
    hist=[(0,F(rnd.randint(0,8)))]; out.push_data(float(hist[0][1]),T0)
    i.pull_data(T0)
    prev=0; t=0
    for k in range(30):
        if rnd.random()<0.5 or hist[-1][0]<=prev:
            t+=rnd.choice([1,2,3,4,6]); v=F(rnd.randint(0,8)); hist.append((t,v)); out.push_data(float(v),T0+t*H)
        else:
            p1=rnd.randint(prev+1,hist[-1][0]) if hist[-1][0]>prev else prev
            if p1==prev: continue
            got=i.pull_data(T0+p1*H); n+=1
            I=integ(hist,prev,p1,step)
            if cls=="avg": exp=I/(p1-prev); g=got.to("m/h").magnitude.ravel()[0]
            elif cls=="sum": exp=I; g=got.to("m").magnitude.ravel()[0]
            else:
                # plain weighted: each interval contributes fraction-weighted values (not times duration)
                exp=F(0)
                for (a,va),(b,vb) in zip(hist,hist[1:]):
                    lo=max(a,prev); hi=min(b,p1)
                    if hi<=lo: continue
                    if step is None: exp+=(interp_lin(hist,lo)+interp_lin(hist,hi))/2*F(hi-lo,b-a)
                    else:
                        s=a+step*(b-a); exp+= (va*max(F(0),min(hi,s)-lo)+vb*max(F(0),hi-max(lo,s)))/(b-a)
                g=got.to("m").magnitude.ravel()[0]
            if abs(float(exp)-g)>1e-9*max(1,abs(g)):
                bad+=1; print("MISMATCH",seed,cls,step,"prev",prev,"p1",p1,"got",g,"exp",float(exp),hist); break
            prev=p1
print("pulls",n,"bad",bad)
