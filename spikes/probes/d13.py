import datetime as dt, numpy as np, finam as fm, sys, logging
from functools import partial
T0=dt.datetime(2000,1,1); D=dt.timedelta(days=1)
class Pull(fm.Component):
    def _initialize(self):
        self.inputs.add(name="In", time=None, grid=fm.NoGrid(), units="")
        self.outputs.add(fm.CallbackOutput(callback=self._get, name="Out", time=T0, grid=fm.NoGrid(), units=""))
        self.create_connector(pull_data=["In"])
    def _connect(self, st): self.try_connect(st)
    def _validate(self): pass
    def _update(self): pass
    def _finalize(self): pass
    def _get(self, _c, time):
        try: return float(np.ravel(self.inputs["In"].pull_data(time).magnitude)[0])
        except fm.errors.FinamNoDataError: return None
def cons(name, step, log):
    return fm.components.CallbackComponent(inputs={"In": fm.Info(time=None, grid=fm.NoGrid(), units="")}, outputs={}, callback=lambda inp,t: log.append((name,(t-T0).days, float(np.ravel(inp["In"].magnitude)[0]))) or {}, start=T0, step=step*D).with_name(name)
S=fm.components.CallbackGenerator({"Out": (lambda t: (t-T0)/D, fm.Info(time=None, grid=fm.NoGrid(), units=""))}, start=T0, step=D).with_name("S")
P=Pull().with_name("P"); log=[]
C1=cons("C1",1,log); C2=cons("C2",5,log)
comp=fm.Composition([S,P,C1,C2], print_log=False, log_level=logging.CRITICAL)
S["Out"]>>P["In"]; P["Out"]>>C1["In"]; P["Out"]>>C2["In"]
try: comp.run(end_time=T0+10*D); print("OK",log)
except Exception as e: print("EXC",type(e).__name__,str(e)[:120]); print(log)
