import datetime as dt, numpy as np, finam as fm, sys
T0=dt.datetime(2000,1,1); D=dt.timedelta(days=1)
def run(chain_fn, sstep, cstep, days=12):
    log=[]; order=[]
    src=fm.components.CallbackGenerator({"Out": (lambda t: (t-T0)/D, fm.Info(time=None, grid=fm.NoGrid()))}, start=T0, step=sstep*D).with_name("src")
    cons=fm.components.CallbackComponent(inputs={"In": fm.Info(time=None, grid=fm.NoGrid())}, outputs={}, callback=lambda inp,t: log.append(((t-T0)/D, float(inp["In"].magnitude.ravel()[0]))) or {}, start=T0, step=cstep*D).with_name("cons")
    comp=fm.Composition([src,cons], print_log=False)
    chain_fn(src.outputs["Out"]) >> cons.inputs["In"]
    try:
        comp.run(end_time=T0+days*D)
        print("  OK", log)
    except Exception as e:
        print("  EXC", type(e).__name__, str(e)[:160]); print("   partial", log)
print("DelayFixed(3) >> LinearTime, src step1, cons step 5")
run(lambda o: o >> fm.adapters.DelayFixed(3*D) >> fm.adapters.LinearTime(), 1, 5)
print("LinearTime >> DelayFixed(3), src step1, cons step 5")
run(lambda o: o >> fm.adapters.LinearTime() >> fm.adapters.DelayFixed(3*D), 1, 5)
print("DelayFixed(3), src step 2, cons step 5 (direct, nearest)")
run(lambda o: o >> fm.adapters.DelayFixed(3*D), 2, 5)
