import numpy as np, finam as fm, itertools, random
from finam.data.tools import units as U
from finam.data.tools.units import compatible_units, equivalent_units, UNITS
cat=["m","km","mm","cm","m**2","km**2","ha","L","m**3","s","min","h","d","year","m/s","km/h","mm/d","mm/h","m s-1","kg","g","t","kg m-2","kg/m**2","kg m-2 s-1","mm s-1","N","Pa","hPa","bar","J","W","W m-2","K","degC","degF","delta_degC","%","1","","percent","mol","mol/L","L/m**2","m3 s-1","L/s"]
dims={}
for u in cat:
    q=UNITS.Quantity(1.0,u); dims[u]=dict(q.dimensionality)
bad=0
pairs=list(itertools.product(cat,cat))
for trial in range(3):
    random.Random(trial).shuffle(pairs)
    U.clear_units_cache() if trial%2==0 else None
    for a,b in pairs:
        c=compatible_units(a,b); e=equivalent_units(a,b)
        expc = dims[a]==dims[b]
        try:
            one=(1.0*UNITS.Unit(a)).to(UNITS.Unit(b)).magnitude; expe=bool(np.isclose(one,1.0))
        except Exception: expe=False
        if c!=expc or bool(e)!=expe:
            bad+=1
            if bad<10: print("MISMATCH",repr(a),repr(b),c,expc,e,expe)
print("pairs",len(pairs),"bad",bad)
# near-equivalence tolerance
print("isclose tolerance example: ", equivalent_units("year","365.2425 d") if False else None)
for a,b in [("survey_foot","foot"),("year","365.25 d".split()[1]),("cal","J")]:
    try: print(a,b,compatible_units(a,b),equivalent_units(a,b),(1.0*UNITS.Unit(a)).to(b).magnitude)
    except Exception as ex: print(a,b,"exc",ex)
