import datetime as dt, numpy as np, finam as fm, itertools
from finam.data.tools import UNITS
T0=dt.datetime(2000,1,1); D=dt.timedelta(days=1)
bad=0;n=0
def link(ginfo, cinfo):
    out=fm.Output(name="o", info=ginfo); i=fm.Input(name="i", info=cinfo); out>>i; i.ping(); i.exchange_info(); return out,i
for gname,grid in [("nogrid",fm.NoGrid()),("nogrid1",fm.NoGrid(1)),("uni",fm.UniformGrid((3,4))),("uniC",fm.UniformGrid((3,4),order="C")),("unirev",fm.UniformGrid((3,4),axes_reversed=True)),("uns",fm.UniformGrid((3,4)).to_unstructured()),("pts",fm.UnstructuredPoints(np.random.default_rng(0).random((5,2))))]:
    shape=tuple(grid.data_shape) if not isinstance(grid,fm.NoGrid) else (() if grid.dim==0 else (4,))
    size=int(np.prod(shape)) if shape else 1
    base=np.arange(size,dtype=float).reshape(shape) if shape else np.float64(7.0)
    order=getattr(grid,"order","C")
    forms={"shaped":base, "shaped+time":np.asarray(base)[np.newaxis,...], "list":np.asarray(base).tolist(), "quant km": UNITS.Quantity(np.asarray(base)/1000.0,"km"), "masked": np.ma.masked_array(np.asarray(base), np.zeros(np.shape(base),bool))}
    if shape and len(shape)>1: forms["flat"]=np.asarray(base).reshape(-1,order=order)
    for fname,payload in forms.items():
        for cunits in ("m","mm"):
            out,i=link(fm.Info(time=T0,grid=grid,units="m"), fm.Info(time=T0,grid=None,units=cunits))
            try:
                out.push_data(payload,T0); got=i.pull_data(T0); n+=1
                exp=np.asarray(base)*(1000.0 if cunits=="mm" else 1.0)
                ok= got.shape==(1,)+tuple(shape) and got.units==UNITS.Unit(cunits) and np.allclose(np.ma.getdata(got.magnitude)[0],exp)
                if not ok: bad+=1; print("BAD",gname,fname,cunits,got.shape,got.units, np.ma.getdata(got.magnitude)[0].tolist()[:3], exp.tolist()[:3] if shape else exp)
            except Exception as e:
                bad+=1; print("EXC",gname,fname,cunits,type(e).__name__,str(e)[:80])
    # shared memory refusal
    out,i=link(fm.Info(time=T0,grid=grid,units="m"), fm.Info(time=T0,grid=None,units="m"))
    arr=np.asarray(base,dtype=float).copy().reshape(shape if shape else ())
    out.push_data(arr,T0)
    try: out.push_data(arr,T0+D); print("shared accepted!",gname); bad+=1
    except fm.errors.FinamDataError: pass
    try: out.push_data(arr.copy(),T0+D)
    except Exception as e: print("copy refused",gname,e); bad+=1
print("n",n,"bad",bad)
