import datetime as dt, numpy as np, finam as fm
from finam.data.tools.mask import masks_equal, masks_compatible
from finam import Location
# D4
g=fm.UniformGrid((3,4))
print("cells shape", g.data_shape, g.data_size)
g.data_location=Location.POINTS
print("after set POINTS: data_shape", g.data_shape, "size", g.data_size, "points", g.data_points.shape)
g2=fm.UniformGrid((3,4)); g2.data_location=Location.POINTS; print("fresh", g2.data_shape)
# D6
m1=np.array([[True,False],[False,False]]); m2=np.array([[False,False],[False,True]])
print("masks_equal no grid:", masks_equal(m1,m2), " with grids:", masks_equal(m1,m2,fm.UniformGrid((3,3)),fm.UniformGrid((3,3))))
i1=fm.Info(time=None, grid=fm.UniformGrid((3,3)), mask=m1); i2=fm.Info(time=None, grid=fm.UniformGrid((3,3)), mask=m2)
f={}; print("accepts differing masks:", i1.accepts(i2,f), f.keys())
i3=fm.Info(time=None, grid=None, mask=m2)
f={}; print("accepts differing masks, incoming grid None (downstream):", i1.accepts(i3,f,incoming_donwstream=True), f.keys())
print("different shape:", masks_equal(np.zeros((2,3),bool)|m1[:1,:1], np.ones((3,2),bool)))
