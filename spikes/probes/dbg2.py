import sys, random
import sched_probe as sp
import finam as fm
seed=int(sys.argv[1]); kinds=sys.argv[2].split(",")
spec=sp.gen(seed,kinds)
print("comps",spec[0]); print("links",spec[1]); print("end",spec[2])
for a,b,ch in spec[1]:
    for k,s in ch:
        ad=sp.mk_ad(k, random.Random(s))
        if k in("dpull","dfix"): print(k, getattr(ad,"steps",None), getattr(ad,"additional_delay",None), getattr(ad,"delay",None))
# trace get_data on AvgOverTime
orig=fm.adapters.AvgOverTime._get_data
def tr(self,time,target):
    print("  avg request", time, "prev", self._prev_time, "buf", [t for t,_ in self.data]); return orig(self,time,target)
fm.adapters.AvgOverTime._get_data=tr
r=sp.build_run(spec, list(range(len(spec[0]))))
print(r[0]); print(r[4][-6:])
