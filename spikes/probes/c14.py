import numpy as np, finam as fm, itertools
from finam import Location
bad=0; n=0
for dims in [(3,),(1,),(3,4),(1,4),(3,1),(2,3,4),(2,1,3),(1,1,2),(2,2,2)]:
  d=len(dims)
  for order in "CF":
    for rev in [False,True]:
      for inc in itertools.product([True,False],repeat=d):
        for loc in [Location.CELLS, Location.POINTS]:
          g=fm.UniformGrid(dims, spacing=(1.0,2.0,3.0)[:d], origin=(10.,20.,30.)[:d], order=order, axes_reversed=rev, axes_increase=inc, data_location=loc)
          n+=1
          shp=g.data_shape; pts=g.data_points; axes=g.data_axes
          # data axes per array axis: array axis k corresponds to spatial axis (d-1-k if rev else k)
          ok=True
          if int(np.prod(shp))!=len(pts): ok=False
          else:
            for idx in np.ndindex(*shp):
              flat=np.ravel_multi_index(idx, shp, order=order)
              coord_by_axes=[None]*d
              for k,i in enumerate(idx):
                  sp = d-1-k if rev else k
                  coord_by_axes[sp]=axes[k][i]
              if not np.allclose(pts[flat], coord_by_axes): ok=False; break
          # cells reference existing points & centers are mean of nodes
          cells=g.cells
          if cells.min()<0 or cells.max()>=g.point_count: ok=False
          cc=g.cell_centers
          mean=np.array([g.points[c].mean(axis=0) for c in cells])
          if mean.shape!=cc.shape or not np.allclose(mean,cc): ok=False
          # unstructured cast
          u=g.to_unstructured()
          if not (np.allclose(u.data_points, pts) and u.data_shape==(len(pts),)): ok=False
          if not ok:
            bad+=1
            if bad<15: print("BAD", dims, order, rev, inc, loc)
print(n, "configs", bad, "bad")
