import numpy as np, finam as fm, itertools
from finam import Location
def locset(g): return frozenset(map(tuple, np.round(g.data_points,9)))
grids=[]
for dims in [(3,),(4,),(3,4),(4,3),(3,3),(2,3,4),(2,2,2)]:
    d=len(dims)
    for rev in (False,True):
        for inc in itertools.product([True,False],repeat=d):
            for loc in (Location.CELLS,Location.POINTS):
                for order in "CF":
                    for sp in [(1.0,1.0,1.0),(1.0,2.0,1.0)]:
                        grids.append(fm.UniformGrid(dims, spacing=sp[:d], axes_reversed=rev, axes_increase=inc, data_location=loc, order=order))
grids.append(fm.EsriGrid(ncols=3,nrows=2)); grids.append(fm.EsriGrid(ncols=2,nrows=3)); grids.append(fm.EsriGrid(ncols=3,nrows=2).to_uniform())
grids.append(fm.RectilinearGrid([np.array([0.,1.,2.,3.]), np.array([0.,1.,2.])]))
grids.append(fm.RectilinearGrid([np.array([0.,1.,2.,3.]), np.array([0.,1.,2.])], data_location=Location.POINTS))
print(len(grids),"grids")
import random
rnd=random.Random(0)
bad={}
n=0
pairs=[(a,b) for a in grids for b in grids]
rnd.shuffle(pairs)
for a,b in pairs[:60000]:
    n+=1
    c=a.compatible_with(b)
    same = a.dim==b.dim and locset(a)==locset(b)
    if c!=same:
        key=(c,same); bad[key]=bad.get(key,0)+1
        if bad[key]<=4: print("compatible",c,"same-locations",same,a,a.axes_reversed,a.axes_increase,a.data_location.name,a.order,"|",b,b.axes_reversed,b.axes_increase,b.data_location.name,b.order)
print(n,bad)
