import datetime as dt, numpy as np, finam as fm, random, logging
from functools import partial
T0=dt.datetime(2000,1,1); D=dt.timedelta(days=1)
class NbAdapter(fm.Adapter, fm.NoBranchAdapter):
    def _get_data(self, time, target): return self.pull_data(time, target)
class Src(fm.TimeComponent):
    def __init__(self, kinds):  # kinds: list of "push"/"pull"/"static"
        super().__init__(); self.kinds=kinds; self._time=T0
    def _next_time(self): return self.time+D
    def _initialize(self):
        for k,kind in enumerate(self.kinds):
            if kind=="pull": self.outputs.add(fm.CallbackOutput(callback=lambda c,t: 1.0, name=f"o{k}", time=T0, grid=fm.NoGrid()))
            else: self.outputs.add(name=f"o{k}", time=T0, grid=fm.NoGrid(), static=(kind=="static"))
        self.create_connector()
    def _connect(self, st): self.try_connect(st, push_data={f"o{k}":1.0 for k,kind in enumerate(self.kinds) if kind!="pull"})
    def _validate(self): pass
    def _update(self): self._time+=D
    def _finalize(self): pass
class Dst(fm.TimeComponent):
    def __init__(self, kinds):  # "pull"/"push"/"static"
        super().__init__(); self.kinds=kinds; self._time=T0
    def _next_time(self): return self.time+D
    def _initialize(self):
        for k,kind in enumerate(self.kinds):
            if kind=="push": self.inputs.add(fm.CallbackInput(callback=lambda c,t: None, name=f"i{k}", time=T0, grid=fm.NoGrid()))
            else: self.inputs.add(name=f"i{k}", time=T0, grid=fm.NoGrid(), static=(kind=="static"))
        self.create_connector()
    def _connect(self, st): self.try_connect(st)
    def _validate(self): pass
    def _update(self): self._time+=D
    def _finalize(self): pass
ADS={"pass":lambda: fm.adapters.Scale(1.0), "cache":lambda: fm.adapters.LinearTime(), "nb":lambda: NbAdapter(), "dfix":lambda: fm.adapters.DelayFixed(D), "dpull": lambda: fm.adapters.DelayToPull(), "dpush": lambda: fm.adapters.DelayToPush()}
NOBRANCH={"cache","nb","dpull"}; NEEDPUSH={"cache"}
def spec(okind, tree_inputs):
    """tree_inputs: list of (chain kinds list from output to input, input kind, connected bool). returns expected error class or None"""
    pass
res={}
for seed in range(400):
    rnd=random.Random(seed)
    okind=rnd.choice(["push","pull","static"])
    src=Src([okind]).with_name("src")
    nin=rnd.randint(1,3)
    ikinds=[rnd.choice(["pull","pull","push","static"]) for _ in range(nin)]
    dst=Dst(ikinds).with_name("dst")
    comp=fm.Composition([src,dst], print_log=False, log_level=logging.CRITICAL)
    # build tree: shared prefix chain then branch
    prefix=[rnd.choice(list(ADS)) for _ in range(rnd.randint(0,2))]
    node=src.outputs["o0"]; 
    for a in prefix: node = node >> ADS[a]()
    chains=[]
    unconnected=set()
    for k in range(nin):
        if rnd.random()<0.1: unconnected.add(k); chains.append(None); continue
        suffix=[rnd.choice(list(ADS)) for _ in range(rnd.randint(0,2))]
        n2=node
        for a in suffix: n2 = n2 >> ADS[a]()
        n2 >> dst.inputs[f"i{k}"]
        chains.append(suffix)
    # spec
    exp=None
    conn=[k for k in range(nin) if k not in unconnected]
    # order of checks in code: per component: inputs (connected, dead link) then outputs (branching); src listed first -> branching of src outputs first.
    errs=set()
    if unconnected: errs.add("unconnected")
    for k in conn:
        full=prefix+chains[k]
        if ikinds[k]=="static" and okind!="static": errs.add("static")
        # dead link: pull-only source followed by needs_push element
        if okind=="pull" and (any(a in NEEDPUSH for a in full) or ikinds[k]=="push"): errs.add("dead")
    # branching: fan-out at or downstream of no-branch adapter: fan-out point is after prefix (node) if len(conn)>1
    if len(conn)>1 and any(a in NOBRANCH for a in prefix): errs.add("branch")
    try:
        comp._collect_adapters(); comp._validate_composition(); got=None
    except fm.FinamConnectError as e:
        m=str(e); got="unconnected" if "Unconnected" in m else "static" if "static" in m else "dead" if "Dead link" in m else "branch" if "branching" in m else "missing" if "not added" in m else m
    except Exception as e:
        got="EXC "+type(e).__name__+str(e)[:50]
    ok = (got is None and not errs) or (got in errs)
    key=("ok" if ok else "MISMATCH")
    res[key]=res.get(key,0)+1
    if not ok and res[key]<=8: print("MISMATCH seed",seed,"out",okind,"prefix",prefix,"chains",chains,"ikinds",ikinds,"expected",errs,"got",got)
print(res)
