import datetime as dt, numpy as np, finam as fm, random, logging, itertools, sys, signal
from datetime import timedelta as td
T0=dt.datetime(2000,1,1); H=td(hours=1)
class TC(fm.TimeComponent):
    """time component: inputs In0.., one output Out = own time (hours) + sum inputs*0 ; scripted steps"""
    def __init__(self, name, nin, steps, off, has_out, log):
        super().__init__(); self._name=name; self.nin=nin; self.steps=steps; self.k=0; self._time=T0+off*H; self.has_out=has_out; self.log=log; self.calls=[]
    def _step(self): return self.steps[self.k % len(self.steps)]*H
    def _next_time(self): return self.time+self._step()
    def _initialize(self):
        self.calls.append("init")
        for i in range(self.nin): self.inputs.add(name=f"In{i}", time=self.time, grid=fm.NoGrid(), units="")
        if self.has_out: self.outputs.add(name="Out", time=self.time, grid=fm.NoGrid(), units="")
        self.create_connector()
    def _connect(self, st):
        self.calls.append("connect")
        self.try_connect(st, push_data={"Out": float((self.time-T0)/H)} if self.has_out else {})
    def _validate(self): self.calls.append("validate")
    def _update(self):
        self.calls.append("update")
        nt=self.time+self._step(); self.k+=1
        self.log.append(("upd", self.name, (nt-T0)//H))
        vals=[]
        for i in range(self.nin):
            v=self.inputs[f"In{i}"].pull_data(nt); vals.append(float(np.ravel(v.magnitude)[0]))
        self._time=nt
        self.log.append(("got", self.name, (nt-T0)//H, tuple(round(x,9) for x in vals)))
        if self.has_out: self.outputs["Out"].push_data(float((nt-T0)/H), nt)
    def _finalize(self): self.calls.append("finalize")
def mk_ad(kind, rnd):
    if kind=="scale": return fm.adapters.Scale(1.0)
    if kind=="lin": return fm.adapters.LinearTime()
    if kind=="prev": return fm.adapters.PreviousTime()
    if kind=="avg": return fm.adapters.AvgOverTime()
    if kind=="dfix": return fm.adapters.DelayFixed(rnd.randint(0,6)*H)
    if kind=="dpull": return fm.adapters.DelayToPull(steps=rnd.randint(1,2), additional_delay=rnd.randint(0,2)*H)
    if kind=="dpush": return fm.adapters.DelayToPush()
def gen(seed, kinds):
    rnd=random.Random(seed)
    N=rnd.randint(2,4)
    comps=[]
    for a in range(N):
        comps.append(dict(name=f"C{a}", steps=[rnd.choice([1,2,3,4,5,6,8])]+([rnd.choice([1,2,3,5])] if rnd.random()<0.3 else []), off=0 if rnd.random()<0.7 else rnd.randint(1,3)))
    # DAG links a->b for a<b in a random order
    perm=list(range(N)); rnd.shuffle(perm)
    links=[]
    for bi in range(1,N):
        b=perm[bi]
        for _ in range(rnd.randint(1,2)):
            a=perm[rnd.randrange(bi)]
            chain=[rnd.choice(kinds) for _ in range(rnd.randint(0,2))]
            links.append((a,b,[(k,rnd.randint(0,10**6)) for k in chain]))
    return comps, links, rnd.randint(6,30)
def build_run(spec, order, timeout=10):
    comps, links, end = spec
    log=[]
    nin=[0]*len(comps)
    for a,b,ch in links: nin[b]+=1
    has_out=[any(a==i for a,_,_ in links) for i in range(len(comps))]
    objs=[TC(c["name"], nin[i], c["steps"], c["off"], has_out[i], log) for i,c in enumerate(comps)]
    comp=fm.Composition([objs[i] for i in order], print_log=False, log_level=logging.CRITICAL)
    cnt=[0]*len(comps)
    for a,b,ch in links:
        node=objs[a].outputs["Out"]
        for k,s in ch: node = node >> mk_ad(k, random.Random(s))
        node >> objs[b].inputs[f"In{cnt[b]}"]; cnt[b]+=1
    def handler(signum, frame): raise TimeoutError()
    signal.signal(signal.SIGALRM, handler); signal.alarm(timeout)
    try:
        comp.run(end_time=T0+end*H); out="ok"
    except TimeoutError: out="TIMEOUT"
    except Exception as e: out=type(e).__name__+": "+str(e).splitlines()[0][:70]
    finally: signal.alarm(0)
    final=[(o.name,(o.time-T0)//H) for o in objs]
    series={}
    for e in log:
        if e[0]=="got": series.setdefault(e[1],[]).append(e[2:])
    return out, final, series, [o.calls for o in objs], log
if __name__=="__main__":
    kinds=sys.argv[1].split(",")
    res={}
    for seed in range(int(sys.argv[2])):
        spec=gen(seed,kinds)
        N=len(spec[0])
        base=build_run(spec, list(range(N)))
        key=base[0].split(":")[0]
        res[key]=res.get(key,0)+1
        if base[0]!="ok":
            if res[key]<=3: print("seed",seed,base[0], spec[1])
            continue
        end=spec[2]
        # C03
        if any(t<end for _,t in base[1]): print("C03 final time < end", seed, base[1], end); res["c03"]=res.get("c03",0)+1
        for calls in base[3]:
            s="".join(c[0] for c in calls)
            import re
            if not re.fullmatch(r"ic+vu*f", s): print("C03 lifecycle", seed, s); res["c03l"]=res.get("c03l",0)+1
        # no update after all reached end
        times={c["name"]:c["off"] for c in spec[0]}
        for e in base[4]:
            if e[0]=="upd":
                if all(t>=end for t in times.values()): print("C03 update after all reached", seed, e); res["c03u"]=res.get("c03u",0)+1; break
                times[e[1]]=e[2]
        # C05
        for order in itertools.islice(itertools.permutations(range(N)),1,6):
            r=build_run(spec, list(order))
            if (r[0],r[1],r[2])!=(base[0],base[1],base[2]):
                res["c05"]=res.get("c05",0)+1
                if res["c05"]<=3: print("C05 differs seed",seed,order, r[0], r[1], base[1]); 
                break
    print(res)
