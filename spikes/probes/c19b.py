import datetime as dt, numpy as np, finam as fm, logging, random
T0=dt.datetime(2000,1,1); D=dt.timedelta(days=1)
bad=0
for seed in range(200):
    rnd=random.Random(seed)
    N=rnd.randint(2,4)
    log=[]
    comps=[]
    nin=[rnd.randint(0,2) for _ in range(N)]; nin[0]=0
    for a in range(N):
        comps.append(fm.components.CallbackComponent(inputs={f"In{k}": fm.Info(time=None, grid=fm.NoGrid()) for k in range(nin[a])}, outputs={"Out": fm.Info(time=None, grid=fm.NoGrid()), "Out2": fm.Info(time=None, grid=fm.NoGrid())}, callback=lambda inp,t: {"Out":1.0,"Out2":2.0}, start=T0+rnd.choice([0,0,1,2])*D, step=D, initial_pull=False).with_name(f"K{a}"))
    comp=fm.Composition(comps, print_log=False, log_level=logging.CRITICAL)
    created=set()
    adapters={}
    for b in range(N):
        for k in range(nin[b]):
            a=rnd.randrange(N)
            while a==b: a=rnd.randrange(N)
            oname=rnd.choice(["Out","Out2"])
            node=comps[a][oname]; prev=("comp",f"K{a}",oname)
            for _ in range(rnd.randint(0,2)):
                ad=fm.adapters.Scale(1.0).with_name(f"S{len(adapters)}"); adapters[id(ad)]=ad
                node=node>>ad; created.add((prev,("ada",ad.name))); prev=("ada",ad.name)
            node>>comps[b][f"In{k}"]; created.add((prev,("comp",f"K{b}",f"In{k}")))
    try:
        comp.connect()
    except Exception as e:
        print("connect EXC",seed,type(e).__name__,str(e)[:80]); bad+=1; continue
    md=comp.metadata
    got=set()
    for l in md["links"]:
        f=l["from"]; t=l["to"]
        fk=("comp",f["component"].split("@")[0],f["output"]) if "component" in f else ("ada",f["adapter"].split("@")[0])
        tk=("comp",t["component"].split("@")[0],t["input"]) if "component" in t else ("ada",t["adapter"].split("@")[0])
        got.add((fk,tk))
    if got!=created or len(md["links"])!=len(created):
        bad+=1; print("LINKS differ",seed,len(md["links"]),len(created), got^created)
    # initial data: each connected push output holds data for composition start and own start
    start=min(c.time for c in comps)
    for c in comps:
        for on,o in c.outputs.items():
            if o.has_targets:
                times=[t for t,_ in o.data]
                exp=[start] if c.time==start else [start,c.time]
                if times!=exp: bad+=1; print("INITIAL DATA",seed,c.name,on,times,exp)
print("bad",bad)
