import datetime as dt, numpy as np, finam as fm
T0=dt.datetime(2000,1,1); D=dt.timedelta(days=1)
def gen(name, f, units, step=D):
    return fm.components.CallbackGenerator({"Out": (f, fm.Info(time=None, grid=fm.NoGrid(), units=units))}, start=T0, step=step).with_name(name)
a=gen("a", lambda t:(t-T0).days*1.0, "m"); wa=gen("wa", lambda t:0.25, "")
b=gen("b", lambda t:(t-T0).days*2.0, "m", step=2*D); wb=gen("wb", lambda t:0.75, "")
ws=fm.components.WeightedSum(inputs=["A","B"])
calls=[]
log1=[];log2=[]
c1=fm.components.CallbackComponent(inputs={"In": fm.Info(time=None, grid=fm.NoGrid(), units=None)}, outputs={}, callback=lambda inp,t: log1.append((t.day, inp["In"])) or {}, start=T0, step=D).with_name("c1")
c2=fm.components.CallbackComponent(inputs={"In": fm.Info(time=None, grid=fm.NoGrid(), units=None)}, outputs={}, callback=lambda inp,t: log2.append((t.day, inp["In"])) or {}, start=T0, step=D).with_name("c2")
import sys
two = len(sys.argv)>1
comps=[a,wa,b,wb,ws,c1]+([c2] if two else [])
comp=fm.Composition(comps, print_log=False)
a["Out"]>>ws["A"]; wa["Out"]>>ws["A_weight"]; b["Out"]>>fm.adapters.LinearTime()>>ws["B"]; wb["Out"]>>fm.adapters.LinearTime()>>ws["B_weight"]
ws["WeightedSum"]>>c1["In"]
if two: ws["WeightedSum"]>>c2["In"]
try:
    comp.run(end_time=T0+4*D)
except Exception as e:
    print("EXC", type(e).__name__, e)
print(log1); print(log2)
