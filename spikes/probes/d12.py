import datetime as dt, numpy as np, finam as fm, os, shutil, logging
T0=dt.datetime(2000,1,1); D=dt.timedelta(days=1)
loc="/tmp/finam_spike_spill2"; shutil.rmtree(loc, ignore_errors=True)
grid=fm.UniformGrid((3,4))
mask=np.zeros((2,3),bool); mask[0,0]=True
for limit in (None,0):
    log=[]
    src=fm.components.CallbackGenerator({"Out": (lambda t: np.ma.masked_array(np.full((2,3),(t-T0).days*1.0), mask), fm.Info(time=None, grid=grid, units="m", mask=mask))}, start=T0, step=D).with_name("src")
    cons=fm.components.CallbackComponent(inputs={"In": fm.Info(time=None, grid=None, units=None)}, outputs={}, callback=lambda inp,t: log.append(inp["In"].magnitude.copy()) or {}, start=T0, step=D).with_name("cons")
    comp=fm.Composition([src,cons], print_log=False, log_level=logging.CRITICAL, slot_memory_limit=limit, slot_memory_location=loc)
    src["Out"]>>cons["In"]
    try:
        comp.run(end_time=T0+2*D)
        print(limit, [ (type(x).__name__, np.ma.getmaskarray(x)[0,0,0], float(np.ma.getdata(x)[0,1,1])) for x in log], os.listdir(loc) if os.path.isdir(loc) else None)
    except Exception as e: print(limit,"EXC",type(e).__name__,str(e)[:100])
