import numpy as np, finam as fm, random
from finam import Location
bad=0
for seed in range(300):
    rnd=random.Random(seed)
    d=rnd.randint(1,3); dims=tuple(rnd.randint(1,4) for _ in range(d))
    kind=rnd.choice(["uniform","rect","esri"])
    if kind=="uniform": g=fm.UniformGrid(dims, axes_reversed=rnd.random()<0.5, order=rnd.choice("CF"), data_location=rnd.choice(list(Location)))
    elif kind=="rect": g=fm.RectilinearGrid([np.cumsum([rnd.randint(1,3) for _ in range(n)]).astype(float) for n in dims], axes_reversed=rnd.random()<0.5, data_location=rnd.choice(list(Location)))
    else: g=fm.EsriGrid(ncols=rnd.randint(1,4), nrows=rnd.randint(1,4))
    grids=[g]
    for step in range(12):
        op=rnd.choice(["shape","size","setloc","copy","deepcopy","points","cast"])
        x=rnd.choice(grids)
        try:
            if op=="shape": _=x.data_shape
            elif op=="size": _=x.data_size
            elif op=="setloc":
                loc=rnd.choice(list(Location))
                if loc in x.valid_locations: x.data_location=loc
            elif op=="copy": grids.append(x.copy())
            elif op=="deepcopy": grids.append(x.copy(deep=True))
            elif op=="points": _=x.data_points
            elif op=="cast" and hasattr(x,"to_unstructured"): grids.append(x.to_unstructured())
        except Exception as e:
            print("EXC",seed,op,type(e).__name__,e); bad+=1; break
        # invariant check on all grids
        for y in grids:
            pts=y.data_points
            exp_n=len(pts)
            if int(np.prod(y.data_shape))!=exp_n or int(y.data_size)!=exp_n:
                bad+=1; print("STALE seed",seed,"after",op,type(y).__name__,y.data_location,y.data_shape,y.data_size,"points",exp_n); break
        else: continue
        break
print("bad",bad)
