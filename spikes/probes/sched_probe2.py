import datetime as dt, numpy as np, finam as fm, random, logging, itertools, sys, signal, re
from functools import partial
from datetime import timedelta as td
import sched_probe as sp
T0=sp.T0; H=sp.H
class PC(fm.Component):
    """pull-based: nin inputs, nout outputs; out_j(t) = sum(inputs(t)) + j"""
    def __init__(self, name, nin, nout, log):
        super().__init__(); self._name=name; self.nin=nin; self.nout=nout; self.log=log; self.calls=[]; self.ready=False
    def _initialize(self):
        self.calls.append("init")
        for i in range(self.nin): self.inputs.add(name=f"In{i}", time=None, grid=fm.NoGrid(), units="")
        for j in range(self.nout): self.outputs.add(fm.CallbackOutput(callback=partial(self._get, j), name=f"Out{j}", time=T0, grid=fm.NoGrid(), units=""))
        self.create_connector(pull_data=[f"In{i}" for i in range(self.nin)])
    def _connect(self, st):
        self.calls.append("connect"); self.try_connect(st)
        if self.connector.all_data_pulled: self.ready=True
    def _validate(self): self.calls.append("validate")
    def _update(self): self.calls.append("update")
    def _finalize(self): self.calls.append("finalize")
    def _get(self, j, _c, time):
        if not self.ready:
            try: vals=[self.inputs[f"In{i}"].pull_data(time) for i in range(self.nin)]
            except fm.errors.FinamNoDataError: return None
        else: vals=[self.inputs[f"In{i}"].pull_data(time) for i in range(self.nin)]
        self.log.append(("cb", self.name, j, (time-T0)//H))
        return sum(float(np.ravel(v.magnitude)[0]) for v in vals)+j
def gen(seed, kinds, cyc):
    rnd=random.Random(seed)
    N=rnd.randint(2,4)
    comps=[dict(name=f"C{a}", kind="time", steps=[rnd.choice([1,2,3,4,5,6,8])]+([rnd.choice([1,2,3,5])] if rnd.random()<0.3 else []), off=0 if rnd.random()<0.8 else rnd.randint(1,3)) for a in range(N)]
    perm=list(range(N)); rnd.shuffle(perm)
    links=[]  # (src comp, src out idx, dst comp, chain)
    def chain(): return [(rnd.choice(kinds),rnd.randint(0,10**6)) for _ in range(rnd.randint(0,2))]
    for bi in range(1,N):
        b=perm[bi]
        for _ in range(rnd.randint(1,2)):
            a=perm[rnd.randrange(bi)]
            links.append([a,0,b,chain()])
    # insert pull comps on some links
    npull=0
    for L in list(links):
        if rnd.random()<0.35:
            p=len(comps); nout=rnd.randint(1,2); comps.append(dict(name=f"P{npull}", kind="pull", nout=nout)); npull+=1
            a,ao,b,ch=L
            links.remove(L)
            links.append([a,ao,p,ch[:1]]); links.append([p,0,b,ch[1:]])
            if nout==2 and rnd.random()<0.7:
                # second output feeds another (or same) time consumer later in perm order than a
                cands=[perm[i] for i in range(1,N) if perm.index(perm[i])>perm.index(a) ] if a in perm else []
                if cands: links.append([p,1,rnd.choice(cands),chain()[:1]])
    if cyc and N>=2:
        # back edge from a late comp to an early comp with enough delay
        a=perm[-1]; b=perm[0]
        total=sum(max(c["steps"]) for c in comps if c["kind"]=="time")+rnd.randint(0,2)
        if rnd.random()<0.5: ch=[("dfixv",total)]
        else:
            k=rnd.randint(0,total); ch=[("dfixv",k),("dfixv",total-k)]
        if rnd.random()<0.3: ch.insert(rnd.randint(0,len(ch)),("scale",0))
        links.append([a,0,b,ch])
    return comps, links, rnd.randint(6,30)
def mk(k,s):
    if k=="dfixv": return fm.adapters.DelayFixed(s*H)
    return sp.mk_ad(k, random.Random(s))
def build_run(spec, order, timeout=10):
    comps, links, end = spec
    log=[]
    nin=[0]*len(comps)
    for a,ao,b,ch in links: nin[b]+=1
    objs=[]
    for i,c in enumerate(comps):
        if c["kind"]=="time":
            has_out=any(a==i for a,_,_,_ in links)
            objs.append(sp.TC(c["name"], nin[i], c["steps"], c["off"], has_out, log))
        else: objs.append(PC(c["name"], nin[i], c["nout"], log))
    comp=fm.Composition([objs[i] for i in order], print_log=False, log_level=logging.CRITICAL)
    cnt=[0]*len(comps)
    for a,ao,b,ch in links:
        node=objs[a].outputs["Out" if comps[a]["kind"]=="time" else f"Out{ao}"]
        for k,s in ch: node = node >> mk(k,s)
        node >> objs[b].inputs[f"In{cnt[b]}"]; cnt[b]+=1
    def handler(signum, frame): raise TimeoutError()
    signal.signal(signal.SIGALRM, handler); signal.alarm(timeout)
    try:
        comp.run(start_time=T0+min(c["off"] for c in comps if c["kind"]=="time")*H, end_time=T0+end*H); out="ok"
    except TimeoutError: out="TIMEOUT"
    except Exception as e: out=type(e).__name__+": "+str(e).splitlines()[0][:70]
    finally: signal.alarm(0)
    final=[(o.name,(o.time-T0)//H) for o in objs if isinstance(o,sp.TC)]
    series={}
    for e in log:
        if e[0]=="got": series.setdefault(e[1],[]).append(e[2:])
    return out, final, series, [o.calls for o in objs], log
if __name__=="__main__":
    kinds=sys.argv[1].split(","); cyc=sys.argv[3]=="cyc"
    res={}
    for seed in range(int(sys.argv[2])):
        spec=gen(seed,kinds,cyc)
        N=len(spec[0])
        base=build_run(spec, list(range(N)))
        key=base[0].split(":")[0]
        res[key]=res.get(key,0)+1
        if base[0]!="ok":
            if res[key]<=4: print("seed",seed,base[0], [c["name"]+str(c.get("steps",""))+"+"+str(c.get("off","")) for c in spec[0]], spec[1])
            continue
        end=spec[2]
        if any(t<end for _,t in base[1]): print("C03 final time < end", seed, base[1], end); res["c03"]=res.get("c03",0)+1
        for calls in base[3]:
            s="".join(c[0] for c in calls)
            if not re.fullmatch(r"ic+vu*f", s): print("C03 lifecycle", seed, s); res["c03l"]=res.get("c03l",0)+1
        for order in itertools.islice(itertools.permutations(range(N)),1,5):
            r=build_run(spec, list(order))
            if (r[0],r[1],r[2])!=(base[0],base[1],base[2]):
                res["c05"]=res.get("c05",0)+1
                if res["c05"]<=3: print("C05 differs seed",seed,order, r[0], r[1], base[1])
                break
    print(res)
