import datetime as dt, numpy as np, finam as fm, os, shutil, sys
T0=dt.datetime(2000,1,1); D=dt.timedelta(days=1)
def run(adapter_cls, limit, kw={}):
    loc="/tmp/finam_spike_spill"; shutil.rmtree(loc, ignore_errors=True)
    log=[]
    grid=fm.UniformGrid((3,4))
    src=fm.components.CallbackGenerator({"Out": (lambda t: np.full((2,3),(t-T0).days*1.0), fm.Info(time=None, grid=grid, units="m"))}, start=T0, step=D).with_name("src")
    cons=fm.components.CallbackComponent(inputs={"In": fm.Info(time=None, grid=None, units=None)}, outputs={}, callback=lambda inp,t: log.append((t, np.array(inp["In"].magnitude).ravel()[0])) or {}, start=T0, step=D/2).with_name("cons")
    comp=fm.Composition([src,cons], print_log=False, slot_memory_limit=limit, slot_memory_location=loc)
    ad=adapter_cls(**kw)
    src.outputs["Out"] >> ad >> cons.inputs["In"]
    try:
        comp.run(end_time=T0+3*D)
    except Exception as e:
        print("  EXC", type(e).__name__, str(e)[:150])
    print(adapter_cls.__name__, limit, [v for _,v in log], "files left:", os.listdir(loc))
for cls,kw in [(fm.adapters.LinearTime,{}),(fm.adapters.StepTime,{}),(fm.adapters.NextTime,{}),(fm.adapters.PreviousTime,{}),(fm.adapters.AvgOverTime,{}),(fm.adapters.SumOverTime,{}), (fm.adapters.StackTime,{})]:
    for limit in [None, 0]:
        run(cls, limit, kw)
