import datetime as dt, numpy as np, finam as fm, itertools
T0=dt.datetime(2000,1,1); D=dt.timedelta(days=1)
def run(gsrc, gdst):
    log=[]
    vals=np.arange(np.prod(gsrc.data_shape),dtype=float).reshape(gsrc.data_shape, order=gsrc.order)
    src=fm.components.CallbackGenerator({"Out": (lambda t: vals.copy(), fm.Info(time=None, grid=gsrc, units="m"))}, start=T0, step=D).with_name("src")
    cons=fm.components.CallbackComponent(inputs={"In": fm.Info(time=None, grid=gdst, units="m")}, outputs={}, callback=lambda inp,t: log.append(np.array(inp["In"].magnitude)) or {}, start=T0, step=D).with_name("cons")
    comp=fm.Composition([src,cons], print_log=False)
    src.outputs["Out"] >> cons.inputs["In"]
    try:
        comp.run(end_time=T0+1*D)
        got=log[-1]
        # location check: map value->coordinate
        ok = got.shape[1:]==tuple(gdst.data_shape)
        if ok:
            srcpts=gsrc.data_points; dstpts=gdst.data_points
            sflat=vals.reshape(-1, order=gsrc.order); dflat=got[0].reshape(-1, order=gdst.order)
            m={tuple(p):v for p,v in zip(map(tuple,srcpts), sflat)}
            ok=all(m[tuple(p)]==v for p,v in zip(map(tuple,dstpts), dflat))
        return "OK" if ok else "WRONG"
    except Exception as e:
        return "EXC "+type(e).__name__+": "+str(e)[:60]
for dims in [(3,4),(3,3),(2,3,4),(4,)]:
  for rs,rd in itertools.product([False,True],repeat=2):
    for incs in [None, tuple([False]+[True]*(len(dims)-1))]:
      gs=fm.UniformGrid(dims, axes_reversed=rs)
      gd=fm.UniformGrid(dims, axes_reversed=rd, axes_increase=incs)
      print(dims, "src rev",rs,"dst rev",rd,"dst inc",incs, "->", run(gs,gd))
