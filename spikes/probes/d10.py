import datetime as dt, numpy as np, finam as fm, logging
from datetime import timedelta as td
us=td(microseconds=1)
print("halfEven:", [(d, (d*us/2)//us) for d in (1,3,5,7,9)])
T0=dt.datetime(2000,1,1); D=td(days=1)
# output nearest with odd microsecond gap
out=fm.Output(name="o", info=fm.Info(time=T0, grid=fm.NoGrid()))
inp=fm.Input(name="i", info=fm.Info(time=T0, grid=fm.NoGrid()))
out>>inp; inp.ping(); inp.exchange_info()
out.push_data(0.0,T0); out.push_data(1.0,T0+5*us)
print("gap 5us:", [(k, float(inp.pull_data(T0+k*us).magnitude.ravel()[0])) for k in range(6)])
# split delay 2-cycle
def mk(name, step):
    return fm.components.CallbackComponent(inputs={"In": fm.Info(time=None, grid=fm.NoGrid())}, outputs={"Out": fm.Info(time=None, grid=fm.NoGrid())}, callback=lambda inp,t: {"Out": float(np.ravel(inp["In"].magnitude)[0])+1 if inp else 0.0}, start=T0, step=step*D, initial_pull=False).with_name(name)
for split in [(7,), (4,3), (3,4)]:
    A=mk("A",3); B=mk("B",4)
    comp=fm.Composition([A,B], print_log=False, log_level=logging.CRITICAL)
    A["Out"]>>B["In"]
    ch=B["Out"]
    for d in split: ch = ch >> fm.adapters.DelayFixed(d*D)
    ch >> A["In"]
    try:
        comp.run(end_time=T0+20*D); print("split",split,"OK", A.time, B.time)
    except Exception as e:
        print("split",split,"EXC", type(e).__name__, str(e).splitlines()[0][:100])
