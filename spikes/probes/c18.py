import numpy as np, finam as fm, itertools
from finam.data.tools import to_compressed, from_compressed, UNITS
rng=np.random.default_rng(0); bad=0;n=0
for shape in [(1,),(4,),(2,3),(3,1),(2,2,3),(1,2,1)]:
    size=int(np.prod(shape))
    for order in "CF":
        for trial in range(20):
            mask=rng.random(shape)<rng.choice([0,0.3,0.7,1.0])
            data=np.arange(size,dtype=float).reshape(shape)
            for quant in (False,True):
                for premasked in (False,True):
                    x=np.ma.masked_array(data.copy(),mask.copy()) if premasked else data.copy()
                    if quant and not premasked: continue
                    if quant: x=UNITS.Quantity(x,"m")
                    c=to_compressed(x, order=order, mask=None if premasked else mask)
                    r=from_compressed(c, shape, order=order, mask=mask)
                    n+=1
                    rm=r.magnitude if quant else r
                    ok = np.array_equal(np.ma.getmaskarray(rm), mask) and np.array_equal(np.ma.getdata(rm)[~mask], data[~mask]) and len(np.ravel(c.magnitude if quant else c))==int((~mask).sum())
                    # order check: compressed sequence equals ravel(order) filtered
                    exp=np.ravel(data,order)[~np.ravel(mask,order)]
                    ok = ok and np.array_equal(np.asarray(c.magnitude if quant else c), exp)
                    if not ok: bad+=1; print("BAD",shape,order,quant,premasked)
print("roundtrips",n,"bad",bad)
# canonical roundtrip
bad=0;n=0
for dims in [(3,),(3,4),(2,3,4),(1,3),(3,1,2)]:
    d=len(dims)
    for rev in (False,True):
        for inc in itertools.product([True,False],repeat=d):
            for loc in (fm.Location.CELLS, fm.Location.POINTS):
                g=fm.UniformGrid(dims, axes_reversed=rev, axes_increase=inc, data_location=loc)
                x=np.arange(int(np.prod(g.data_shape)),dtype=float).reshape(g.data_shape)
                c=g.to_canonical(x); b=g.from_canonical(c); n+=1
                ok=np.array_equal(b,x)
                # canonical is xyz increasing: value at canonical idx located at increasing axes coords
                axes=g.cell_axes if loc==fm.Location.CELLS else g.axes
                pts=g.data_points; flat=x.reshape(-1,order=g.order)
                m={tuple(np.round(p,9)):v for p,v in zip(pts,flat)}
                for idx in np.ndindex(*c.shape):
                    coord=tuple(np.round([axes[k][idx[k]] for k in range(d)],9))
                    if m[coord]!=c[idx]: ok=False;break
                if not ok: bad+=1; print("BAD canonical",dims,rev,inc,loc)
print("canonical",n,"bad",bad)
