import json, jsonschema
schema=json.load(open('/root/.vp/EVIDENCE.schema.json'))
ev={
 "property_id":"C09","tier":"quick","seed":17,"level":"proof",
 "coverage":{
   "obligations":7,"discharged":7,
   "checker_cmd":"cd lean && lake build FinamModel && lake env lean FinamModel/Audit.lean",
   "trusted_base":["Lean 4.33 kernel","axioms: propext, Quot.sound, Classical.choice","hand-written model Output.lean tied to sdk/output.py by the link correspondence","harness canonicaliser and tolerance 1e-9","CPython/numpy/pint"],
   "theorems":[{"name":"Props.C09.evict_refines_unbounded","axioms":["propext","Quot.sound"]}],
   "partial_theorems":[],
   "generated_obligations":["GeneratedObligations.push_based_registers_itself"],
   "evaluations":400,"distinct_nontrivial":371,
   "rule":"random interleavings of pushes (increasing) and per-end-point pulls (non-decreasing), 1-4 end points behind {direct, Scale, PreviousTime}; non-trivial = at least one eviction happened and two end points diverged; distinct by canonical JSON hash",
   "samples":[{"endpoints":["direct","prev"],"events":[["push",0],["pull",0,0],["push",4],["pull",1,4],["pull",0,3]]}],
   "distribution":{"endpoints":{"1":97,"2":102,"3":110,"4":91},"evictions":1873,"errors":{"timeErr":212}},
   "correspondence":{"cases":400,"divergences":0},"oracle":{"cases":400,"failures":0},
   "known_findings_printed":[],"exhaustive":False},
 "assumptions":["floating point rounding not modelled","request times per end point non-decreasing (property precondition)"],
 "wall_s":21.4,"violations":0}
jsonschema.validate(ev,schema); print("evidence example valid")
man=json.load(open('/root/.vp/MANIFEST.schema.json'))
m={"version":1,"setup_cmd":"./setup.sh","hooks":{"guard":"FINAM_VERIF","enable":"no source hooks are needed; harness subclasses and wraps public API","baseline_off_cmd":"cd /repo && /venv/bin/python -m pytest -ra -q -p no:cacheprovider --timeout=900 --continue-on-collection-errors","source_commits":[],"add_only":True},
   "engines":[{"name":"lean-model","path":"lean/","serves_properties":["C01"],"kind_free_text":"Lean 4 model + theorems"}],
   "checks":[{"property_id":"C09","quick_cmd":"./check C09 quick","thorough_cmd":"./check C09 thorough","evidence_file":"evidence/C09.json","replay_cmd_template":"./check C09 --replay {path}","engine":"lean-model","level_claimed":{"category":"proof","text":"...","design_ref":"DESIGN.md §5 C09"},"level_note":"...","technique":"refinement proof + correspondence"}],
   "not_applicable":[]}
jsonschema.validate(m,man); print("manifest example valid")
