import datetime as dt, numpy as np, finam as fm, random, logging, re, itertools
T0=dt.datetime(2000,1,1); D=dt.timedelta(days=1)
class Node(fm.TimeComponent):
    """inputs In0..; outputs Out0..; data for outputs produced when all `pull` inputs have data.
       out info: declared, or FromInput rule."""
    def __init__(self, nin, nout, pull, out_from_in, in_declared, start_off=0):
        super().__init__(); self.nin=nin; self.nout=nout; self.pull=pull; self.out_from_in=out_from_in; self.in_declared=in_declared
        self._time=T0+start_off*D; self.statuses=[]
    def _next_time(self): return self.time+D
    def _initialize(self):
        for k in range(self.nin):
            if self.in_declared[k]: self.inputs.add(name=f"In{k}", time=self.time, grid=fm.NoGrid(), units="m")
            else: self.inputs.add(name=f"In{k}", time=self.time, grid=None, units=None)
        rules={}
        for j in range(self.nout):
            src=self.out_from_in[j]
            if src is None: self.outputs.add(name=f"Out{j}", time=self.time, grid=fm.NoGrid(), units="m")
            else:
                self.outputs.add(name=f"Out{j}")
                rules[f"Out{j}"]=[fm.tools.FromInput(f"In{src}", ["grid","units"]), fm.tools.FromValue("time", self.time)]
        self.create_connector(pull_data=[f"In{k}" for k in self.pull], out_info_rules=rules)
    def _connect(self, st):
        push={}
        if self.connector.all_data_pulled:
            for j in range(self.nout):
                if self.connector.data_required.get(f"Out{j}", False): push[f"Out{j}"]=1.0
        self.try_connect(st, push_data=push)
        self.statuses.append(self.status.name)
    def _validate(self): pass
    def _update(self): self._time+=D
    def _finalize(self): pass
def fixpoint(nodes, links):
    # items: info(out), inInfo(in), outRead(out), data(out), inData(in)
    done=set()
    src_of={}; tg_of={}
    for (a,j),(b,k) in links: src_of[(b,k)]=(a,j); tg_of.setdefault((a,j),[]).append((b,k))
    changed=True
    while changed:
        changed=False
        def add(x):
            global _c
            if x not in done: done.add(x); return True
            return False
        for a,n in enumerate(nodes):
            for j in range(n.nout):
                s=n.out_from_in[j]
                if (s is None or ("inInfo",a,s) in done) and add(("info",a,j)): changed=True
                if ("info",a,j) in done and all(("inInfo",b,k) in done for (b,k) in tg_of.get((a,j),[])) and add(("outRead",a,j)): changed=True
                if ("outRead",a,j) in done and all(("inData",a,k) in done for k in n.pull) and add(("data",a,j)): changed=True
            for k in range(n.nin):
                s=src_of[(a,k)]
                if ("info",)+s in done and add(("inInfo",a,k)): changed=True
                if k in n.pull and ("inInfo",a,k) in done and ("data",)+s in done and add(("inData",a,k)): changed=True
    conn=[]
    for a,n in enumerate(nodes):
        ok=all(("inInfo",a,k) in done for k in range(n.nin)) and all(("inData",a,k) in done for k in n.pull) and all(("outRead",a,j) in done for j in range(n.nout)) and all(("data",a,j) in done for j in range(n.nout) if True)
        conn.append(ok)
    return conn
res={}
for seed in range(600):
    rnd=random.Random(seed)
    N=rnd.randint(2,5)
    nodes=[]
    for a in range(N):
        nin=rnd.randint(0,2); nout=rnd.randint(0,2)
        pull=[k for k in range(nin) if rnd.random()<0.6]
        ofi=[(rnd.randrange(nin) if nin and rnd.random()<0.4 else None) for _ in range(nout)]
        ind=[rnd.random()<0.5 for _ in range(nin)]
        nodes.append(Node(nin,nout,pull,ofi,ind).with_name(f"N{a}"))
    outs=[(a,j) for a,n in enumerate(nodes) for j in range(n.nout)]
    if not outs: continue
    links=[]
    for b,n in enumerate(nodes):
        for k in range(n.nin):
            links.append((rnd.choice(outs),(b,k)))
    order=list(range(N)); rnd.shuffle(order)
    comp=fm.Composition([nodes[a] for a in order], print_log=False, log_level=logging.CRITICAL)
    for (a,j),(b,k) in links: nodes[a].outputs[f"Out{j}"] >> nodes[b].inputs[f"In{k}"]
    exp=fixpoint(nodes,links)
    try:
        comp.connect(T0); got="ok"; stuck=[]
    except fm.FinamCircularCouplingError as e:
        got="circ"; m=re.search(r"\[(.*)\]", str(e)); stuck=sorted(m.group(1).split(", ")) if m else None
    except Exception as e:
        got="EXC "+type(e).__name__+": "+str(e)[:60]; stuck=None
    expstuck=sorted(f"N{a}" for a in range(N) if not exp[a])
    ok = (got=="ok" and not expstuck) or (got=="circ" and stuck==expstuck)
    key="ok" if ok else "MISMATCH"
    res[key]=res.get(key,0)+1; res[got[:4]]=res.get(got[:4],0)+1
    if not ok and res[key]<=6: print("MISMATCH seed",seed,"got",got,stuck,"exp stuck",expstuck)
print(res)
