import datetime as dt, numpy as np, finam as fm, logging
from finam.schedule import _find_dependencies
T0=dt.datetime(2000,1,1)
D=dt.timedelta(days=1)
def gen(step, name):
    return fm.components.CallbackGenerator({"Out": (lambda t: (t-T0).days*1.0, fm.Info(time=None, grid=fm.NoGrid()))}, start=T0, step=step).with_name(name)
log=[]
src=gen(D,"src")
cons=fm.components.CallbackComponent(inputs={"In": fm.Info(time=None, grid=fm.NoGrid())}, outputs={}, callback=lambda inp,t: log.append((t, float(inp["In"].magnitude.ravel()[0]))) or {}, start=T0, step=5*D).with_name("cons")
comp=fm.Composition([src,cons], print_log=False)
a1=fm.adapters.DelayFixed(2*D); a2=fm.adapters.DelayFixed(3*D)
# record actual request times at the source output
orig=src.outputs
comp_connected=False
src.outputs["Out"] >> a2 >> a1 >> cons.inputs["In"]
reqs=[]
out=src.outputs["Out"]
og=out.get_data
def gd(time,target):
    reqs.append(time); return og(time,target)
out.get_data=gd
comp.connect()
deps=_find_dependencies(cons, comp._output_owners, cons.next_time)
print("cons.next_time", cons.next_time, "deps assumed", [(o.name,v) for o,v in deps.items()])
ups=[]
ou=src.update
comp.run(end_time=T0+20*D)
print("actual requests at source:", reqs)
print(log)
