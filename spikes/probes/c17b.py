import datetime as dt, numpy as np, finam as fm
from fractions import Fraction as F
T0=dt.datetime(2000,1,1)
pairs=[("m","km",F(1,1000),0),("km","m",1000,0),("mm/d","m/s",F(1,1000*86400),0),("degC","K",1,F(27315,100)),("K","degC",1,-F(27315,100)),("degF","degC",F(5,9),-F(160,9)),("%","1",F(1,100),0),("1","%",100,0),("kg m-2 s-1","mm/d",None,None),("L/m**2","mm",1,0),("hPa","Pa",100,0),("m3 s-1","L/s",1000,0),("mm","millimeter",1,0),("m","s",None,None)]
for a,b,fac,off in pairs:
    out=fm.Output(name="o", info=fm.Info(time=T0, grid=fm.NoGrid(), units=a)); i=fm.Input(name="i", info=fm.Info(time=T0, grid=fm.NoGrid(), units=b)); out>>i; i.ping()
    try:
        i.exchange_info()
        out.push_data(np.array(12.5),T0); got=i.pull_data(T0)
        val=float(got.magnitude.ravel()[0])
        exp=float(F(25,2)*fac+off) if fac is not None else None
        print(a,"->",b,":",val, got.units, "expected",exp, "OK" if exp is not None and abs(val-exp)<=1e-9*max(1,abs(exp)) else "CHECK")
    except Exception as e: print(a,"->",b,": EXC",type(e).__name__, str(e).splitlines()[0][:60], "OK" if fac is None else "UNEXPECTED")
# publishing with foreign units
out=fm.Output(name="o", info=fm.Info(time=T0, grid=fm.NoGrid(), units="m")); i=fm.Input(name="i", info=fm.Info(time=T0, grid=fm.NoGrid(), units="cm")); out>>i; i.ping(); i.exchange_info()
out.push_data(fm.UNITS.Quantity(np.array(2.0),"km"),T0); print("publish km into m, read cm:", i.pull_data(T0))
try: out.push_data(fm.UNITS.Quantity(np.array(2.0),"s"),T0+dt.timedelta(1)); print("incompatible publish accepted!")
except Exception as e: print("incompatible publish:", type(e).__name__)
