import datetime as dt, numpy as np, finam as fm, sys
from functools import partial
T0=dt.datetime(2000,1,1); D=dt.timedelta(days=1)
class Pull(fm.Component):
    """pull-based pass-through with n inputs and m outputs: out_j(t) = sum(inputs at t) + j"""
    def __init__(self, nin, nout):
        super().__init__(); self.nin=nin; self.nout=nout; self.calls=[]
    def _initialize(self):
        for i in range(self.nin): self.inputs.add(name=f"In{i}", time=None, grid=fm.NoGrid(), units="")
        for j in range(self.nout):
            self.outputs.add(fm.CallbackOutput(callback=partial(self._get, j), name=f"Out{j}", time=T0, grid=fm.NoGrid(), units=""))
        self.create_connector(pull_data=list(self.inputs))
        self.ready=False
    def _connect(self, start_time):
        self.try_connect(start_time)
        if self.connector.all_data_pulled: self.ready=True
    def _validate(self): pass
    def _update(self): pass
    def _finalize(self): pass
    def _get(self, j, _caller, time):
        if self.nin and not self.ready and not self.connector.all_data_pulled:
            # during connect: need own inputs pulled first
            try:
                vals=[self.inputs[n].pull_data(time) for n in self.inputs]
            except fm.errors.FinamNoDataError:
                return None
        else:
            vals=[self.inputs[n].pull_data(time) for n in self.inputs]
        self.calls.append((j,time))
        return sum(float(v.magnitude.ravel()[0]) for v in vals)+j
def gen(name, step):
    return fm.components.CallbackGenerator({"Out": (lambda t: (t-T0)/D, fm.Info(time=None, grid=fm.NoGrid(), units=""))}, start=T0, step=step*D).with_name(name)
def consumer(names, step, log):
    return fm.components.CallbackComponent(inputs={n: fm.Info(time=None, grid=fm.NoGrid(), units="") for n in names}, outputs={}, callback=lambda inp,t: log.append(((t-T0)/D, {k: float(v.magnitude.ravel()[0]) for k,v in inp.items()})) or {}, start=T0, step=step*D).with_name("cons")
case=sys.argv[1]
log=[]
S=gen("S",1)
if case=="two_outputs":
    P=Pull(1,2).with_name("P"); C=consumer(["A","B"],2,log)
    comp=fm.Composition([S,P,C], print_log=False)
    S["Out"]>>P["In0"]; P["Out0"]>>C["A"]; P["Out1"]>>C["B"]
elif case=="diamond":
    P0=Pull(1,1).with_name("P0"); P1=Pull(1,1).with_name("P1"); P2=Pull(1,1).with_name("P2"); C=consumer(["A","B"],2,log)
    comp=fm.Composition([S,P0,P1,P2,C], print_log=False)
    S["Out"]>>P0["In0"]; P0["Out0"]>>P1["In0"]; P0["Out0"]>>P2["In0"]; P1["Out0"]>>C["A"]; P2["Out0"]>>C["B"]
elif case=="single":
    P=Pull(1,1).with_name("P"); C=consumer(["A"],2,log)
    comp=fm.Composition([S,P,C], print_log=False)
    S["Out"]>>P["In0"]; P["Out0"]>>C["A"]
try:
    comp.run(end_time=T0+6*D); print("OK", log)
except Exception as e:
    print("EXC", type(e).__name__, str(e)[:300]); print(log)
