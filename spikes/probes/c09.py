import datetime as dt, numpy as np, finam as fm, random
from datetime import timedelta as td
T0=dt.datetime(2000,1,1); H=td(hours=1)
def ref_nearest(hist,t):
    if not hist: return "nodata"
    if t<hist[0][0] or t>hist[-1][0]: return "timeerr"
    best=min(hist,key=lambda e:(abs(e[0]-t), -e[0]))  # tie -> later
    return best[1]
bad=0
for seed in range(300):
    rnd=random.Random(seed)
    ncons=rnd.randint(1,4)
    out=fm.Output(name="o", info=fm.Info(time=T0, grid=fm.NoGrid()))
    ins=[]
    for k in range(ncons):
        kind=rnd.choice(["direct","scale","prev"])
        i=fm.Input(name=f"i{k}", info=fm.Info(time=T0, grid=fm.NoGrid()))
        if kind=="direct": out>>i
        elif kind=="scale": out>>fm.adapters.Scale(1.0)>>i
        else: out>>fm.adapters.PreviousTime()>>i
        ins.append((kind,i))
    for _,i in ins: i.ping()
    for _,i in ins: i.exchange_info()
    hist=[]; t=0; last=[0]*ncons
    out.push_data(0.0,T0); hist.append((0,0.0)); v=0.0
    maxlen=0
    for step in range(60):
        if rnd.random()<0.45:
            t+=2*rnd.randint(1,5); v+=1; out.push_data(v,T0+t*H); hist.append((t,v))
        else:
            k=rnd.randrange(ncons); kind,i=ins[k]
            rt=rnd.randint(last[k], hist[-1][0]); last[k]=rt
            got=float(i.pull_data(T0+rt*H).magnitude.ravel()[0])
            if kind=="prev":
                exp=[e for e in hist if e[0]<=rt][-1][1]
            else: exp=ref_nearest(hist,rt)
            if got!=exp:
                bad+=1; print("MISMATCH seed",seed,"kind",kind,"rt",rt,"got",got,"exp",exp,"hist",hist[-5:]); break
        maxlen=max(maxlen,len(out.data))
print("bad",bad)
