import sys, traceback
import sched_probe as sp
seed=int(sys.argv[1]); kinds=sys.argv[2].split(",")
spec=sp.gen(seed,kinds)
print("comps",spec[0]); print("links",spec[1]); print("end",spec[2])
import finam as fm, logging
r=sp.build_run(spec, list(range(len(spec[0]))))
print(r[0]); print(r[4][-8:])
