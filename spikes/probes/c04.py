import datetime as dt, numpy as np, finam as fm, random, logging, signal
from datetime import timedelta as td
T0=dt.datetime(2000,1,1); H=td(hours=1)
def node(name, step, off, log):
    def cb(inp,t):
        v = float(np.ravel(inp["In"].magnitude)[0]) if inp else 0.0
        log.append((name,(t-T0)//H,v)); return {"Out": float((t-T0)/H)}
    return fm.components.CallbackComponent(inputs={"In": fm.Info(time=None, grid=fm.NoGrid(), units="")}, outputs={"Out": fm.Info(time=None, grid=fm.NoGrid(), units="")}, callback=cb, start=T0+off*H, step=step*H, initial_pull=False).with_name(name)
res={}
for seed in range(300):
    rnd=random.Random(seed)
    n=rnd.randint(2,5)
    steps=[rnd.choice([1,2,3,4,5,8]) for _ in range(n)]
    offs=[0]*n if rnd.random()<0.7 else [rnd.randint(0,2) for _ in range(n)]
    total=sum(steps)
    mode=rnd.choice(["enough_one","short","none","nodep"])
    log=[]
    comps=[node(f"R{i}",steps[i],offs[i],log) for i in range(n)]
    order=list(range(n)); rnd.shuffle(order)
    comp=fm.Composition([comps[i] for i in order], print_log=False, log_level=logging.CRITICAL)
    pos=rnd.randrange(n)
    for i in range(n):
        o=comps[i]["Out"]
        if i==pos:
            if mode=="enough_one": o = o >> fm.adapters.DelayFixed((total+rnd.randint(0,2))*H)
            elif mode=="short": o = o >> fm.adapters.DelayFixed(rnd.randint(0,max(0,min(steps)-1))*H)
            elif mode=="nodep": o = o >> fm.adapters.DelayToPush()
        if rnd.random()<0.3: o = o >> fm.adapters.Scale(1.0)
        o >> comps[(i+1)%n]["In"]
    def handler(s,f): raise TimeoutError()
    signal.signal(signal.SIGALRM, handler); signal.alarm(10)
    try:
        comp.run(end_time=T0+ (3*max(steps)+5)*H); got="ok"
    except TimeoutError: got="TIMEOUT"
    except RecursionError: got="RECURSION"
    except Exception as e: got=type(e).__name__
    finally: signal.alarm(0)
    exp = "ok" if mode in ("enough_one","nodep") else "FinamCircularCouplingError"
    key=(mode,got); res[key]=res.get(key,0)+1
    if got!=exp and res[key]<=3: print("seed",seed,mode,"got",got,"steps",steps,"offs",offs,"pos",pos)
for k,v in sorted(res.items()): print(k,v)
