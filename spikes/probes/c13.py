import datetime as dt, numpy as np, finam as fm, random
from datetime import timedelta as td
T0=dt.datetime(2000,1,1); H=td(hours=1)
bad=0;n=0
for seed in range(400):
    rnd=random.Random(seed)
    out=fm.Output(name="o", info=fm.Info(time=T0, grid=fm.NoGrid()))
    i=fm.Input(name="i", info=fm.Info(time=T0, grid=fm.NoGrid()))
    kind=rnd.choice(["fix","pull","push"])
    if kind=="fix": d=rnd.randint(0,9); ad=fm.adapters.DelayFixed(d*H)
    elif kind=="pull": steps=rnd.randint(1,3); add=rnd.randint(0,4); ad=fm.adapters.DelayToPull(steps=steps, additional_delay=add*H)
    else: ad=fm.adapters.DelayToPush()
    reqs=[]
    og=out.get_data
    def gd(time,target): reqs.append((time-T0)//H); return og(time,target)
    out.get_data=gd
    out>>ad>>i; i.ping(); i.exchange_info()
    out.push_data(0.0,T0); newest=0; t=0
    pulls=[]  # consumer request history
    last=0
    for k in range(30):
        if rnd.random()<0.5:
            t+=rnd.randint(1,4); out.push_data(float(t),T0+t*H); newest=t
        else:
            rt=last+rnd.randint(0,5); 
            if kind=="fix": exp=max(rt-d,0)
            elif kind=="pull":
                prev = pulls[-steps] if len(pulls)>=steps else 0
                exp=max(prev-add,0)
            else: exp=min(rt,newest)
            reqs.clear()
            try:
                i.pull_data(T0+rt*H); got=reqs[-1]
            except fm.errors.FinamTimeError: got="timeerr"
            n+=1
            if exp>newest: expv="timeerr"
            else: expv=exp
            if got!=expv: bad+=1; print("MISMATCH",seed,kind,"rt",rt,"got",got,"exp",expv,"pulls",pulls[-4:], getattr(ad,'steps',None), getattr(ad,'additional_delay',None)); break
            if got!="timeerr":
                pulls.append(rt); last=rt
            else:
                # failed pull: does adapter state change?  DelayToPull._pulled is after _get_data -> not recorded
                pass
print("pulls",n,"bad",bad)
