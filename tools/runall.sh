#!/bin/bash
# runs every registered check (tier $1, default quick) in parallel, prints one summary line per check
cd "$(dirname "$0")/.."
TIER=${1:-quick}
IDS=$(python3 -c "import json; print(' '.join(c['property_id'] for c in json.load(open('MANIFEST.json'))['checks']))")
mkdir -p .scratch/logs
for id in $IDS; do
  ( /usr/bin/time -f "%e s" ./check $id $TIER > .scratch/logs/$id.log 2>&1; echo "$id exit=$? $(tail -1 .scratch/logs/$id.log) $(grep -c VIOLATION .scratch/logs/$id.log) violations" ) &
  # limit parallelism
  while [ $(jobs -r | wc -l) -ge ${PAR:-6} ]; do sleep 0.5; done
done
wait
