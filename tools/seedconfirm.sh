#!/bin/bash
# usage: tools/seedconfirm.sh <seed id e.g. R4-C04a> ...
# Confirms kept seeded changes (seeded/<id>/{patch.diff,demo.py}) on a scratch copy of /repo's working tree (removed
# afterwards): the demo passes on the unchanged tree and fails with the change, and the repository suite gives the
# same numbers as the unchanged tree.  Result: .scratch/seedconf/<id>.json
mkdir -p /verif/.scratch/seedconf
one() {
  id=$1; W=/tmp/seedconf/$id; rm -rf $W; mkdir -p $W
  rsync -a --exclude .git --exclude .pytest_cache /repo/ $W/
  [ -f $W/src/finam/_version.py ] || echo "__version__ = '0.1.dev1'" > $W/src/finam/_version.py
  cp /verif/seeded/$id/demo.py $W/demo_seed.py
  (cd $W && PYTHONPATH=$W/src timeout 900 /venv/bin/python -W ignore demo_seed.py > $W/demo_clean.txt 2>&1; echo $? > $W/demo_clean.exit)
  (cd $W && patch -s -p1 < /verif/seeded/$id/patch.diff) || { echo "{\"id\": \"$id\", \"error\": \"patch failed\"}" > /verif/.scratch/seedconf/$id.json; rm -rf $W; return; }
  (cd $W && PYTHONPATH=$W/src timeout 900 /venv/bin/python -W ignore demo_seed.py > $W/demo_mut.txt 2>&1; echo $? > $W/demo_mut.exit)
  (cd $W && PYTHONPATH=$W/src timeout 2400 /venv/bin/python -m pytest -q -p no:cacheprovider --timeout=900 --continue-on-collection-errors > $W/tests.txt 2>&1)
  /venv/bin/python - $id $W <<'PY'
import json, sys
i, w = sys.argv[1:3]
rd = lambda f: open(w + "/" + f, errors="replace").read()
json.dump({"id": i, "demo_clean_exit": int(rd("demo_clean.exit")), "demo_mut_exit": int(rd("demo_mut.exit")),
           "demo_fail_tail": [l for l in rd("demo_mut.txt").splitlines() if l.strip()][-2:],
           "tests": rd("tests.txt").strip().splitlines()[-1]}, open("/verif/.scratch/seedconf/%s.json" % i, "w"), indent=1)
PY
  rm -rf $W
  echo "confirmed $id: $(tr -d '\n' < /verif/.scratch/seedconf/$id.json | cut -c1-300)"
}
for id in "$@"; do
  one $id &
  while [ $(jobs -r | wc -l) -ge ${PAR:-5} ]; do sleep 1; done
done
wait
