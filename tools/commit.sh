#!/bin/bash
# usage: tools/commit.sh "<message>" — regenerates the Lean sources from /repo (never commit what a seeded run left behind),
# builds, and commits /verif
cd "$(dirname "$0")/.."
unset FINAM_SRC
/venv/bin/python -W ignore -c "from harness import common; common.regenerate()" || exit 1
(cd lean && lake build 2>&1 | tail -1 | grep -q "Build completed successfully") || { echo "BUILD FAILED"; (cd lean && lake build 2>&1 | grep -E "^error|✖" | head); exit 1; }
python3 tools/evcheck.py || { echo "EVIDENCE NOT CLEAN: run tools/runall.sh quick first"; exit 1; }
git add -A && git commit -qm "$1" && git log --oneline | head -1
