#!/bin/bash
# usage: tools/seedkeep.sh <round prefix e.g. R3> <Cxx>  — copies a sub-agent's deliverables out of its scratch worktree
# (SEEDROOT/<Cxx>/out/{a,b}) into /verif/seeded/<prefix>-<Cxx>{a,b}/ at once, so that nothing lives only under /tmp
R=$1; ID=$2; WT=${SEEDROOT:-/tmp/seed3}/$ID
for v in a b; do
  [ -f $WT/out/$v/patch.diff ] || { echo "no $WT/out/$v/patch.diff"; continue; }
  D=/verif/seeded/$R-$ID$v; mkdir -p $D
  cp $WT/out/$v/patch.diff $WT/out/$v/demo.py $D/ 2>/dev/null
  cp $WT/out/$v/notes.md $D/ 2>/dev/null
  echo "kept $D"
done
