#!/bin/bash
# usage: tools/mut.sh "<sed expr>" <file relative to src/finam> <check ids...>
# runs the given checks against a scratch copy of /repo/src with the sed edit applied
export VERIF_EVIDENCE=${VERIF_EVIDENCE:-/verif/.scratch/evidence_seeded}; mkdir -p $VERIF_EVIDENCE/replays
set -e
D=$(mktemp -d /tmp/mut.XXXXXX)
cp -r /repo/src $D/src
sed -i "$1" $D/src/finam/$2
if diff -rq /repo/src/finam/$2 $D/src/finam/$2 >/dev/null; then echo "NO CHANGE"; rm -rf $D; exit 3; fi
shift 2
cd /verif
for c in "$@"; do FINAM_SRC=$D/src ./check $c quick 2>&1 | grep -v KNOWN-FINDING | grep -E "VIOLATION|^C[0-9]+ quick|MACHINERY|Error" | head -3; done
rm -rf $D
