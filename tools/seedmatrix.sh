#!/bin/bash
# usage: tools/seedmatrix.sh <out dir> <own|all> <seed ids...>
# runs the registered checks (all of them, or only the check of the seed's own property) of a snapshot of /verif
# (VERIF_DIR, built) against /repo/src + seeded/<id>/patch.diff; one summary file per seed in <out dir>
export VERIF_EVIDENCE=${VERIF_EVIDENCE:-/verif/.scratch/evidence_seeded}; mkdir -p $VERIF_EVIDENCE/replays
OUT=$1; MODE=$2; shift 2
SNAP=${VERIF_DIR:-/tmp/verif_snap}
mkdir -p $OUT
IDS=$(python3 -c "import json; print(' '.join(c['property_id'] for c in json.load(open('$SNAP/MANIFEST.json'))['checks']))")
for id in "$@"; do
  D=/tmp/seedsrc/$id; rm -rf $D; mkdir -p $D; cp -r /repo/src $D/src
  (cd $D && patch -s -p1 < /verif/seeded/$id/patch.diff) || { echo "$id PATCH FAILED" > $OUT/$id.txt; continue; }
  own=$(python3 -c "import json; print(json.load(open('/verif/seeded/$id/meta.json'))['property'])")
  : > $OUT/$id.txt
  for c in $( [ "$MODE" = own ] && echo $own || echo $IDS ); do
    ( cd $SNAP && FINAM_SRC=$D/src timeout 1200 ./check $c quick > $OUT/$id.$c.log 2>&1; echo "$c exit=$? $(grep -h VIOLATION $OUT/$id.$c.log | head -1)" >> $OUT/$id.txt ) &
    while [ $(jobs -r | wc -l) -ge ${PAR:-6} ]; do sleep 0.5; done
  done
  wait
  rm -rf $D
  echo "done $id"
done
(cd $SNAP && /venv/bin/python -W ignore -c "from harness import common; common.regenerate()")
