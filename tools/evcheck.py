"""every committed evidence file must be a record of a clean run: schema-valid, no violations, every obligation discharged"""
import glob, json, sys
bad = 0
for f in sorted(glob.glob(__file__.rsplit("/", 2)[0] + "/evidence/C*.json")):
    e = json.load(open(f))
    c = e["coverage"]
    if c["obligations"] != c["discharged"] or e["violations"] or c.get("broken_obligations"):
        print("evidence not from a clean run:", f, c["obligations"], c["discharged"], e["violations"])
        bad += 1
sys.exit(1 if bad else 0)
