#!/venv/bin/python
"""usage: tools/seedtasks.py <scratch root, e.g. /tmp/seed5>
Creates one scratch git worktree of /repo per property under <root>/<Cxx> with a TASK.md for a fresh sub-agent (property
text only, plus one-line descriptions of the changes of earlier rounds so that they are not repeated).  Remove the
worktrees afterwards with `git -C /repo worktree remove --force <dir>`."""
import glob, json, os, subprocess, sys

root = sys.argv[1]
T = open("/verif/tools/seedtask.template.md").read()
props = [json.loads(l) for l in open("/verif/properties.jsonl")]
os.makedirs(root, exist_ok=True)
for p in props:
    wt = f"{root}/{p['id']}"
    if not os.path.isdir(wt):
        subprocess.run(["git", "-C", "/repo", "worktree", "add", "-q", "--detach", wt, "HEAD"], check=True)
    if os.path.exists("/repo/src/finam/_version.py"):
        subprocess.run(["cp", "/repo/src/finam/_version.py", f"{wt}/src/finam/_version.py"])
    os.makedirs(f"{wt}/out/a", exist_ok=True)
    os.makedirs(f"{wt}/out/b", exist_ok=True)
    tried = []
    for m in sorted(glob.glob(f"/verif/seeded/*-{p['id']}*/meta.json")):
        d = json.load(open(m))
        tried.append(f"* {d.get('change', '')[:200]} ({', '.join(d.get('files_touched', []))})")
    q = p.get("quantifier", {})
    open(f"{wt}/TASK.md", "w").write(T.format(wt=wt, id=p["id"], title=p["title"], statement=p["statement"],
                                             quant=q.get("text", ""), why=p.get("why_tests_cant", ""),
                                             tried="\n".join(tried) or "(none)"))
print("ok")
