#!/bin/bash
# usage: tools/seedcheck.sh <Cxx> <a|b> [notests]
# Confirms a seeded change produced by a sub-agent (scratch worktree /tmp/seed/<Cxx>, deliverables in out/<a|b>):
#   demo passes on the clean tree and fails with the change; the repository suite still gives 284 passes;
#   then runs every registered check against the changed package (FINAM_SRC, /repo itself is untouched)
#   and prints which checks report a VIOLATION.
export VERIF_EVIDENCE=${VERIF_EVIDENCE:-/verif/.scratch/evidence_seeded}; mkdir -p $VERIF_EVIDENCE/replays
ID=$1; V=$2; WT=${SEEDROOT:-/tmp/seed}/$ID; OUT=$WT/out/$V
LOG=${SEEDLOGS:-/tmp/seedlogs}/$ID$V; mkdir -p $LOG
cd $WT || exit 2
git checkout -q -- src 2>/dev/null
[ -f src/finam/_version.py ] || echo "__version__ = '0.1.dev1'" > src/finam/_version.py
echo "== demo on clean tree"; (cd $OUT && PYTHONPATH=$WT/src timeout 600 /venv/bin/python -W ignore demo.py > $LOG/demo_clean.txt 2>&1; echo "exit=$?"; tail -2 $LOG/demo_clean.txt)
git apply $OUT/patch.diff || { echo "PATCH DOES NOT APPLY"; exit 2; }
git diff --stat | tail -1
echo "== demo with change"; (cd $OUT && PYTHONPATH=$WT/src timeout 600 /venv/bin/python -W ignore demo.py > $LOG/demo_mut.txt 2>&1; echo "exit=$?"; tail -2 $LOG/demo_mut.txt)
# scratch copy of the changed package for the checks (so the worktree can go back to clean for others)
rm -rf /tmp/seedsrc/$ID$V; mkdir -p /tmp/seedsrc/$ID$V; cp -r src /tmp/seedsrc/$ID$V/src
if [ "$3" != "notests" ]; then
  echo "== test suite with change"
  PYTHONPATH=$WT/src timeout 1800 /venv/bin/python -m pytest -q -p no:cacheprovider --timeout=900 --continue-on-collection-errors > $LOG/tests.txt 2>&1
  tail -1 $LOG/tests.txt
fi
git checkout -q -- src
echo "== checks"
cd ${VERIF_DIR:-/verif}
IDS=$(python3 -c "import json; print(' '.join(c['property_id'] for c in json.load(open('MANIFEST.json'))['checks']))")
for c in $IDS; do
  ( FINAM_SRC=/tmp/seedsrc/$ID$V/src timeout 900 ./check $c quick > $LOG/check_$c.txt 2>&1; echo "$c exit=$? $(grep -h VIOLATION $LOG/check_$c.txt | head -1)" ) &
  while [ $(jobs -r | wc -l) -ge ${PAR:-5} ]; do sleep 0.5; done
done
wait
rm -rf /tmp/seedsrc/$ID$V
