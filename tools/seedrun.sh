#!/bin/bash
# usage: tools/seedrun.sh <seed dir containing patch.diff> <check ids...>   — runs the checks against /repo/src + patch (scratch copy)
export VERIF_EVIDENCE=${VERIF_EVIDENCE:-/verif/.scratch/evidence_seeded}; mkdir -p $VERIF_EVIDENCE/replays
P=$(realpath $1)/patch.diff; shift
D=$(mktemp -d /tmp/seedrun.XXXXXX)
cp -r /repo/src $D/src
(cd $D && git init -q . 2>/dev/null; patch -s -p1 < $P) || { echo "patch failed"; rm -rf $D; exit 2; }
cd ${VERIF_DIR:-/verif}
for c in "$@"; do FINAM_SRC=$D/src ./check $c ${TIER:-quick} 2>&1 | grep -v KNOWN-FINDING | grep -E "VIOLATION|^C[0-9]+ (quick|thorough)|MACHINERY|Error" | head -3; done
rm -rf $D
# put the regenerated Lean sources back to what /repo says (the checks above regenerated them from the changed copy)
(cd ${VERIF_DIR:-/verif} && /venv/bin/python -W ignore -c "from harness import common; common.regenerate()")
