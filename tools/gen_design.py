"""Re-splices sections 11-15 of DESIGN.md from tools/design_sections_11_15.template.md and the seeded/*/meta.json files."""
import glob, json, os, re
V = os.path.dirname(os.path.dirname(os.path.abspath(__file__)))
p = os.path.join(V, "DESIGN.md")
s = open(p).read()
mark = "\n---------------------------------------------------------------------------\n\n## 11. As built"
if mark in s:
    s = s[:s.index(mark)]


def rows(pattern):
    out = []
    for d in sorted(glob.glob(os.path.join(V, "seeded", pattern, "meta.json"))):
        m = json.load(open(d))
        det = ", ".join(x.replace(" (no-failing-input-found)", "*") for x in m["detected_by"]) or "— (not detected)"
        t = re.sub(r'^(C\d\d\s*[/,-]?\s*)?(seeded )?(defect|change)\s*[AB]?\s*(\(C\d\d\))?\s*[:—-]*\s*', '', m["change"], flags=re.I).strip()
        out.append(f"| {m['id']} | {t[:120]} | {', '.join(os.path.basename(f) for f in m['files_touched'])} | {det} |")
    return "\n".join(out)


sec = open(os.path.join(V, "tools", "design_sections_11_15.template.md")).read()
sec = sec.replace("@@TABLE@@", rows("C[0-9][0-9][ab]"))
r2 = rows("R2-*")
r2txt = ""
if r2:
    r2txt = open(os.path.join(V, "tools", "design_round2.template.md")).read().replace("@@TABLE2@@", r2) if os.path.exists(os.path.join(V, "tools", "design_round2.template.md")) else ""
sec = sec.replace("@@ROUND2@@", r2txt)


def rows_round(prefix):
    out = []
    for d in sorted(glob.glob(os.path.join(V, "seeded", prefix + "-*", "meta.json"))):
        m = json.load(open(d))
        f = lambda xs: ", ".join(xs) or "— (not detected)"  # noqa
        t = re.sub(r'^(C\d\d\s*/\s*)?(change\s+)?[ABab]\s*[-—:]+\s*', '', m["change"]).strip()
        out.append(f"| {m['id']} | {t[:110]} | {', '.join(os.path.basename(x) for x in m['files_touched'])} | "
                   f"{f(m.get('detected_by_first_run', []))} | {f(m.get('detected_by', []))} |")
    return "\n".join(out)


for k in (3, 4, 5, 6, 7, 8, 9):
    rk = rows_round(f"R{k}")
    tp = os.path.join(V, "tools", f"design_round{k}.template.md")
    txt = open(tp).read().replace(f"@@TABLE{k}@@", rk) if rk and os.path.exists(tp) else ""
    sec = sec.replace(f"@@ROUND{k}@@", txt)
s16 = os.path.join(V, "tools", "design_section_16.template.md")
if os.path.exists(s16):
    sec = sec.rstrip() + "\n\n" + open(s16).read()
open(p, "w").write(s.rstrip() + "\n" + sec)
print("DESIGN.md:", len((s + sec).splitlines()), "lines")
