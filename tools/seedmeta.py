#!/venv/bin/python
"""usage: tools/seedmeta.py <round number> <matrix dir or -> <seed ids...>
Writes / updates seeded/<id>/meta.json from notes.md, .scratch/seedconf/<id>.json (tools/seedconfirm.sh) and the
summary files of tools/seedmatrix.sh (own mode).  The first matrix result is kept as detected_by_first_run."""
import json, os, re, sys

rnd, mdir, ids = int(sys.argv[1]), sys.argv[2], sys.argv[3:]
props = {json.loads(l)["id"]: json.loads(l) for l in open("/verif/properties.jsonl")}
for i in ids:
    d = "/verif/seeded/" + i
    mp = d + "/meta.json"
    meta = json.load(open(mp)) if os.path.exists(mp) else {}
    pid = re.match(r"R\d+-(C\d\d)", i).group(1)
    notes = open(d + "/notes.md").read() if os.path.exists(d + "/notes.md") else ""
    title = next((l.lstrip("# ").strip() for l in notes.splitlines() if l.strip()), "")
    files = sorted(set(re.findall(r"^\+\+\+ b/(\S+)", open(d + "/patch.diff").read(), re.M)))
    meta.update({"id": i, "round": rnd, "property": pid, "property_title": props[pid].get("title", ""),
                 "change": title, "files_touched": files, "needs_to_manifest": notes})
    meta.setdefault("origin", "written by a fresh sub-agent (round %d: changes that need something specific to manifest, "
                    "silent defects preferred, helper modules included) that saw only the property text and a scratch "
                    "worktree of /repo" % rnd)
    cp = "/verif/.scratch/seedconf/%s.json" % i
    if os.path.exists(cp):
        c = json.load(open(cp))
        meta["confirmed_by_me"] = {"demo_on_unchanged_tree": "exit %s" % c.get("demo_clean_exit"),
                                   "demo_with_change": "exit %s" % c.get("demo_mut_exit"),
                                   "demo_fail_tail": c.get("demo_fail_tail"), "test_suite_with_change": c.get("tests"),
                                   "commands": ["tools/seedconfirm.sh " + i]}
    if mdir != "-" and os.path.exists("%s/%s.txt" % (mdir, i)):
        det = []
        for l in open("%s/%s.txt" % (mdir, i)):
            m = re.match(r"(C\d\d) exit=(\d+) ?(.*)", l.strip())
            if m and m.group(2) == "1" and "VIOLATION" in m.group(3):
                det.append(m.group(1) + ("*" if "no-failing-input-found" in m.group(3) else ""))
        meta.setdefault("detected_by_first_run", sorted(det))
        meta["detected_by"] = sorted(set(det) | {x for x in meta.get("detected_by", []) if x.rstrip("*") != pid})
        meta["detected_by_own_property_check"] = pid in det
    json.dump(meta, open(mp, "w"), indent=1)
    print(i, meta.get("detected_by"), (meta.get("confirmed_by_me") or {}).get("test_suite_with_change"))
