#!/bin/bash
# usage: tools/seedfirst.sh <round e.g. R5> <scratch root> <Cxx> ...  — keep a finished sub-agent's two changes, write the
# preliminary meta.json and run the check of the own property against each (first-run result -> .scratch/first_<round>/)
R=$1; ROOT=$2; shift 2
mkdir -p /verif/.scratch/first_$R
for c in "$@"; do
  SEEDROOT=$ROOT /verif/tools/seedkeep.sh $R $c > /dev/null
  for v in a b; do
    id=$R-$c$v
    [ -f /verif/seeded/$id/patch.diff ] || continue
    /verif/tools/seedmeta.py ${R#R} - $id > /dev/null
    out=$(/verif/tools/seedrun.sh /verif/seeded/$id $c 2>&1 | grep -E 'VIOLATION|MACHINERY|Traceback' | head -1)
    code=0; [[ "$out" == *VIOLATION* ]] && code=1; [[ "$out" == *MACHINERY* || "$out" == *Traceback* ]] && code=2
    echo "$c exit=$code $out" > /verif/.scratch/first_$R/$id.txt
    echo "$id: $(echo $out | cut -c1-110)"
  done
done
