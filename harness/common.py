"""Shared machinery of the FINAM verification harness.

* build of the Lean project (regenerated table + `lake build`, under a file lock)
* audit of the compiled theorems (axioms, forbidden tokens)
* batch access to the Lean line-protocol driver
* evidence writer, known-findings handling and the verdict logic of DESIGN.md section 3.4
"""
import fcntl
import hashlib
import json
import os
import random
import re
import shutil
import subprocess
import sys
import tempfile
import time
import traceback

VERIF = os.path.dirname(os.path.dirname(os.path.abspath(__file__)))
REPO = os.environ.get("FINAM_REPO", "/repo")
LEAN = os.path.join(VERIF, "lean")
# VERIF_EVIDENCE: where evidence and replay files go (runs against a seeded copy of the package must not overwrite the
# evidence of the unchanged tree)
EVIDENCE = os.environ.get("VERIF_EVIDENCE") or os.path.join(VERIF, "evidence")
REPLAYS = os.path.join(EVIDENCE, "replays")
DRIVER = os.path.join(LEAN, ".lake", "build", "bin", "driver")
ALLOWED_AXIOMS = {"propext", "Classical.choice", "Quot.sound"}
FORBIDDEN = re.compile(
    r"\b(sorry|admit|native_decide|bv_decide|implemented_by|unsafe)\b|^\s*axiom\s|maxHeartbeats\s+0\b",
    re.M,
)

TRUSTED_BASE = [
    "Lean 4.33.0 kernel (thorough tier: leanchecker re-checks the compiled .olean files)",
    "axioms: subset of {propext, Classical.choice, Quot.sound}, listed per theorem; no native_decide, no bv_decide, no user axioms, no sorry",
    "each theorem statement as a faithful reading of the property text",
    "the hand-written Lean model as a reading of the Python code, to the extent the correspondence run of this check exercises it",
    "harness: extractor (Generated.lean), canonicaliser, tolerance 1e-9 relative for float-vs-rational comparisons",
    "CPython, numpy, pint, scipy (external behaviour appears as hypotheses/parameters, never as Lean axioms)",
]


class MachineryError(Exception):
    """Something is wrong with the checking machinery itself (exit 2, never a VIOLATION)."""


# --------------------------------------------------------------------------------------
# Lean build
# --------------------------------------------------------------------------------------
class BuildResult:
    def __init__(self, ok, failed_modules, errors, log, driver_ok):
        self.ok = ok
        self.failed_modules = failed_modules  # e.g. ["FinamModel.Props.Gen"]
        self.errors = errors  # list of (file, line, message)
        self.log = log
        self.driver_ok = driver_ok


class _Lock:
    """exclusive, re-entrant (within this process) lock on the Lean build directory: the regenerated sources, the
    build and the audit of one check run must see the same .olean files even when several checks (possibly
    against different FINAM_SRC trees) run at the same time"""

    depth = 0
    fh = None

    def __enter__(self):
        if _Lock.depth == 0:
            os.makedirs(os.path.join(LEAN, ".lake"), exist_ok=True)
            _Lock.fh = open(os.path.join(LEAN, ".lake", "verif.lock"), "w")
            fcntl.flock(_Lock.fh, fcntl.LOCK_EX)
        _Lock.depth += 1
        return self

    def __exit__(self, *a):
        _Lock.depth -= 1
        if _Lock.depth == 0:
            _Lock.fh.close()
            _Lock.fh = None

    close = lambda self: self.__exit__()  # noqa


def leanlock():
    return _Lock()


def _lock():
    l = _Lock()
    l.__enter__()
    return l


def regenerate():
    """Re-extract the introspected tables from /repo into Generated.lean (written only on change)."""
    from . import extract

    text = extract.generate()
    path = os.path.join(LEAN, "FinamModel", "Generated.lean")
    _write_if_changed(path, text)
    translate_sources()
    return text


def _write_if_changed(path, text):
    old = open(path).read() if os.path.exists(path) else None
    if old != text:
        os.makedirs(os.path.dirname(path), exist_ok=True)
        with open(path, "w") as f:
            f.write(text)


def finam_src_root():
    """directory that contains the `finam` package the checks run against (FINAM_SRC overrides /repo/src)"""
    return os.environ.get("FINAM_SRC") or os.path.join(REPO, "src")


TRANSLATION_STATUS = {}


def translate_sources():
    """Re-translate the selected FINAM functions to Lean (harness/py2lean.py, harness/trspecs.py):
    lean/FinamModel/Translated/<name>.lean, one file per function, written only on change."""
    from . import py2lean, trspecs

    root = finam_src_root()
    tdir = os.path.join(LEAN, "FinamModel", "Translated")
    names = []
    for spec in trspecs.SPECS:
        text, err = py2lean.translate_spec(spec, root)
        _write_if_changed(os.path.join(tdir, spec["lean"] + ".lean"), text)
        names.append(spec["lean"])
        TRANSLATION_STATUS[spec["lean"]] = {
            "source": f"finam/{spec['path']}::{spec['qual']}", "group": spec["group"], "props": spec["props"],
            "translated": err is None, "error": err, "sha1": hashlib.sha1(text.encode()).hexdigest()[:12],
        }
    # a function that calls the translation of another one needs that translation: if the callee could not be translated,
    # the caller's file would not compile (and with it the validation driver) — it is marked untranslated as well
    by_name = {sp["lean"]: sp for sp in trspecs.SPECS}
    changed = True
    while changed:
        changed = False
        for spec in trspecs.SPECS:
            st = TRANSLATION_STATUS[spec["lean"]]
            if not st["translated"]:
                continue
            callees = [h["lean"] for h in spec.get("calls", {}).values()
                       if isinstance(h, dict) and h["lean"] in by_name and h["lean"] != spec["lean"]]
            bad = [c for c in callees if not TRANSLATION_STATUS[c]["translated"]]
            if bad:
                msg = f"Untranslatable: calls {bad[0]}, which could not be translated"
                text = (f"/- GENERATED by harness/py2lean.py from finam/{spec['path']} :: {spec['qual']} — do not edit. -/\n"
                        "import FinamModel.PyPrelude\nset_option linter.unusedVariables false\nnamespace Finam.Tr\nopen Finam\n\n"
                        f"/-- translation failed: {msg} -/\ndef {spec['lean']}.untranslatable : Unit := ()\n\nend Finam.Tr\n")
                _write_if_changed(os.path.join(tdir, spec["lean"] + ".lean"), text)
                st.update({"translated": False, "error": msg, "sha1": hashlib.sha1(text.encode()).hexdigest()[:12]})
                changed = True
    # stale files of functions no longer listed
    if os.path.isdir(tdir):
        for fn in os.listdir(tdir):
            if fn.endswith(".lean") and fn[:-5] not in names:
                os.remove(os.path.join(tdir, fn))
    _write_if_changed(os.path.join(LEAN, "FinamModel", "DriverTr.lean"),
                      py2lean.driver_source(trspecs.SPECS, TRANSLATION_STATUS, root))
    _write_if_changed(os.path.join(LEAN, "FinamModel", "TranslatedAll.lean"),
                      "/- GENERATED by harness/common.py — do not edit. -/\n"
                      + "".join(f"import FinamModel.Translated.{n}\n" for n in names))
    return TRANSLATION_STATUS


def build_lean():
    lock = _lock()
    try:
        try:
            regenerate()
        except Exception as e:  # extraction failing is information, not a crash
            raise MachineryError(f"extractor failed: {e!r}\n{traceback.format_exc()}")
        p = subprocess.run(
            ["lake", "build"], cwd=LEAN, capture_output=True, text=True, timeout=3000
        )
        log = p.stdout + p.stderr
        failed = re.findall(r"^- (FinamModel[\w.]*|Main|driver[\w:.]*)\s*$", log, re.M)
        errors = [
            (m.group(1), int(m.group(2)), m.group(3))
            for m in re.finditer(r"^error: ([\w/.]+\.lean):(\d+):\d+: (.*)$", log, re.M)
        ]
        ok = p.returncode == 0
        driver_ok = os.path.exists(DRIVER)
        if not ok:
            # the driver only depends on model files; try to get it even if proofs broke
            p2 = subprocess.run(
                ["lake", "build", "driver"], cwd=LEAN, capture_output=True, text=True, timeout=3000
            )
            driver_ok = p2.returncode == 0
        return BuildResult(ok, failed, errors, log, driver_ok)
    finally:
        lock.close()


def grep_forbidden(modules=None):
    """forbidden tokens in the Lean sources (comments stripped).  `modules` restricts the scan to the given
    module stems (e.g. ["Output", "Props.C09"]); a `sorry` elsewhere still cannot leak into a theorem of this
    property unnoticed, because the audit lists `sorryAx` among the axioms of anything that depends on it."""
    hits = []
    wanted = None
    if modules is not None:
        wanted = {os.path.join(LEAN, "FinamModel", *m.split(".")) + ".lean" for m in modules}
    for root, _d, files in os.walk(LEAN):
        if ".lake" in root:
            continue
        for fn in files:
            if not fn.endswith(".lean"):
                continue
            path = os.path.join(root, fn)
            if wanted is not None and path not in wanted:
                continue
            src = open(path).read()
            # strip comments
            src_nc = re.sub(r"/-.*?-/", lambda m: "\n" * m.group(0).count("\n"), src, flags=re.S)
            src_nc = re.sub(r"--.*$", "", src_nc, flags=re.M)
            for m in FORBIDDEN.finditer(src_nc):
                line = src_nc.count("\n", 0, m.start()) + 1
                hits.append((os.path.relpath(path, VERIF), line, m.group(0).strip()))
    return hits


AUDIT_ELAB = """
open Lean Elab Command
elab "#audit " ns:ident : command => do
  let env ← getEnv
  let pre := ns.getId
  let names := env.constants.fold (init := (#[] : Array Name)) fun acc n ci =>
    if pre.isPrefixOf n && !n.isInternal then
      match ci with
      | .thmInfo _ => acc.push n
      | _ => acc
    else acc
  for n in names.qsort (fun a b => a.toString < b.toString) do
    let axs ← Lean.collectAxioms n
    IO.println s!"AUDIT {n} {axs.toList}"

#audit Finam.Props
"""


def _run_audit(mods):
    src = "import Lean\n" + "".join(f"import FinamModel.Props.{m}\n" for m in mods) + AUDIT_ELAB
    path = os.path.join(LEAN, ".lake", f"Audit_{os.getpid()}.lean")
    with open(path, "w") as f:
        f.write(src)
    try:
        return subprocess.run(
            ["lake", "env", "lean", path], cwd=LEAN, capture_output=True, text=True, timeout=1200
        )
    finally:
        os.remove(path)


def audit(prop, deps=()):
    """Returns {theorem name: [axioms]} for the theorems below Finam.Props visible from
    Props.<prop>, its declared dependencies and Props.Gen (cached on the olean hash)."""
    lib = os.path.join(LEAN, ".lake", "build", "lib", "lean", "FinamModel")
    h = hashlib.sha256()
    for root, _d, files in sorted(os.walk(lib)):
        for fn in sorted(files):
            if fn.endswith(".olean"):
                h.update(fn.encode())
                h.update(open(os.path.join(root, fn), "rb").read())
    mods = [prop] + [d for d in deps if d != prop]
    h.update((AUDIT_ELAB + ",".join(mods)).encode())
    key = h.hexdigest()
    cache = os.path.join(LEAN, ".lake", f"audit_cache_{prop}.json")
    if os.path.exists(cache):
        try:
            c = json.load(open(cache))
            if c.get("key") == key:
                return c["theorems"]
        except Exception:
            pass
    p = _run_audit(mods + ["Gen"])
    if p.returncode != 0:
        p = _run_audit(mods)
    if p.returncode != 0:
        raise MachineryError("audit failed:\n" + p.stdout + p.stderr)
    thms = {}
    for m in re.finditer(r"^AUDIT (\S+) \[(.*)\]$", p.stdout, re.M):
        axs = [a.strip() for a in m.group(2).split(",") if a.strip()]
        thms[m.group(1)] = axs
    with open(cache, "w") as f:
        json.dump({"key": key, "theorems": thms}, f)
    return thms


def theorems_of(thms, prop_id):
    """Theorems declared directly in namespace Finam.Props.<id> (auto-generated equation lemmas,
    injectivity lemmas and structure projections live one level deeper and are left out)."""
    pre = f"Finam.Props.{prop_id}."
    out = {}
    for n, axs in thms.items():
        if n.startswith(pre) and "." not in n[len(pre):]:
            out[n] = axs
    return out


def leanchecker(modules):
    p = subprocess.run(
        ["lake", "env", "leanchecker"] + modules, cwd=LEAN, capture_output=True, text=True, timeout=3000
    )
    return p.returncode == 0, (p.stdout + p.stderr)[-2000:]


# --------------------------------------------------------------------------------------
# Lean driver (batch)
# --------------------------------------------------------------------------------------
def lean_batch(requests):
    """Send a list of JSON-able requests through the compiled driver; returns the list of answers."""
    if not requests:
        return []
    if not os.path.exists(DRIVER):
        raise MachineryError("Lean driver not built")
    data = "\n".join(json.dumps(r, separators=(",", ":")) for r in requests) + "\n"
    p = subprocess.run([DRIVER], input=data, capture_output=True, text=True, timeout=3000)
    if p.returncode != 0:
        raise MachineryError(f"driver crashed: {p.stderr[-2000:]}")
    lines = p.stdout.splitlines()
    if len(lines) != len(requests):
        raise MachineryError(f"driver answered {len(lines)} lines for {len(requests)} requests")
    out = []
    for ln in lines:
        j = json.loads(ln)
        if isinstance(j, dict) and "bad" in j:
            raise MachineryError(f"driver rejected a request: {j}")
        out.append(j)
    return out


# --------------------------------------------------------------------------------------
# known findings
# --------------------------------------------------------------------------------------
def load_known():
    """known_findings.txt lines:
       known: property=<id> signature=<sig> <what fails>
       fixed: property=<id> <commit> <what failed>
    Only `known:` lines suppress anything."""
    path = os.path.join(VERIF, "known_findings.txt")
    known = []
    if os.path.exists(path):
        for ln in open(path):
            ln = ln.strip()
            m = re.match(r"known:\s+property=(\S+)\s+signature=(\S+)\s+(.*)$", ln)
            if m:
                known.append({"property": m.group(1), "signature": m.group(2), "what": m.group(3)})
    return known


# --------------------------------------------------------------------------------------
# results / evidence / verdict
# --------------------------------------------------------------------------------------
def chash(obj):
    return hashlib.sha1(json.dumps(obj, sort_keys=True, default=str).encode()).hexdigest()[:16]


class Result:
    """What an engine reports."""

    def __init__(self):
        self.evaluations = 0
        self.nontrivial = set()  # canonical hashes of distinct non-trivial cases
        self.samples = []
        self.distribution = {}
        self.divergences = []  # [{"correspondence": name, "case":…, "impl":…, "model":…}]
        self.failures = []  # oracle failures [{"case":…, "required":…, "observed":…, "signature": optional}]
        self.rule = ""
        self.assumptions = []
        self.extra = {}
        self.exhaustive = False

    def count(self, key, sub=None, n=1):
        if sub is None:
            self.distribution[key] = self.distribution.get(key, 0) + n
        else:
            d = self.distribution.setdefault(key, {})
            d[str(sub)] = d.get(str(sub), 0) + n

    def case(self, case, nontrivial):
        self.evaluations += 1
        if nontrivial:
            self.nontrivial.add(chash(case))
        if len(self.samples) < 3:
            self.samples.append(case)

    def diverge(self, name, case, impl, model):
        if len(self.divergences) < 50:
            self.divergences.append({"correspondence": name, "case": case, "impl": impl, "model": model})
        self.count("divergences", name)

    def fail(self, case, required, observed, signature=None):
        if len(self.failures) < 200:
            self.failures.append(
                {"case": case, "required": required, "observed": observed, "signature": signature}
            )
        self.count("oracle_failures", signature or "unclassified")


class Ctx:
    def __init__(self, prop, tier, seed):
        self.prop = prop
        self.tier = tier
        self.seed = seed
        self.rng = random.Random(f"{prop}-{seed}")
        self.t0 = time.time()
        self.tmp = None
        self.workers = 16 if tier == "thorough" else 4

    def scratch(self):
        if self.tmp is None:
            base = os.path.join(VERIF, ".scratch")
            os.makedirs(base, exist_ok=True)
            self.tmp = tempfile.mkdtemp(prefix=f"{self.prop}-", dir=base)
        return self.tmp

    def cleanup(self):
        if self.tmp and os.path.exists(self.tmp):
            shutil.rmtree(self.tmp, ignore_errors=True)

    def n(self, quick, thorough):
        return thorough if self.tier == "thorough" else quick


def write_replay(prop, kind, broken, seed, tier, payload):
    os.makedirs(REPLAYS, exist_ok=True)
    body = {
        "property": prop,
        "kind": kind,
        "broken": broken,
        "seed": seed,
        "tier": tier,
    }
    body.update(payload)
    name = f"{prop}-{chash(body)}.json"
    path = os.path.join(REPLAYS, name)
    body["replay_cmd"] = f"./check {prop} --replay evidence/replays/{name}"
    with open(path, "w") as f:
        json.dump(body, f, indent=1, default=str)
    return os.path.relpath(path, VERIF)


def write_evidence(ctx, res, theorems, gen_obligations, broken, violations, known_printed, checker_cmd, extra_trusted=()):
    os.makedirs(EVIDENCE, exist_ok=True)
    partial = sorted(n for n in theorems if n.endswith("_partial"))
    cov = {
        "obligations": len(theorems) + len(gen_obligations) + len(broken),
        "discharged": len(theorems) + len(gen_obligations),
        "checker_cmd": checker_cmd,
        "trusted_base": TRUSTED_BASE + list(extra_trusted),
        "theorems": [{"name": n, "axioms": a} for n, a in sorted(theorems.items())],
        "generated_obligations": sorted(gen_obligations),
        "broken_obligations": broken,
        "partial_theorems": partial,
        "evaluations": res.evaluations,
        "distinct_nontrivial": len(res.nontrivial),
        "rule": res.rule,
        "samples": res.samples[:3],
        "distribution": res.distribution,
        "correspondence": {"cases": res.evaluations, "divergences": len(res.divergences)},
        "oracle": {"cases": res.evaluations, "failures": len(res.failures)},
        "known_findings_printed": known_printed,
        "exhaustive": bool(res.exhaustive),
    }
    cov.update(res.extra)
    ev = {
        "property_id": ctx.prop,
        "tier": ctx.tier,
        "seed": ctx.seed,
        "level": "proof",
        "coverage": cov,
        "assumptions": res.assumptions,
        "wall_s": round(time.time() - ctx.t0, 2),
        "violations": violations,
    }
    with open(os.path.join(EVIDENCE, f"{ctx.prop}.json"), "w") as f:
        json.dump(ev, f, indent=1, default=str)
    return ev
