"""Line coverage of the property's anchored source files during a check run (sys.monitoring, Python 3.12).

Purpose: the hand-written model is tied to the code only as far as the correspondence run exercises the code.
This module *measures* that extent: for every function of the files the property is anchored in, which
executable lines were reached while the engine drove the real package.  The numbers go into the evidence file
(`anchored_code_coverage`); they never influence the verdict."""
import json
import os
import sys

_TOOL = 1  # sys.monitoring.COVERAGE_ID
_hits = set()
_active = False
_prefix = None


def _src_root():
    import finam  # the package actually under test (FINAM_SRC or /repo/src)
    return os.path.dirname(os.path.dirname(os.path.abspath(finam.__file__)))


def start():
    global _active, _prefix
    if _active or not hasattr(sys, "monitoring"):
        return
    _prefix = os.path.join(_src_root(), "finam") + os.sep
    mon = sys.monitoring
    try:
        mon.use_tool_id(_TOOL, "verif-cover")
    except ValueError:
        return

    def on_line(code, line):
        if code.co_filename.startswith(_prefix):
            _hits.add((code.co_filename, line))
        return mon.DISABLE

    mon.register_callback(_TOOL, mon.events.LINE, on_line)
    mon.set_events(_TOOL, mon.events.LINE)
    _active = True


def stop():
    global _active
    if not _active:
        return
    mon = sys.monitoring
    mon.set_events(_TOOL, 0)
    mon.register_callback(_TOOL, mon.events.LINE, None)
    mon.free_tool_id(_TOOL)
    _active = False


def _functions(path):
    """[(qualified name, first line, executable lines)] of every function defined in the file"""
    src = open(path).read()
    top = compile(src, path, "exec")
    out = []

    def walk(code, qual):
        for c in code.co_consts:
            if hasattr(c, "co_code"):
                name = f"{qual}.{c.co_name}" if qual else c.co_name
                is_func = bool(c.co_flags & 0x2) or c.co_name == "<lambda>"  # CO_NEWLOCALS: functions, not class bodies
                if is_func and not c.co_name.startswith("<"):
                    lines = sorted({l for (_s, _e, l) in c.co_lines() if l is not None and l != c.co_firstlineno})
                    out.append((name, c.co_firstlineno, lines))
                walk(c, name)

    walk(top, "")
    return out


def report(prop):
    """coverage of the files named in the property's anchors"""
    verif = os.path.dirname(os.path.dirname(os.path.abspath(__file__)))
    anchors = None
    for ln in open(os.path.join(verif, "properties.jsonl")):
        p = json.loads(ln)
        if p["id"] == prop:
            anchors = p["anchors"]["files"]
    if not anchors or _prefix is None:
        return None
    root = os.path.dirname(os.path.dirname(_prefix.rstrip(os.sep)))  # .../ (parent of src)
    rep = {}
    for rel in anchors:
        path = os.path.join(os.path.dirname(_prefix.rstrip(os.sep)), os.path.relpath(rel, "src"))
        if not os.path.exists(path):
            continue
        hit_lines = {l for (f, l) in _hits if f == path}
        funcs = _functions(path)
        total = sum(len(ls) for _n, _f, ls in funcs)
        hit = sum(1 for _n, _f, ls in funcs for l in ls if l in hit_lines)
        missing = {}
        untouched = []
        for name, first, ls in funcs:
            miss = [l for l in ls if l not in hit_lines]
            if not miss:
                continue
            if len(miss) == len(ls):
                untouched.append(f"{name}@{first}")
            else:
                missing[f"{name}@{first}"] = miss[:12]
        rep[rel] = {"functions": len(funcs), "executable_lines": total, "lines_reached": hit,
                    "functions_never_entered": untouched[:40],
                    "lines_not_reached_in_entered_functions": dict(list(missing.items())[:40])}
    return rep
