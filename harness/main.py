"""`./check <property> [quick|thorough]` and `./check <property> --replay <file>`.

Verdict logic (DESIGN.md 3.4):
  exit 0  property held on everything explored (KNOWN-FINDING lines may be printed)
  exit 1  `VIOLATION property=<id> replay=<path>[ no-failing-input-found]`
  exit 2  the machinery itself failed (audit, tool crash, time budget)
"""
import importlib
import json
import os
import re
import sys
import time
import traceback
import warnings

warnings.filterwarnings("ignore")

from . import common
from .common import Ctx, MachineryError, Result

PROPS = [f"C{i:02d}" for i in range(1, 21)]


def load_engine(prop):
    return importlib.import_module(f"harness.engines.{prop.lower()}")


def broken_obligations(build, engine, prop):
    """Names of proof obligations relevant to this property that no longer check."""
    if build.ok and all(st["translated"] for st in common.TRANSLATION_STATUS.values()):
        return []
    broken = []
    gen_path = os.path.join(common.LEAN, "FinamModel", "Props", "Gen.lean")
    gen_src = open(gen_path).read().splitlines() if os.path.exists(gen_path) else []
    wanted = set(getattr(engine, "GEN_OBLIGATIONS", []))
    for file, line, msg in build.errors:
        if file.endswith("Props/Gen.lean"):
            name = None
            for i in range(min(line, len(gen_src)) - 1, -1, -1):
                m = re.match(r"\s*theorem\s+(\S+)", gen_src[i])
                if m:
                    name = m.group(1)
                    break
            if name and (name in wanted):
                broken.append({"theorem": f"Finam.Props.Gen.{name}", "message": msg[:300]})
        elif file.endswith("Generated.lean"):
            broken.append({"theorem": "Generated.lean does not compile", "message": msg[:300]})
        elif "/Translated/" in file or re.search(r"Props/Tr\w+\.lean$", file):
            # a translated function no longer compiles / no longer equals the hand-written model
            from . import trspecs

            src_lines = []
            try:
                src_lines = open(os.path.join(common.LEAN, file)).read().splitlines()
            except OSError:
                pass
            my_groups = {sp["group"] for sp in trspecs.SPECS if prop in sp["props"]}
            if "/Translated/" in file:
                fname = os.path.basename(file)[:-5]
                specs = [sp for sp in trspecs.SPECS if sp["lean"] == fname]
                if any(sp["group"] in my_groups for sp in specs):
                    broken.append({"theorem": f"translated function {fname} does not compile", "message": msg[:300]})
            else:
                group = os.path.basename(file)[2:-5]
                if group.endswith("Code"):   # Props/Tr<group>Code.lean: the property theorems composed with the equivalences
                    group = group[:-4]
                if any(prop in sp["props"] for sp in trspecs.SPECS if sp["group"] == group):
                    name = None
                    for i in range(min(line, len(src_lines)) - 1, -1, -1):
                        m = re.match(r"\s*theorem\s+(\S+)", src_lines[i])
                        if m:
                            name = m.group(1)
                            break
                    broken.append({"theorem": f"Props.Tr{group}.{name or '?'} (translated source vs model)",
                                   "message": msg[:300]})
        else:
            mods = getattr(engine, "MODULES", [])
            stem = file.replace("FinamModel/", "").replace(".lean", "").replace("/", ".")
            if stem in mods or stem == f"Props.{prop}":
                broken.append({"theorem": f"module {stem}", "message": msg[:300]})
    # functions the translator could not read any more (their generated file only holds a marker)
    from . import trspecs as _ts
    for sp in _ts.SPECS:
        st = common.TRANSLATION_STATUS.get(sp["lean"])
        if st and not st["translated"] and prop in sp["props"]:
            broken.insert(0, {"theorem": f"translated function {sp['lean']} ({st['source']}) can no longer be translated",
                              "message": str(st["error"])[:300]})
    # de-duplicate
    seen, out = set(), []
    for b in broken:
        if b["theorem"] not in seen:
            seen.add(b["theorem"])
            out.append(b)
    return out


def classify(failures, known, prop):
    new, old = [], []
    sigs = {k["signature"]: k for k in known if k["property"] == prop}
    for f in failures:
        if f.get("signature") in sigs:
            old.append(f)
        else:
            new.append(f)
    return new, old


def _watchdog(prop, tier):
    """a check never hangs: beyond its wall-clock budget (VERIF_BUDGET_S; quick 30 min, thorough 3 h) the process ends
    with the machinery-error exit code instead of waiting for a run of the real package that does not come back"""
    import threading
    budget = float(os.environ.get("VERIF_BUDGET_S") or (1800 if tier == "quick" else 10800))

    def fire():
        sys.stderr.write(f"MACHINERY ERROR: check {prop} {tier} exceeded its wall-clock budget of {budget:.0f} s\n")
        sys.stderr.flush()
        os._exit(2)

    t = threading.Timer(budget, fire)
    t.daemon = True
    t.start()
    return t


def run_check(prop, tier, seed):
    ctx = Ctx(prop, tier, seed)
    engine = load_engine(prop)
    dog = _watchdog(prop, tier)
    try:
        return _run_check(ctx, engine)
    finally:
        dog.cancel()
        ctx.cleanup()


def _run_check(ctx, engine):
    with common.leanlock():
        pre = _build_and_audit(ctx, engine)
    return _run_engine(ctx, engine, *pre)


def _build_and_audit(ctx, engine):
    prop = ctx.prop
    # 0. regenerate + build
    build = common.build_lean()
    if not build.driver_ok and getattr(engine, "NEEDS_DRIVER", True):
        raise MachineryError("Lean driver does not build:\n" + build.log[-3000:])
    # 1. audit
    from . import trspecs
    tr_specs = [sp for sp in trspecs.SPECS if prop in sp["props"]]
    tr_groups = sorted({sp["group"] for sp in tr_specs})
    tr_deps = [f"Tr{g}" for g in tr_groups]
    tr_deps += [f"Tr{g}Code" for g in tr_groups
                if os.path.exists(os.path.join(common.LEAN, "FinamModel", "Props", f"Tr{g}Code.lean"))]
    own = ([f"Props.{prop}", "Props.Gen", "Basic", "Generated"] + list(getattr(engine, "MODULES", []))
           + [f"Props.{d}" for d in getattr(engine, "THEOREM_DEPS", [])]
           + (["PyPrelude"] if tr_specs else []) + [f"Props.{d}" for d in tr_deps])
    hits = common.grep_forbidden(own)
    if hits:
        raise MachineryError(f"forbidden tokens in Lean sources: {hits}")
    broken = broken_obligations(build, engine, prop)
    if not build.ok and not broken:
        # something unrelated to this property is broken; our own modules must still build
        import subprocess

        p = subprocess.run(
            ["lake", "build", f"FinamModel.Props.{prop}"], cwd=common.LEAN, capture_output=True, text=True
        )
        if p.returncode != 0:
            broken = [{"theorem": f"module Props.{prop}", "message": (p.stdout + p.stderr)[-300:]}]
    tr_broken = any("translated" in b["theorem"] for b in broken)
    audit_deps = list(getattr(engine, "THEOREM_DEPS", [])) + ([] if tr_broken else tr_deps)
    try:
        thms_all = common.audit(prop, audit_deps) if not any(b["theorem"].startswith("module") for b in broken) else {}
    except MachineryError:
        if tr_broken or not tr_deps:
            raise
        # a module with theorems about translated code does not load (e.g. it imports another group's module that no longer
        # builds against the changed source): its obligations are broken, the remaining theorems are still audited
        broken = list(broken) + [{"theorem": f"translated-code theorems of Props.{d} no longer check", "message": "module does not load"}
                                 for d in tr_deps]
        tr_broken = True
        thms_all = common.audit(prop, list(getattr(engine, "THEOREM_DEPS", [])))
    theorems = common.theorems_of(thms_all, prop)
    for dep in getattr(engine, "THEOREM_DEPS", []):
        theorems.update(common.theorems_of(thms_all, dep))
    # equivalence theorems of the translated functions owned by this property (whatever namespace they live in)
    tr_names = {sp["lean"] for sp in tr_specs}
    for n, a in thms_all.items():
        last = n.split(".")[-1]
        if last.startswith("tr_") and any(last[3:] == nm or last[3:].startswith(nm + "_") for nm in tr_names):
            theorems[n] = a
    # theorems about translated code that live in a namespace of their own (not the one of a property)
    for g in tr_groups:
        if g in GROUP_NAMESPACES and not tr_broken:
            theorems.update(common.theorems_of(thms_all, GROUP_NAMESPACES[g]))
    bad_ax = {n: a for n, a in theorems.items() if not set(a) <= common.ALLOWED_AXIOMS}
    if bad_ax:
        raise MachineryError(f"theorems with unexpected axioms: {bad_ax}")
    gen_ob = []
    if build.ok or not any(b["theorem"].startswith("Finam.Props.Gen") for b in broken):
        gen_all = common.theorems_of(thms_all, "Gen")
        gen_ob = [n for n in gen_all if n.split(".")[-1] in set(getattr(engine, "GEN_OBLIGATIONS", []))]
    checker_cmd = "cd lean && lake build && lake env lean FinamModel/Audit.lean"
    if ctx.tier == "thorough" and build.ok:
        mods = ([f"FinamModel.Props.{prop}"] + [f"FinamModel.{m}" for m in getattr(engine, "MODULES", [])]
                + [f"FinamModel.Props.{d}" for d in tr_deps] + [f"FinamModel.Translated.{sp['lean']}" for sp in tr_specs])
        ok, log = common.leanchecker(mods)
        if not ok:
            raise MachineryError("leanchecker rejected the compiled modules:\n" + log)
        checker_cmd += " && lake env leanchecker " + " ".join(mods)
    return broken, theorems, gen_ob, checker_cmd, tr_specs


GROUP_NAMESPACES = {"Missing": "C19M", "Links": "C19L", "Owners": "Owners", "ValidateAll": "C19V", "GridCompat": "C15T", "MaskRules": "C18T", "GridMemo": "C14T", "RunLoop": "RunLoop", "Canonical": "C15C", "AdapterInfo": "C07A", "Linking": "C19K", "Stuck": "C06S", "Notify": "Notify", "Rules": "Rules"}


def _run_engine(ctx, engine, broken, theorems, gen_ob, checker_cmd, tr_specs):
    prop = ctx.prop
    # 2. correspondence + oracles
    res = Result()
    known = common.load_known()
    known_printed = []
    for k in known:
        if k["property"] != prop:
            continue
        repro = getattr(engine, "KNOWN_REPRO", {}).get(k["signature"])
        still = True
        if repro is not None:
            try:
                still = bool(repro(ctx))
            except Exception:
                still = True
        if still:
            print(f"KNOWN-FINDING: property={prop} {k['signature']}: {k['what']}")
            known_printed.append(k["signature"])
    from . import cover
    cover.start()
    try:
        engine.run(ctx, res)
        # translation validation: the translated definitions of this property against the real functions
        import random as _random
        from . import trvalidate
        trvalidate.validate(prop, _random.Random(f"tv-{prop}-{ctx.seed}"), ctx.n(60, 600), res)
    finally:
        cover.stop()
    try:
        cov = cover.report(prop)
        if cov:
            res.extra["anchored_code_coverage"] = cov
    except Exception as e:  # noqa  (measurement only)
        res.extra["anchored_code_coverage"] = {"error": repr(e)}
    new, old = classify(res.failures, known, prop)
    res.count("known_finding_hits", n=len(old))

    violations = 0
    exit_code = 0
    if new:
        f = new[0]
        if hasattr(engine, "shrink"):
            try:
                f = engine.shrink(ctx, f) or f
            except Exception:
                pass
        path = common.write_replay(
            prop, "concrete-input", None, ctx.seed, ctx.tier,
            {"input": f["case"], "required": f["required"], "observed": f["observed"],
             "signature": f.get("signature"), "other_failures": len(new) - 1},
        )
        print(f"VIOLATION property={prop} replay={path}")
        violations = len(new)
        exit_code = 1
    elif res.divergences or broken:
        what = broken[0] if broken else {"correspondence": res.divergences[0]["correspondence"]}
        res2 = Result()
        if hasattr(engine, "search"):
            # the cases of translation-validation divergences are function arguments, not engine cases
            engine.search(ctx, res2, [d for d in res.divergences if not str(d.get("correspondence", "")).startswith("translation/")], broken)
        new2, _old2 = classify(res2.failures, known, prop)
        res.evaluations += res2.evaluations
        res.nontrivial |= res2.nontrivial
        res.count("widened_search_cases", n=res2.evaluations)
        if new2:
            f = new2[0]
            if hasattr(engine, "shrink"):
                try:
                    f = engine.shrink(ctx, f) or f
                except Exception:
                    pass
            path = common.write_replay(
                prop, "concrete-input", what, ctx.seed, ctx.tier,
                {"input": f["case"], "required": f["required"], "observed": f["observed"],
                 "signature": f.get("signature")},
            )
            print(f"VIOLATION property={prop} replay={path}")
            violations = len(new2)
        else:
            d = res.divergences[0] if res.divergences else None
            path = common.write_replay(
                prop, "no-failing-input-found", what, ctx.seed, ctx.tier,
                {"diverging_case": d, "all_broken": broken,
                 "note": "the model/obligation no longer matches the implementation; the property is no "
                         "longer shown to hold; the widened oracle search found no failing input"},
            )
            print(f"VIOLATION property={prop} replay={path} no-failing-input-found")
            violations = 1
        exit_code = 1
    if tr_specs:
        res.extra["translated_functions"] = [
            dict(name=sp["lean"], **{k: v for k, v in common.TRANSLATION_STATUS.get(sp["lean"], {}).items() if k != "props"})
            for sp in tr_specs]
    common.write_evidence(ctx, res, theorems, gen_ob, broken, violations, known_printed, checker_cmd,
                          tuple(getattr(engine, "TRUSTED", ())) + ((
                              "harness/py2lean.py: the translator's reading of the Python subset (functional translation of "
                              "loops / state, Python built-ins as FinamModel/PyPrelude.lean) for the functions listed under "
                              "translated_functions; validated in this run by evaluating every translated definition that does "
                              "not read an object graph and the real Python function on the same random inputs "
                              "(coverage.translation_validation)",) if tr_specs else ()))
    print(f"{prop} {ctx.tier} seed={ctx.seed}: {res.evaluations} cases, "
          f"{len(res.nontrivial)} distinct non-trivial, {len(theorems)} theorems, "
          f"{len(res.divergences)} divergences, {len(new)} oracle failures, "
          f"{time.time() - ctx.t0:.1f}s")
    return exit_code


def run_replay(prop, path):
    engine = load_engine(prop)
    ctx = Ctx(prop, "quick", 0)
    try:
        rp = json.load(open(path))
        common.build_lean()
        out = engine.replay(ctx, rp)
        print(json.dumps(out, indent=1, default=str))
        if out.get("fails"):
            print(f"VIOLATION property={prop} replay={path}")
            return 1
        return 0
    finally:
        ctx.cleanup()


def main(argv):
    if len(argv) < 2 or argv[1] not in PROPS:
        print("usage: check <C01..C20> [quick|thorough] | check <id> --replay <file>")
        return 2
    prop = argv[1]
    try:
        if len(argv) >= 4 and argv[2] == "--replay":
            return run_replay(prop, argv[3])
        tier = argv[2] if len(argv) > 2 else os.environ.get("VERIF_TIER", "quick")
        if tier not in ("quick", "thorough"):
            tier = "quick"
        seed = int(os.environ.get("VERIF_SEED", "0") or 0)
        return run_check(prop, tier, seed)
    except MachineryError as e:
        print(f"MACHINERY-ERROR {prop}: {e}", file=sys.stderr)
        return 2
    except Exception:
        traceback.print_exc()
        return 2


if __name__ == "__main__":
    sys.exit(main(sys.argv))
