"""py2lean — a translator from a small subset of Python to Lean 4.

Purpose (DESIGN.md section 16): the decision kernels of FINAM (request-time arithmetic of the delay adapters,
the interpolation / nearest-publication loops, the eviction loops, the integration formulas, the dependency
walk, the topology checks) are *regenerated* from the source in /repo on every run as Lean definitions
(`lean/FinamModel/Translated/<Name>.lean`), and `lean/FinamModel/Props/Tr*.lean` proves each of them equal to the
hand-written model function the property theorems are about — for all inputs.  A source change inside one of
these functions therefore changes a Lean definition and breaks a proof obligation in `lake build`, whether or not
any sampled correspondence case reaches the changed branch.

The translation is *functional*, in the style of Aeneas: the body of a Python function becomes a term in the
monad `Except Err`; straight-line code becomes `let` / bind, `if` becomes `if … then … else`, a `for` loop
becomes a structurally recursive auxiliary function over the iterated list (the loop-carried variables are its
parameters, `continue` is the recursive call, `break` and normal exit call the continuation, `return` / `raise`
answer directly), a `while` loop becomes a fuel-recursive function (the fuel expression is part of the spec and
running out of fuel is an error result, so too little fuel makes the equivalence proof fail rather than pass).
Assignments to `self.<field>` are threaded as state: the translated function returns the final values of the
mutated fields next to its result.

Supported Python: assignments (names, tuple targets, `self.x`, augmented), `if/elif/else`, `for` over lists /
`enumerate` / `range` / `reversed` / dict views given as lists, `while` (with fuel), `return`, `raise` of a FINAM
error, `continue`, `break`, `with ErrorLogger(...)`, arithmetic `+ - * /`, comparisons (also chained), `and / or /
not`, `is None`, conditional expressions, `len min max`, list indexing with Python's negative wrap-around,
`append / pop(0) / clear`, tuple construction, calls listed in the spec.  Anything else is a `Untranslatable`
error: the generated file then contains only a marker, the equivalence proof for that function no longer
compiles, and the check reports the broken obligation (it cannot be silently skipped).
"""
import ast
import os
import textwrap


class Untranslatable(Exception):
    pass


# ---------------------------------------------------------------------------------------------
# types
# ---------------------------------------------------------------------------------------------
def parse_type(s):
    s = s.strip()
    if s.startswith("List[") and s.endswith("]"):
        return ("List", parse_type(s[5:-1]))
    if s.startswith("Opt[") and s.endswith("]"):
        return ("Opt", parse_type(s[4:-1]))
    if s.startswith("Set[") and s.endswith("]"):
        return ("Set", parse_type(s[4:-1]))   # a Python set: a list without repetitions, in insertion order
    if s.startswith("Tuple[") and s.endswith("]"):
        inner, depth, parts, cur = s[6:-1], 0, [], ""
        for ch in inner:
            if ch == "[":
                depth += 1
            if ch == "]":
                depth -= 1
            if ch == "," and depth == 0:
                parts.append(cur)
                cur = ""
            else:
                cur += ch
        parts.append(cur)
        return ("Tuple", tuple(parse_type(p) for p in parts))
    if s.startswith("Dict[") and s.endswith("]"):
        t = parse_type("Tuple[" + s[5:-1] + "]")
        return ("Dict", t[1][0], t[1][1])
    if s.startswith("Lean:"):
        return ("Lean", s[5:])   # a parameter that stands for untranslated code (a relation, a callee): its Lean type verbatim
    if s in ("Time", "Dur"):
        return "Int"    # datetime / timedelta in microseconds (the distinction only matters to the validation harness)
    if s in ("Int", "Rat", "Bool", "Val", "Unit", "Nat", "Obj"):
        return s
    raise ValueError(f"unknown type {s}")


def lean_type(t):
    if t == "Val":
        return "α"
    if t == "Obj":
        return "Nat"
    if isinstance(t, str):
        return t
    if t[0] == "Dict":
        return f"(List ({lean_type(t[1])} × {lean_type(t[2])}))"
    if t[0] in ("List", "Set"):
        return f"(List {lean_type(t[1])})"
    if t[0] == "Lean":
        return t[1]
    if t[0] == "Opt":
        return f"(Option {lean_type(t[1])})"
    if t[0] == "Tuple":
        return "(" + " × ".join(lean_type(x) for x in t[1]) + ")"
    raise ValueError(t)


def uses_val(t):
    if t == "Val":
        return True
    if isinstance(t, str):
        return False
    if t[0] in ("List", "Opt", "Set"):
        return uses_val(t[1])
    if t[0] == "Dict":
        return uses_val(t[1]) or uses_val(t[2])
    return any(uses_val(x) for x in t[1])


ERRS = {
    "FinamTimeError": "Err.timeErr",
    "FinamNoDataError": "Err.noData",
    "FinamDataError": "Err.dataErr",
    "FinamMetaDataError": "Err.metaErr",
    "FinamStaticDataError": "Err.staticErr",
    "FinamConnectError": "Err.connectErr",
    "FinamCircularCouplingError": "Err.circular",
    "FinamStatusError": "Err.statusErr",
}


def dotted(node):
    if isinstance(node, ast.Name):
        return node.id
    if isinstance(node, ast.Attribute):
        b = dotted(node.value)
        return None if b is None else b + "." + node.attr
    return None


def proj(code, i, n):
    """i-th component (0-based) of an n-tuple rendered as nested pairs"""
    if n == 1:
        return code
    if i == 0:
        return f"{code}.1"
    return proj(f"{code}.2", i - 1, n - 1)


# ---------------------------------------------------------------------------------------------
# translator
# ---------------------------------------------------------------------------------------------
class Tr:
    def __init__(self, spec, funcdef):
        self.spec = spec
        self.fn = funcdef
        self.name = spec["lean"]
        self.fields = {k: parse_type(v) for k, v in spec.get("fields", {}).items()}
        self.params = {k: parse_type(v) for k, v in spec.get("params", {}).items()}
        self.ret = parse_type(spec.get("ret", "Unit"))
        self.calls = spec.get("calls", {})
        self.consts = spec.get("consts", {})
        self.assume_false = set(spec.get("assume_false", []))
        self.assume_true = set(spec.get("assume_true", []))
        self.ignore_fields = set(spec.get("ignore_fields", []))
        self.ignore_params = set(spec.get("ignore_params", []))
        self.fuel = spec.get("fuel", {})
        self.heap = spec.get("heap", False)           # object graph: attributes are functions of a `Heap`
        self.classes = spec.get("classes", {})          # isinstance(x, Cls) -> heap predicate
        self.attrs = spec.get("attrs", {})              # x.attr -> (heap field, type)
        self.methods = spec.get("methods", {})          # x.meth(args) -> (heap field, type)
        self.submaps = spec.get("subscript_maps", {})   # name[x] -> (heap field, type)
        self.conds = spec.get("conds", {})              # condition source -> Lean proposition
        self.drop_assign = set(spec.get("drop_assign", []))
        self.mut_params = list(spec.get("mut_params", []))
        self.recursive = spec.get("recursive", False)
        self.aux = []  # finished auxiliary definitions (text)
        self.try_stack = []
        self.tags = {}
        self.counter = 0
        self.tmp = 0
        self.rename_keywords()
        self.apply_aliases()
        self.mutated = self._mutated_fields()
        # the result type of every term
        parts = (([] if self.ret == "Unit" else [self.ret]) + [self.fields[f] for f in self.mutated]
                 + [(self.params.get(q) or parse_type((spec.get("extra_params", {}).get(q) or spec.get("init", {})[q][1])))
                    for q in self.mut_params])
        if not parts:
            self.res_type = "Unit"
        elif len(parts) == 1:
            self.res_type = parts[0]
        else:
            self.res_type = ("Tuple", tuple(parts))
        self.generic = any(uses_val(t) for t in list(self.fields.values()) + list(self.params.values()) + [self.ret])

    # ---- analysis -------------------------------------------------------------------------
    def _mutated_fields(self):
        mut = []

        def note(f):
            if f in self.ignore_fields:
                return
            if f not in self.fields:
                raise Untranslatable(f"assignment to undeclared field self.{f}")
            if f not in mut:
                mut.append(f)

        for node in ast.walk(self.fn):
            if isinstance(node, (ast.Assign, ast.AugAssign)):
                tgts = node.targets if isinstance(node, ast.Assign) else [node.target]
                for t in tgts:
                    for el in (t.elts if isinstance(t, ast.Tuple) else [t]):
                        if isinstance(el, ast.Subscript):
                            el = el.value       # self.d[k] = v
                        if isinstance(el, ast.Attribute) and isinstance(el.value, ast.Name) and el.value.id == "self":
                            note(el.attr)
            if isinstance(node, ast.Delete):
                for t in node.targets:
                    el = t.value if isinstance(t, ast.Subscript) else t
                    if isinstance(el, ast.Attribute) and isinstance(el.value, ast.Name) and el.value.id == "self":
                        note(el.attr)
            if isinstance(node, ast.Call) and dotted(node.func) in self.calls and isinstance(self.calls[dotted(node.func)], dict):
                for u in self.calls[dotted(node.func)].get("updates", []):
                    if u in self.fields:
                        note(u)
            if isinstance(node, ast.Call) and isinstance(node.func, ast.Attribute):
                if node.func.attr in ("append", "pop", "clear"):
                    b = node.func.value
                    if isinstance(b, ast.Attribute) and isinstance(b.value, ast.Name) and b.value.id == "self":
                        note(b.attr)
        return sorted(mut)

    def fresh(self, base="tmp"):
        self.tmp += 1
        return f"{base}{self.tmp}"

    # ---- expressions ----------------------------------------------------------------------
    # E returns (binds, code, type); binds = list of do-lines to run first
    def E(self, node, env):
        src = ast.unparse(node)
        if src in self.consts:
            code, ty = self.consts[src]
            return [], code, parse_type(ty)
        if isinstance(node, ast.Constant):
            v = node.value
            if v is None:
                return [], "none", ("Opt", "?")
            if isinstance(v, bool):
                return [], "true" if v else "false", "Bool"
            if isinstance(v, int):
                return [], f"({v} : Int)", "Int"
            if isinstance(v, float):
                from fractions import Fraction

                fr = Fraction(v).limit_denominator(10**9)
                if float(fr) != v:
                    raise Untranslatable(f"float literal {v} is not a small rational")
                return [], f"(({fr.numerator} : Rat) / {fr.denominator})", "Rat"
            raise Untranslatable(f"constant {v!r}")
        if isinstance(node, ast.Name):
            if node.id in env:
                return [], node.id, env[node.id]
            raise Untranslatable(f"unknown name {node.id}")
        if isinstance(node, ast.Dict) and not node.keys:
            return [], "[]", ("Dict", "?", "?")
        if isinstance(node, ast.List):
            bs, cs, ts = [], [], []
            for el in node.elts:
                b, c, t = self.E(el, env)
                bs += b
                cs.append(c)
                ts.append(t)
            if not ts:
                return [], "[]", ("List", "?")
            if any(t != ts[0] for t in ts):
                raise Untranslatable(f"heterogeneous list {src}")
            return bs, "[" + ", ".join(cs) + "]", ("List", ts[0])
        if isinstance(node, ast.ListComp):
            # [elt for v in xs if cond]: map after filter; element and test must be total
            if len(node.generators) != 1 or len(node.generators[0].ifs) > 1:
                raise Untranslatable(f"comprehension {src}")
            g = node.generators[0]
            b, lst, et = self.iter_list(g.iter, env)
            pat, add = self.pattern(g.target, et)
            e2 = dict(env)
            e2.update(add)
            if g.ifs:
                bc, cc = self.C(g.ifs[0], e2)
                if bc:
                    raise Untranslatable(f"fallible test in {src}")
                lst = f"(List.filter (fun {pat} => decide {cc}) {lst})"
            be, ce, te = self.E(node.elt, e2)
            if be:
                raise Untranslatable(f"fallible element in {src}")
            return b, f"(List.map (fun {pat} => {ce}) {lst})", ("List", te)
        if isinstance(node, ast.Set):
            # {a, b, …}: a set display; sets are lists without repetition, in insertion order
            bs, c = [], "([] : List Nat)"
            for el in node.elts:
                b, ce, t = self.E(el, env)
                if t != "Obj":
                    raise Untranslatable(f"set display with an element of type {t}: {src}")
                bs += b
                c = f"(Py.setAdd {c} {ce})"
            return bs, c, ("Set", "Obj")
        if isinstance(node, ast.Attribute) and node.attr in self.attrs and not (
                isinstance(node.value, ast.Name) and node.value.id == "self" and ("self_" + node.attr) in env):
            b, c, t = self.E(node.value, env)
            if t != "Obj":
                raise Untranslatable(f"attribute {node.attr} of a non-object ({t}): {src}")
            fld, ty = self.attrs[node.attr]
            return b, f"(h.{fld} {c})", parse_type(ty)
        if isinstance(node, ast.Attribute):
            if isinstance(node.value, ast.Name) and node.value.id == "self":
                f = node.attr
                key = "self_" + f
                if key in env:
                    return [], key, env[key]
                raise Untranslatable(f"unknown field self.{f}")
            raise Untranslatable(f"attribute {src}")
        if isinstance(node, ast.Tuple):
            bs, cs, ts = [], [], []
            for el in node.elts:
                b, c, t = self.E(el, env)
                bs += b
                cs.append(c)
                ts.append(t)
            return bs, "(" + ", ".join(cs) + ")", ("Tuple", tuple(ts))
        if isinstance(node, ast.Subscript) and dotted(node.value) in self.submaps:
            fld, ty = self.submaps[dotted(node.value)]
            b, c, t = self.E(node.slice, env)
            return b, f"(h.{fld} {c})", parse_type(ty)
        if isinstance(node, ast.Subscript):
            b, c, t = self.E(node.value, env)
            if isinstance(t, tuple) and t[0] == "Opt" and isinstance(t[1], tuple) and t[1][0] in ("Tuple", "List"):
                b, c, t = self.unopt(b, c, t)     # `None[0]` raises TypeError
            if isinstance(t, tuple) and t[0] == "Dict":
                bk, ck, tk = self.E(node.slice, env)
                x = self.fresh()
                return b + bk + [f"let {x} ← Py.dictGet {c} {ck}"], x, t[2]
            if isinstance(t, tuple) and t[0] == "Tuple":
                if not (isinstance(node.slice, ast.Constant) and isinstance(node.slice.value, int)):
                    raise Untranslatable(f"tuple index {src}")
                i = node.slice.value
                n = len(t[1])
                if i < 0:
                    i += n
                return b, proj(c, i, n), t[1][i]
            if (isinstance(t, tuple) and t[0] == "List" and isinstance(node.slice, ast.Slice) and node.slice.lower is None
                    and node.slice.upper is None and isinstance(node.slice.step, ast.UnaryOp)
                    and isinstance(node.slice.step.op, ast.USub) and isinstance(node.slice.step.operand, ast.Constant)
                    and node.slice.step.operand.value == 1):
                return b, f"(List.reverse {c})", t    # x[::-1]
            if isinstance(t, tuple) and t[0] == "List":
                bi, ci, ti = self.E(node.slice, env)
                ci = self.as_int(ci, ti)
                x = self.fresh()
                return b + bi + [f"let {x} ← Py.idx {c} {ci}"], x, t[1]
            raise Untranslatable(f"subscript of {t}: {src}")
        if isinstance(node, ast.UnaryOp):
            if isinstance(node.op, ast.Not):
                b, c = self.C(node.operand, env)
                return b, f"(decide (¬ {c}))", "Bool"
            if isinstance(node.op, ast.USub):
                b, c, t = self.E(node.operand, env)
                b2, c, t = self.unopt(b, c, t)
                return b2, f"(-{c})", t
        if isinstance(node, ast.BinOp):
            return self.binop(node.op, node.left, node.right, env)
        if isinstance(node, ast.BoolOp) and isinstance(node.op, ast.Or):
            # `a or b` as a *value*: the first operand that is true, else the last.  Read only for optional objects whose
            # classes define neither `__bool__` nor `__len__` (`Opt[Obj]`: true exactly when not `None`); for anything
            # else — numbers, arrays, masks — the truth value is not "is not None" (or not defined at all) and the
            # expression is refused
            try:
                parts = [self.E(v, env) for v in node.values]
            except Untranslatable:
                parts = None
            if parts and all(t == ("Opt", "Obj") for _b, _c, t in parts):
                if any(b for b, _c, _t in parts[1:]):
                    raise Untranslatable(f"fallible operand in short-circuit expression {src}")
                code = parts[-1][1]
                for _b, c, _t in reversed(parts[:-1]):
                    code = f"(Py.orObj {c} {code})"
                return parts[0][0], code, ("Opt", "Obj")
            if parts and any(isinstance(t, tuple) and t[0] == "Opt" for _b, _c, t in parts):
                raise Untranslatable(f"truth value of an optional that is not an object in {src}")
        if isinstance(node, (ast.Compare, ast.BoolOp)):
            b, c = self.C(node, env)
            return b, f"(decide ({c}))", "Bool"
        if isinstance(node, ast.IfExp):
            bc, cc = self.C(node.test, env)
            b1, c1, t1 = self.E(node.body, env)
            b2, c2, t2 = self.E(node.orelse, env)
            if b1 or b2:
                raise Untranslatable(f"fallible operand in conditional expression {src}")
            c1, c2, t = self.unify(c1, t1, c2, t2)
            return bc, f"(if {cc} then {c1} else {c2})", t
        if isinstance(node, ast.Call):
            return self.call(node, env)
        raise Untranslatable(f"expression {src}")

    def as_int(self, c, t):
        if t == "Int":
            return c
        if t == "Nat":
            return f"(({c} : Nat) : Int)"
        raise Untranslatable(f"expected an integer, got {t}")

    def unopt(self, b, c, t):
        """use an Optional value where a plain one is needed: Python raises TypeError on None"""
        if isinstance(t, tuple) and t[0] == "Opt":
            x = self.fresh()
            return b + [f"let {x} ← Py.unwrap {c}"], x, t[1]
        return b, c, t

    def to_rat(self, c, t):
        if t == "Rat":
            return c
        if t in ("Int", "Nat"):
            return f"(({c} : Int) : Rat)" if t == "Int" else f"(({c} : Nat) : Rat)"
        raise Untranslatable(f"expected a number, got {t}")

    def unify(self, c1, t1, c2, t2):
        if t1 == t2:
            return c1, c2, t1
        if isinstance(t1, tuple) and t1[0] == "Opt" and t1[1] == "?":
            if isinstance(t2, tuple) and t2[0] == "Opt":
                return c1, c2, t2
            return c1, f"some {c2}", ("Opt", t2)
        if isinstance(t2, tuple) and t2[0] == "Opt" and t2[1] == "?":
            if isinstance(t1, tuple) and t1[0] == "Opt":
                return c1, c2, t1
            return f"some {c1}", c2, ("Opt", t1)
        if isinstance(t1, tuple) and t1[0] == "Opt" and t1[1] == t2:
            return c1, f"some {c2}", t1
        if isinstance(t2, tuple) and t2[0] == "Opt" and t2[1] == t1:
            return f"some {c1}", c2, t2
        if {t1, t2} <= {"Int", "Rat", "Nat"}:
            return self.to_rat(c1, t1), self.to_rat(c2, t2), "Rat"
        raise Untranslatable(f"cannot unify {t1} and {t2}")

    def binop(self, op, left, right, env):
        b1, c1, t1 = self.E(left, env)
        b2, c2, t2 = self.E(right, env)
        b1, c1, t1 = self.unopt(b1, c1, t1)
        b2, c2, t2 = self.unopt(b1 + b2, c2, t2)
        b = b2
        if isinstance(op, ast.Div):
            x = self.fresh()
            return b + [f"let {x} ← Py.div {self.to_rat(c1, t1)} {self.to_rat(c2, t2)}"], x, "Rat"
        sym = {ast.Add: "+", ast.Sub: "-", ast.Mult: "*"}.get(type(op))
        if sym is None:
            raise Untranslatable(f"operator {op}")
        if t1 == t2 and t1 in ("Int", "Rat"):
            return b, f"({c1} {sym} {c2})", t1
        if {t1, t2} <= {"Int", "Rat", "Nat"}:
            return b, f"({self.to_rat(c1, t1)} {sym} {self.to_rat(c2, t2)})", "Rat"
        raise Untranslatable(f"arithmetic on {t1}, {t2}")

    def call(self, node, env):
        src = ast.unparse(node)
        fn = dotted(node.func)
        # methods on translated values
        if isinstance(node.func, ast.Attribute):
            meth = node.func.attr
            if meth == "total_seconds" and not node.args:
                b, c, t = self.E(node.func.value, env)
                return b, f"(Py.totalSeconds {self.as_int(c, t)})", "Rat"
            if meth in self.spec.get("identity_methods", ["to_reduced_units"]) and not node.args:
                return self.E(node.func.value, env)
            if meth == "get" and len(node.args) == 1:
                b, c, t = self.E(node.func.value, env)
                if isinstance(t, tuple) and t[0] == "Dict":
                    bk, ck, _tk = self.E(node.args[0], env)
                    return b + bk, f"(Py.dictGet? {c} {ck})", ("Opt", t[2])
            if meth in ("values", "items", "keys") and not node.args:
                b, c, t = self.E(node.func.value, env)
                if isinstance(t, tuple) and t[0] == "Dict":
                    if meth == "items":
                        return b, c, ("List", ("Tuple", (t[1], t[2])))
                    if meth == "values":
                        return b, f"(List.map Prod.snd {c})", ("List", t[2])
                    return b, f"(List.map Prod.fst {c})", ("List", t[1])
                if meth == "values":  # dict given as its list of values
                    return b, c, t
            if meth in self.methods:
                b, c, t = self.E(node.func.value, env)
                if t == "Obj":
                    fld, ty = self.methods[meth]
                    bs, cs = list(b), []
                    for a in node.args:
                        ba, ca, _ta = self.E(a, env)
                        bs += ba
                        cs.append(ca)
                    return bs, f"(h.{fld} {c} {' '.join(cs)})", parse_type(ty)
        if fn in ("any", "all") and len(node.args) == 1 and isinstance(node.args[0], ast.GeneratorExp):
            g = node.args[0]
            if len(g.generators) != 1 or g.generators[0].ifs:
                raise Untranslatable(f"generator {src}")
            b, lst, et = self.iter_list(g.generators[0].iter, env)
            pat, add = self.pattern(g.generators[0].target, et)
            e2 = dict(env)
            e2.update(add)
            bc, cc = self.C(g.elt, e2)
            if bc:
                raise Untranslatable(f"fallible element test in {src}")
            return b, f"(List.{fn} {lst} (fun {pat} => decide {cc}))", "Bool"
        if fn == "list" and len(node.args) == 1:
            b, c, t = self.E(node.args[0], env)
            if isinstance(t, tuple) and t[0] == "List":
                return b, c, t
            raise Untranslatable(f"list() of {t}")
        if fn == "reversed" and len(node.args) == 1:
            b, c, t = self.E(node.args[0], env)
            if not (isinstance(t, tuple) and t[0] == "List"):
                raise Untranslatable(f"reversed of {t}")
            return b, f"(List.reverse {c})", t
        if fn in ("len",):
            b, c, t = self.E(node.args[0], env)
            if not (isinstance(t, tuple) and t[0] in ("List", "Dict", "Set")):
                raise Untranslatable(f"len of {t}")
            return b, f"(Py.len {c})", "Int"
        if fn in ("min", "max"):
            if len(node.args) == 1:
                b, c, t = self.E(node.args[0], env)
                if t == ("List", "Int"):
                    x = self.fresh()
                    return b + [f"let {x} ← Py.{fn}List {c}"], x, "Int"
                if t == ("List", ("Opt", "Int")):
                    # comparing `None` with a number raises TypeError in Python
                    x = self.fresh()
                    return b + [f"let {x} ← Py.{fn}OptList {c}"], x, "Int"
                raise Untranslatable(f"{fn} of {t}")
            if len(node.args) == 2:
                b1, c1, t1 = self.E(node.args[0], env)
                b2, c2, t2 = self.E(node.args[1], env)
                b1, c1, t1 = self.unopt(b1, c1, t1)
                b2, c2, t2 = self.unopt(b1 + b2, c2, t2)
                c1, c2, t = self.unify(c1, t1, c2, t2)
                f = {"Int": "Py.i", "Rat": "Py.r"}[t] + fn  # Py.imin, Py.rmax …
                return b2, f"({f} {c1} {c2})", t
        if fn in self.calls:
            how = self.calls[fn]
            if how == "id":
                return self.E(node.args[0], env)
            if isinstance(how, dict):
                # another translated function (or this one, recursively):
                # {"lean": name, "args": [positions or python exprs], "ret": type, "argtypes": [...],
                #  "defaults": {pos: lean code}, "heap": bool, "rec": bool, "updates": [mutable params rebound]}
                bs, cs = [], []
                for j, a in enumerate(how["args"]):
                    if isinstance(a, int):
                        if a >= len(node.args):
                            cs.append(how.get("defaults", {})[str(a)])
                            continue
                        b, c, t = self.E(node.args[a], env)
                    else:
                        b, c, t = self.E(ast.parse(a, mode="eval").body, env)
                    if "argtypes" in how:
                        want = parse_type(how["argtypes"][j])
                        if (t != want and isinstance(a, int) and isinstance(node.args[a], ast.Tuple)
                                and isinstance(want, tuple) and want[0] == "Tuple" and len(want[1]) == len(node.args[a].elts)):
                            parts = []
                            for el, wt in zip(node.args[a].elts, want[1]):
                                be, ce, te = self.E(el, env)
                                b = b + be if be else b
                                if te != wt:
                                    ce, te = self.coerce_to(ce, te, wt)
                                parts.append(ce)
                            c, t = "(" + ", ".join(parts) + ")", want
                        if t != want:
                            if isinstance(t, tuple) and t[0] == "Opt" and t[1] == want:
                                b, c, t = self.unopt(b, c, t)
                            else:
                                c, t = self.coerce_to(c, t, want)
                    bs += b
                    cs.append(c)
                x = self.fresh()
                al = " ".join(f"({c})" if " " in c and not c.startswith("(") else c for c in cs)
                pre = ("h " if how.get("heap") else "") + ("fuel " if how.get("rec") else "")  # main: heap first, then fuel
                ups = how.get("updates", [])
                pat = x if not ups else "(" + ", ".join([x] + [("self_" + u if u in self.fields else u) for u in ups]) + ")"
                return bs + [f"let {pat} ← {how['lean']} {pre}{al}"], x, parse_type(how["ret"])
        raise Untranslatable(f"call {src}")

    # ---- conditions (Prop) ----------------------------------------------------------------
    def C(self, node, env):
        src = ast.unparse(node)
        if src in self.assume_false:
            return [], "False"
        if src in self.assume_true:
            return [], "True"
        if src in self.conds:
            return [], self.conds[src]
        if isinstance(node, ast.Call) and dotted(node.func) == "isinstance" and len(node.args) == 2:
            cls = dotted(node.args[1])
            if cls in self.classes:
                b, c, t = self.E(node.args[0], env)
                if t == "Obj":
                    return b, f"(h.{self.classes[cls]} {c} = true)"
        if isinstance(node, ast.BoolOp):
            bs, cs = [], []
            for v in node.values:
                b, c = self.C(v, env)
                if b and cs:
                    # a fallible operand after the first would be evaluated eagerly: keep Python's short-circuit
                    raise Untranslatable(f"fallible operand in short-circuit condition {src}")
                bs += b
                cs.append(c)
            sym = " ∧ " if isinstance(node.op, ast.And) else " ∨ "
            return bs, "(" + sym.join(cs) + ")"
        if isinstance(node, ast.UnaryOp) and isinstance(node.op, ast.Not):
            b, c = self.C(node.operand, env)
            return b, f"(¬ {c})"
        if isinstance(node, ast.Compare):
            bs, parts = [], []
            left = node.left
            for op, right in zip(node.ops, node.comparators):
                if isinstance(op, (ast.In, ast.NotIn)):
                    bk, ck, _tk = self.E(left, env)
                    if isinstance(right, (ast.Tuple, ast.List)) and _tk == "Int":
                        # x in (a, b, …): a chain of equalities
                        es = []
                        bs += bk
                        for el in right.elts:
                            be, ce, te = self.E(el, env)
                            if be or te != "Int":
                                raise Untranslatable(f"membership test in a literal of {te}: {src}")
                            es.append(f"{ck} = {ce}")
                        cnd = "(" + " ∨ ".join(es) + ")" if es else "False"
                        parts.append(cnd if isinstance(op, ast.In) else f"(¬ {cnd})")
                        left = right
                        continue
                    bd, cd, td = self.E(right, env)
                    if td == ("List", "Int") and _tk == "Int":
                        bs += bk + bd
                        parts.append(f"({ck} ∈ {cd})" if isinstance(op, ast.In) else f"(¬ {ck} ∈ {cd})")
                        left = right
                        continue
                    if not (isinstance(td, tuple) and td[0] == "Dict"):
                        raise Untranslatable(f"membership test on {td}: {src}")
                    bs += bk + bd
                    parts.append(f"(Py.dictHas {cd} {ck} = {'true' if isinstance(op, ast.In) else 'false'})")
                elif isinstance(op, (ast.Is, ast.IsNot)):
                    if not (isinstance(right, ast.Constant) and right.value is None):
                        raise Untranslatable(f"identity test {src}")
                    b, c, t = self.E(left, env)
                    if not (isinstance(t, tuple) and t[0] == "Opt"):
                        raise Untranslatable(f"`is None` on non-optional {t}")
                    bs += b
                    parts.append(f"({c}.isNone = {'true' if isinstance(op, ast.Is) else 'false'})")
                else:
                    b1, c1, t1 = self.E(left, env)
                    b2, c2, t2 = self.E(right, env)
                    if isinstance(op, (ast.Eq, ast.NotEq)):
                        c1, c2, _t = self.unify(c1, t1, c2, t2)
                        bs += b1 + b2
                    else:
                        b1, c1, t1 = self.unopt(b1, c1, t1)
                        b2, c2, t2 = self.unopt(b2, c2, t2)
                        bs += b1 + b2
                        c1, c2, _t = self.unify(c1, t1, c2, t2)
                    sym = {ast.Lt: "<", ast.LtE: "≤", ast.Gt: ">", ast.GtE: "≥", ast.Eq: "=", ast.NotEq: "≠"}.get(type(op))
                    if sym is None:
                        raise Untranslatable(f"comparison {src}")
                    parts.append(f"({c1} {sym} {c2})")
                left = right
            return bs, parts[0] if len(parts) == 1 else "(" + " ∧ ".join(parts) + ")"
        b, c, t = self.E(node, env)
        if t == "Bool":
            return b, f"({c} = true)"
        raise Untranslatable(f"condition of type {t}: {src}")

    # ---- statements -----------------------------------------------------------------------
    def result(self, env, value_code):
        """`pure` of the function result: return value + mutated fields"""
        parts = ([] if self.ret == "Unit" else [value_code]) + ["self_" + f for f in self.mutated] + list(self.mut_params)
        if not parts:
            return "pure ()"
        return "pure " + (parts[0] if len(parts) == 1 else "(" + ", ".join(parts) + ")")

    def skip_stmt(self, st):
        if isinstance(st, ast.Pass):
            return True
        if isinstance(st, ast.Expr):
            if isinstance(st.value, ast.Constant):
                return True  # docstring
            if isinstance(st.value, ast.Call):
                fn = dotted(st.value.func) or ""
                if fn.startswith("self.logger.") or fn in self.spec.get("drop_calls", []):
                    return True
        if isinstance(st, ast.Assign) and all(isinstance(t, ast.Name) and t.id in self.drop_assign for t in st.targets):
            return True
        if isinstance(st, ast.Assign) and all(ast.unparse(t) in self.drop_assign for t in st.targets):
            return True
        if isinstance(st, ast.For) and ("for %s in %s" % (ast.unparse(st.target), ast.unparse(st.iter))) in self.spec.get("drop_loops", []):
            return True  # a loop over other objects that does not touch the modelled state (named in the spec)
        if isinstance(st, (ast.Assign, ast.AugAssign)):
            tgts = st.targets if isinstance(st, ast.Assign) else [st.target]
            if all(isinstance(t, ast.Attribute) and isinstance(t.value, ast.Name) and t.value.id == "self"
                   and t.attr in self.ignore_fields for t in tgts):
                return True
        return False

    @staticmethod
    def terminates(stmts):
        if not stmts:
            return False
        last = stmts[-1]
        if isinstance(last, (ast.Return, ast.Raise, ast.Continue, ast.Break)):
            return True
        if isinstance(last, ast.If):
            return Tr.terminates(last.body) and Tr.terminates(last.orelse)
        if isinstance(last, ast.With):
            return Tr.terminates(last.body)
        return False

    def T(self, stmts, env, k, loop=None):
        """lines of a `do` sequence for `stmts`, ending in `k(env)` when control falls off the end.
        loop = (continue_k, break_k) inside a loop body."""
        if not stmts:
            return k(env)
        st, rest = stmts[0], stmts[1:]
        if self.skip_stmt(st):
            return self.T(rest, env, k, loop)
        if isinstance(st, ast.With):
            return self.T(list(st.body) + rest, env, k, loop)
        if isinstance(st, ast.FunctionDef) and st.name in self.spec.get("nested_defs", {}):
            # a closure defined inside the function: not translated, its name stands for the declared token
            c, ty = self.spec["nested_defs"][st.name]
            env = dict(env)
            env[st.name] = parse_type(ty)
            return [f"let {st.name} := {c}"] + self.T(rest, env, k, loop)
        if isinstance(st, ast.Return) and not isinstance(st.value, ast.IfExp):
            if st.value is None:
                return [self.result(env, "()")]
            b, c, t = self.E(st.value, env)
            if t != self.ret:
                if isinstance(self.ret, tuple) and self.ret[0] == "Opt":
                    c = c if (isinstance(t, tuple) and t[0] == "Opt") else f"(some {c})"
                elif isinstance(t, tuple) and t[0] == "Opt" and t[1] == self.ret:
                    b, c, t = self.unopt(b, c, t)
                elif self.ret == "Rat" and t == "Int":
                    c = self.to_rat(c, t)
                else:
                    raise Untranslatable(f"return type {t}, declared {self.ret}")
            return b + [self.result(env, c)]
        if isinstance(st, ast.Raise):
            exc = st.exc
            name = dotted(exc.func) if isinstance(exc, ast.Call) else dotted(exc)
            errs = dict(ERRS)
            errs.update(self.spec.get("raises", {}))
            return [f"throw {errs.get(name, 'Err.other')}"]
        if isinstance(st, ast.Continue):
            return loop[0](env)
        if isinstance(st, ast.Break):
            return loop[1](env)
        if isinstance(st, ast.Assign) and isinstance(st.value, ast.IfExp) and len(st.targets) == 1:
            # x = A if c else B   ==>   if c: x = A   else: x = B   (the branches may raise)
            v = st.value
            new = ast.If(test=v.test, body=[ast.Assign(targets=st.targets, value=v.body)],
                         orelse=[ast.Assign(targets=st.targets, value=v.orelse)])
            ast.copy_location(new, st)
            ast.fix_missing_locations(new)
            return self.T([new] + rest, env, k, loop)
        if isinstance(st, ast.Return) and isinstance(st.value, ast.IfExp):
            v = st.value
            new = ast.If(test=v.test, body=[ast.Return(value=v.body)], orelse=[ast.Return(value=v.orelse)])
            ast.copy_location(new, st)
            ast.fix_missing_locations(new)
            return self.T([new] + rest, env, k, loop)
        if isinstance(st, ast.Try):
            if not (len(st.handlers) == 1 and all(isinstance(x, ast.Pass) for x in st.handlers[0].body)
                    and not st.orelse and not st.finalbody):
                raise Untranslatable("only `try: … except <E>: pass` is supported")
            after = lambda e: self.T(rest, e, k, loop)  # noqa  (the handler is `pass`: assignments made before the raise persist)
            self.try_stack.append(after)
            try:
                return self.T(list(st.body), env, after, loop)
            finally:
                self.try_stack.pop()
        if (isinstance(st, ast.Assign) and len(st.targets) == 1 and isinstance(st.targets[0], ast.Name)
                and ast.unparse(st.value) in self.spec.get("raising", {}) and self.try_stack):
            # an expression that raises the exception caught by the enclosing `try` (given as an Optional parameter:
            # None = it raises)
            code, ty = self.spec["raising"][ast.unparse(st.value)]
            inner = parse_type(ty)
            nm = st.targets[0].id
            handler = self.try_stack[-1](env)
            env2 = dict(env)
            env2[nm] = inner[1]
            x = self.fresh("tryv")
            ok = [f"let {nm} := {x}"] + self.T(rest, env2, k, loop)
            return ([f"match {code} with", "| none =>"] + ["  " + l for l in handler]
                    + [f"| some {x} =>"] + ["  " + l for l in ok])
        if isinstance(st, ast.Delete):
            if len(st.targets) == 1 and isinstance(st.targets[0], ast.Subscript):
                tg = st.targets[0]
                nm = self.target_name(tg.value)
                if nm in env and isinstance(env[nm], tuple) and env[nm][0] == "Dict":
                    bk, ck, _tk = self.E(tg.slice, env)
                    return bk + [f"let {nm} ← Py.dictDel {nm} {ck}"] + self.T(rest, env, k, loop)
            raise Untranslatable(f"del {ast.unparse(st)}")
        if isinstance(st, ast.Assign):
            if len(st.targets) != 1:
                raise Untranslatable("chained assignment")
            tg = st.targets[0]
            if isinstance(tg, ast.Subscript):
                nm = self.target_name(tg.value)
                if nm in env and isinstance(env[nm], tuple) and env[nm][0] == "Dict":
                    bk, ck, _tk = self.E(tg.slice, env)
                    bv, cv, tv = self.E(st.value, env)
                    if tv != env[nm][2]:
                        cv, tv = self.coerce_to(cv, tv, env[nm][2])
                    return bk + bv + [f"let {nm} := Py.dictSet {nm} {ck} {cv}"] + self.T(rest, env, k, loop)
                raise Untranslatable(f"subscript assignment {ast.unparse(st)}")
            return self.assign(tg, st.value, rest, env, k, loop)
        if isinstance(st, ast.AugAssign):
            val = ast.BinOp(left=st.target, op=st.op, right=st.value)
            ast.copy_location(val, st)
            ast.fix_missing_locations(val)
            return self.assign(st.target, val, rest, env, k, loop)
        if isinstance(st, ast.Expr) and isinstance(st.value, ast.Call):
            return self.call_stmt(st.value, rest, env, k, loop)
        if isinstance(st, ast.If):
            return self.if_stmt(st, rest, env, k, loop)
        if isinstance(st, ast.For):
            return self.for_stmt(st, rest, env, k, loop)
        if isinstance(st, ast.While):
            return self.while_stmt(st, rest, env, k, loop)
        raise Untranslatable(f"statement {ast.unparse(st)[:60]}")

    def target_name(self, t):
        if isinstance(t, ast.Name):
            return t.id
        if isinstance(t, ast.Attribute) and isinstance(t.value, ast.Name) and t.value.id == "self":
            if t.attr not in self.fields:
                raise Untranslatable(f"undeclared field self.{t.attr}")
            return "self_" + t.attr
        raise Untranslatable(f"assignment target {ast.unparse(t)}")

    def assign(self, target, value, rest, env, k, loop):
        post = []
        if (isinstance(value, ast.Call) and isinstance(value.func, ast.Attribute) and value.func.attr == "pop"
                and len(value.args) == 0):
            # x = lst.pop(): read the last element, then drop it
            lst = self.target_name(value.func.value) if not isinstance(value.func.value, ast.Name) else value.func.value.id
            if lst not in env:
                raise Untranslatable(f"unknown list {lst}")
            x = self.fresh()
            b, c, t = [f"let ({x}, {lst}) ← Py.popLast {lst}"], x, env[lst][1]
        elif (isinstance(value, ast.Call) and isinstance(value.func, ast.Attribute) and value.func.attr == "pop"
                and len(value.args) == 1 and isinstance(value.args[0], ast.Constant) and value.args[0].value == 0):
            # x = lst.pop(0): read the head, then drop it
            lst = self.target_name(value.func.value) if not isinstance(value.func.value, ast.Name) else value.func.value.id
            if lst not in env:
                raise Untranslatable(f"unknown list {lst}")
            x = self.fresh()
            b, c, t = [f"let {x} ← Py.idx {lst} (0 : Int)", f"let {lst} ← Py.pop0 {lst}"], x, env[lst][1]
        else:
            b, c, t = self.E(value, env)
        env = dict(env)
        lines = list(b)
        if isinstance(target, ast.Tuple):
            if not (isinstance(t, tuple) and t[0] == "Tuple" and len(t[1]) == len(target.elts)):
                raise Untranslatable(f"tuple assignment from {t}")
            if not (c.isidentifier()):
                x = self.fresh()
                lines.append(f"let {x} := {c}")
                c = x
            n = len(target.elts)
            for i, el in enumerate(target.elts):
                nm = self.target_name(el)
                ti = t[1][i]
                ci = proj(c, i, n)
                if nm in env and env[nm] != ti:
                    ci, ti = self.coerce_to(ci, ti, env[nm])
                lines.append(f"let {nm} := {ci}")
                env[nm] = ti
        else:
            nm = self.target_name(target)
            if nm in env and isinstance(t, tuple) and t[0] == "Opt" and t[1] == env[nm]:
                lines2, c, t = self.unopt([], c, t)   # an Optional read into a plain variable: None raises later anyway
                lines += lines2
            elif nm in env and env[nm] != t:
                c, t = self.coerce_to(c, t, env[nm])
            elif isinstance(t, tuple) and t[0] == "Dict" and t[1] == "?":
                ann = self.spec.get("locals", {}).get(nm)
                if ann is None:
                    raise Untranslatable(f"`{nm} = {{}}` needs a declared local type")
                t = parse_type(ann)
                c = f"([] : {lean_type(t)})"
            elif isinstance(t, tuple) and t[0] == "Opt" and t[1] == "?":
                ann = self.spec.get("locals", {}).get(nm)
                if ann is None:
                    raise Untranslatable(f"`{nm} = None` needs a declared local type")
                t = parse_type(ann)
                c = f"(none : {lean_type(t)})"
            elif nm in self.spec.get("locals", {}):
                want = parse_type(self.spec["locals"][nm])
                if isinstance(t, tuple) and t[0] == "Opt" and t[1] == want:
                    lines2, c, t = self.unopt([], c, t)   # an Optional read where a value is needed: None raises
                    lines += lines2
                else:
                    c, t = self.coerce_to(c, t, want)
            lines.append(f"let {nm} := {c}")
            env[nm] = t
        return lines + self.T(rest, env, k, loop)

    def coerce_to(self, c, t, want):
        if t == want:
            return c, t
        if isinstance(want, tuple) and want[0] == "Opt":
            if isinstance(t, tuple) and t[0] == "Opt" and t[1] == "?":
                return f"(none : {lean_type(want)})", want
            if t == want[1]:
                return f"(some {c})", want
            if want[1] == "Rat" and t == "Int":
                return f"(some {self.to_rat(c, t)})", want
        if want == "Rat" and t == "Int":
            return self.to_rat(c, t), want
        if isinstance(want, tuple) and want[0] == "List" and t == ("List", "?"):
            return f"({c} : {lean_type(want)})", want   # the empty list display under a declared local type
        raise Untranslatable(f"variable changes type from {want} to {t}")

    def call_stmt(self, call, rest, env, k, loop):
        f = call.func
        if isinstance(f, ast.Attribute) and f.attr == "add" and len(call.args) == 1:
            nm = self.target_name(f.value) if not isinstance(f.value, ast.Name) else f.value.id
            if nm not in env or not (isinstance(env[nm], tuple) and env[nm][0] == "Set"):
                raise Untranslatable(f"add on {nm}, which is not a declared set")
            b, c, te = self.E(call.args[0], env)
            if te != env[nm][1]:
                raise Untranslatable(f"set element of type {te}")
            return b + [f"let {nm} := Py.setAdd {nm} {c}"] + self.T(rest, env, k, loop)
        if isinstance(f, ast.Attribute) and f.attr in ("append", "pop", "clear"):
            nm = self.target_name(f.value) if not isinstance(f.value, ast.Name) else f.value.id
            if nm not in env:
                raise Untranslatable(f"unknown list {nm}")
            t = env[nm]
            env = dict(env)
            if f.attr == "append":
                b, c, te = self.E(call.args[0], env)
                if te != t[1]:
                    c, te = self.coerce_to(c, te, t[1])
                return b + [f"let {nm} := {nm} ++ [{c}]"] + self.T(rest, env, k, loop)
            if f.attr == "clear":
                return [f"let {nm} := ([] : {lean_type(t)})"] + self.T(rest, env, k, loop)
            if f.attr == "pop":
                if not (len(call.args) == 1 and isinstance(call.args[0], ast.Constant) and call.args[0].value == 0):
                    raise Untranslatable("only pop(0) is supported")
                return [f"let {nm} ← Py.pop0 {nm}"] + self.T(rest, env, k, loop)
        if (isinstance(f, ast.Attribute) and f.attr == "sort" and not call.args and len(call.keywords) == 1
                and call.keywords[0].arg == "key" and isinstance(call.keywords[0].value, ast.Lambda)
                and len(call.keywords[0].value.args.args) == 1):
            # xs.sort(key=lambda m: <int expression>): Python's sort is stable
            nm = self.target_name(f.value) if not isinstance(f.value, ast.Name) else f.value.id
            if nm not in env or not (isinstance(env[nm], tuple) and env[nm][0] == "List"):
                raise Untranslatable(f"sort of {nm}")
            lam = call.keywords[0].value
            v = lam.args.args[0].arg
            e2 = dict(env)
            e2[v] = env[nm][1]
            bk, ck, tk = self.E(lam.body, e2)
            if bk or tk != "Int":
                raise Untranslatable("sort key must be a total integer expression")
            return [f"let {nm} := Py.sortByKey (fun {v} => {ck}) {nm}"] + self.T(rest, env, k, loop)
        fn = dotted(f)
        if fn in self.calls and isinstance(self.calls[fn], dict) and self.calls[fn].get("stmt"):
            # a translated procedure that updates fields: {"lean":…, "args":[…], "stmt": True, "updates": [fields]}
            how = self.calls[fn]
            bs, cs = [], []
            for j, a in enumerate(how["args"]):
                if isinstance(a, int):
                    b, c, t = self.E(call.args[a], env)
                else:
                    b, c, t = self.E(ast.parse(a, mode="eval").body, env)
                if "argtypes" in how:
                    want = parse_type(how["argtypes"][j])
                    if (t != want and isinstance(a, int) and isinstance(call.args[a], ast.Tuple)
                            and isinstance(want, tuple) and want[0] == "Tuple"):
                        parts = []
                        for el, wt in zip(call.args[a].elts, want[1]):
                            be, ce, te = self.E(el, env)
                            b = b + be if be else b
                            if te != wt:
                                ce, te = self.coerce_to(ce, te, wt)
                            parts.append(ce)
                        c, t = "(" + ", ".join(parts) + ")", want
                    elif t != want:
                        c, t = self.coerce_to(c, t, want)
                bs += b
                cs.append(c if c.startswith("(") or " " not in c else f"({c})")
            ups = ["self_" + u for u in how.get("updates", [])] + list(how.get("param_updates", []))
            pat = "_" if not ups else ups[0] if len(ups) == 1 else "(" + ", ".join(ups) + ")"
            # a recursive callee takes its fuel after the heap: the caller's own fuel (self-recursion) or a given bound
            pre = ("h " if how.get("heap") else "") + ("fuel " if how.get("rec") else "") + \
                  (how["fuel"] + " " if how.get("fuel") else "")
            return bs + [f"let {pat} ← {how['lean']} {pre}{' '.join(cs)}"] + self.T(rest, env, k, loop)
        raise Untranslatable(f"call statement {ast.unparse(call)[:60]}")

    def live_vars(self, stmts_nodes, env):
        """variables of env referenced in the given statements (in env order)"""
        used = set()
        for st in stmts_nodes:
            for n in ast.walk(st):
                if isinstance(n, ast.Name):
                    used.add(n.id)
                if isinstance(n, ast.Attribute) and isinstance(n.value, ast.Name) and n.value.id == "self":
                    used.add("self_" + n.attr)
        for f in self.mutated:
            used.add("self_" + f)
        for q in self.mut_params:
            used.add(q)
        for v in env:
            if v.startswith("it_rest"):
                used.add(v)
        # expressions given in the spec (call argument templates, fuel) may mention further variables
        extra = " ".join(
            [str(a) for h in self.calls.values() if isinstance(h, dict) for a in h["args"]] + list(self.fuel.values())
        )
        for v in env:
            if v in extra or v.replace("self_", "self.") in extra:
                used.add(v)
        return [v for v in env if v in used]

    def binder(self, vs, env):
        pre = ("(h : Py.Heap) " if self.heap else "")
        return pre + " ".join(f"({v} : {lean_type(env[v])})" for v in vs)

    def callpre(self):
        """leading arguments of every auxiliary definition: the heap, and the recursion fuel"""
        return ("fuel " if self.recursive else "") + ("h " if self.heap else "")

    def fuelbinder(self):
        return "(fuel : Nat) " if self.recursive else ""

    def header_generic(self):
        # spec["type_params"]: further type variables (e.g. the state of the file system, given with its operations)
        return ("{α : Type} " if self.generic else "") + "".join("{%s : Type} " % tp for tp in self.spec.get("type_params", []))

    def loop_extras(self, vs, env):
        """spec["loop_extras"]: loop bodies name parameters that occur only in the spec's call / condition texts"""
        if not self.spec.get("loop_extras"):
            return vs
        return vs + [v for v in self.spec.get("extra_params", {}) if v in env and v not in vs]

    def make_join(self, rest, env, k, loop):
        """auxiliary definition for `rest` (the code after a branching statement); returns call-lines factory"""
        if not rest:
            return k
        self.counter += 1
        nm = f"{self.name}.join{self.counter}"
        # the continuation `k` (code after `rest`) may read further variables: carry everything the function mentions
        vs = self.live_vars(list(self.fn.body), env)
        vs = vs + [v for v in self.spec.get("extra_params", {}) if v in env and v not in vs]  # named only in call specs
        body = self.T(rest, env, k, loop)
        text = (f"def {nm} {self.header_generic()}{self.fuelbinder()}{self.binder(vs, env)} : Except Err {lean_type(self.res_type)} := do\n"
                + textwrap.indent("\n".join(body), "  "))
        self.aux.append(text)
        return lambda e: [f"{nm} {self.callpre()}{' '.join(vs)}"]

    def branch(self, test, env, then_fn, else_fn):
        """lines of `if test then … else …`; a short-circuit condition whose later operands can raise (an index
        into a list) is split into nested tests so that Python's evaluation order is kept"""
        src = ast.unparse(test)
        if src in self.assume_false:
            return else_fn()
        if src in self.assume_true:
            return then_fn()
        try:
            bc, cc = self.C(test, env)
        except Untranslatable as e:
            if "short-circuit" not in str(e) or not isinstance(test, ast.BoolOp):
                raise
            first, others = test.values[0], test.values[1:]
            rest_test = others[0] if len(others) == 1 else ast.BoolOp(op=test.op, values=others)
            if isinstance(test.op, ast.And):
                return self.branch(first, env, lambda: self.branch(rest_test, env, then_fn, else_fn), else_fn)
            return self.branch(first, env, then_fn, lambda: self.branch(rest_test, env, then_fn, else_fn))
        if cc == "False":
            return bc + else_fn()
        if cc == "True":
            return bc + then_fn()
        return bc + [f"if {cc} then"] + ["  " + l for l in then_fn()] + ["else"] + ["  " + l for l in else_fn()]

    def if_stmt(self, st, rest, env, k, loop):
        both_fall = (not self.terminates(st.body)) and (not self.terminates(st.orelse))
        if rest and both_fall and loop is None:
            kk = self.make_join(rest, self.env_after_if(st, env), k, loop)
            cont = lambda e: kk(e)  # noqa
        else:
            cont = lambda e: self.T(rest, e, k, loop)  # noqa  (duplicated at most in one falling branch, or inside loops)
        return self.branch(st.test, env,
                           lambda: self.T(list(st.body), env, cont, loop),
                           lambda: self.T(list(st.orelse), env, cont, loop))

    def env_after_if(self, st, env):
        """variables visible after an `if` whose branches both fall through: those defined before it, plus names
        assigned (with one type) in *both* branches"""
        import copy

        def probe(stmts):
            twin = copy.copy(self)
            twin.aux = list(self.aux)
            twin.tags = dict(self.tags)
            seen = []

            def grab(e):
                seen.append(dict(e))
                return ["pure ()"]

            try:
                twin.T(list(stmts), dict(env), grab, (grab, grab))
            except Untranslatable:
                return None
            return seen[0] if seen else None

        e1, e2 = probe(st.body), probe(st.orelse)
        out = dict(env)
        if e1 and e2:
            for name, ty in e1.items():
                if name not in out and name in e2 and e2[name] == ty and not name.startswith("it_rest"):
                    out[name] = ty
        return out

    def pattern(self, target, t):
        """Lean pattern and environment additions for a for-loop target of element type t"""
        if isinstance(target, ast.Name):
            return target.id, {target.id: t}
        if isinstance(target, ast.Tuple):
            if not (isinstance(t, tuple) and t[0] == "Tuple" and len(t[1]) == len(target.elts)):
                raise Untranslatable(f"loop target {ast.unparse(target)} over {t}")
            ps, add = [], {}
            for el, ti in zip(target.elts, t[1]):
                p, a = self.pattern(el, ti)
                ps.append(p)
                add.update(a)
            return "(" + ", ".join(ps) + ")", add
        raise Untranslatable(f"loop target {ast.unparse(target)}")

    def iter_list(self, node, env):
        """(binds, code, element type) of the list a `for` iterates over"""
        if isinstance(node, ast.Call):
            fn = dotted(node.func)
            if fn == "enumerate":
                b, c, t = self.E(node.args[0], env)
                return b, f"(Py.enumerate {c})", ("Tuple", ("Int", t[1]))
            if fn == "range" and len(node.args) == 1:
                b, c, t = self.E(node.args[0], env)
                return b, f"(Py.range {self.as_int(c, t)})", "Int"
            if fn == "reversed":
                b, c, t = self.E(node.args[0], env)
                return b, f"(List.reverse {c})", t[1]
            if fn == "zip" and len(node.args) == 2:
                b1, c1, t1 = self.E(node.args[0], env)
                b2, c2, t2 = self.E(node.args[1], env)
                if not all(isinstance(t, tuple) and t[0] == "List" for t in (t1, t2)):
                    raise Untranslatable(f"zip of {t1}, {t2}")
                return b1 + b2, f"(List.zip {c1} {c2})", ("Tuple", (t1[1], t2[1]))
        b, c, t = self.E(node, env)
        if not (isinstance(t, tuple) and t[0] == "List"):
            raise Untranslatable(f"iteration over {t}")
        return b, c, t[1]

    def assigned_vars(self, stmts, env):
        """variables of env (re)bound somewhere in the statements, in env order"""
        hit = set()

        def tname(t):
            if isinstance(t, ast.Name):
                return t.id
            if isinstance(t, ast.Attribute) and isinstance(t.value, ast.Name) and t.value.id == "self":
                return "self_" + t.attr
            if isinstance(t, ast.Subscript):
                return tname(t.value)
            return None

        for st in stmts:
            for n in ast.walk(st):
                if isinstance(n, (ast.Assign, ast.AugAssign, ast.Delete)):
                    tg = n.targets if not isinstance(n, ast.AugAssign) else [n.target]
                    for t in tg:
                        for el in (t.elts if isinstance(t, ast.Tuple) else [t]):
                            hit.add(tname(el))
                if isinstance(n, ast.For):
                    for el in ast.walk(n.target):
                        if isinstance(el, ast.Name):
                            hit.add(el.id)
                if isinstance(n, ast.Call) and isinstance(n.func, ast.Attribute) and n.func.attr in ("append", "pop", "clear", "add"):
                    hit.add(tname(n.func.value))
                if isinstance(n, ast.Call) and dotted(n.func) in self.calls and isinstance(self.calls[dotted(n.func)], dict):
                    for u in self.calls[dotted(n.func)].get("updates", []):
                        hit.add(u)
                        hit.add("self_" + u)
                    for u in self.calls[dotted(n.func)].get("param_updates", []):
                        hit.add(u)
        return [v for v in env if v in hit]

    @staticmethod
    def has_return(stmts):
        return any(isinstance(n, ast.Return) for st in stmts for n in ast.walk(st))

    def state_tuple(self, vs, env):
        if not vs:
            return "()", "Unit"
        if len(vs) == 1:
            return vs[0], lean_type(env[vs[0]])
        return "(" + ", ".join(vs) + ")", "(" + " × ".join(lean_type(env[v]) for v in vs) + ")"

    def for_stmt(self, st, rest, env, k, loop):
        if st.orelse:
            raise Untranslatable("for/else")
        b, lst, et = self.iter_list(st.iter, env)
        self.counter += 1
        nm = f"{self.name}.loop{self.counter}"
        it = f"it_rest{self.counter}"
        pat, add = self.pattern(st.target, et)
        env_in = dict(env)
        for kx, v in add.items():
            env_in[kx] = v
        if not self.has_return(st.body):
            # the loop as a state transformer: returns the final values of the variables it assigns
            state = [v for v in self.assigned_vars(st.body, env) if v not in add]
            vs = self.loop_extras(self.live_vars([st], env), env)
            tup, tty = self.state_tuple(state, env)
            rec = lambda e: [f"{nm} {self.callpre()}{' '.join(vs)} {it}"]  # noqa
            done = lambda e: [f"pure {tup}"]  # noqa
            body = self.T(list(st.body), env_in, rec, (rec, done))
            text = (
                f"def {nm} {self.header_generic()}{self.fuelbinder()}{self.binder(vs, env)} : List {lean_type(et)} → Except Err {tty}\n"
                f"  | [] => pure {tup}\n"
                f"  | {pat} :: {it} => do\n" + textwrap.indent("\n".join(body), "    ")
            )
            self.aux.append(text)
            return b + [f"let {tup} ← {nm} {self.callpre()}{' '.join(vs)} {lst}"] + self.T(rest, env, k, loop)
        # a loop that can `return`: continuation-passing form, the code after the loop is part of it
        if loop is not None:
            raise Untranslatable("a loop with `return` nested in another loop")
        vs = self.loop_extras(self.live_vars([st] + rest, env), env)
        has_break = any(isinstance(n, ast.Break) for n in ast.walk(st))
        if has_break and rest:
            after = self.make_join(rest, env, k, loop)
        else:
            after = lambda e: self.T(rest, e, k, loop)  # noqa
        rec = lambda e: [f"{nm} {self.callpre()}{' '.join(vs)} {it}"]  # noqa
        body = self.T(list(st.body), env_in, rec, (rec, after))
        nil = after(env)
        text = (
            f"def {nm} {self.header_generic()}{self.fuelbinder()}{self.binder(vs, env)} : List {lean_type(et)} → Except Err {lean_type(self.res_type)}\n"
            f"  | [] => do\n" + textwrap.indent("\n".join(nil), "    ") + "\n"
            f"  | {pat} :: {it} => do\n" + textwrap.indent("\n".join(body), "    ")
        )
        self.aux.append(text)
        self.tags[nm] = ("list", None)
        return b + [f"{nm} {self.callpre()}{' '.join(vs)} {lst}"]

    def while_stmt(self, st, rest, env, k, loop):
        if st.orelse:
            raise Untranslatable("while/else")
        key = ast.unparse(st.test)
        if key not in self.fuel:
            raise Untranslatable(f"while loop without declared fuel: {key}")
        self.counter += 1
        nm = f"{self.name}.while{self.counter}"
        fuel_src = self.fuel[key]
        if fuel_src.startswith("lean:"):
            bf, cf = [], fuel_src[5:]
        else:
            bf, cf0, tf = self.E(ast.parse(fuel_src, mode="eval").body, env)
            cf = f"(Int.toNat {self.as_int(cf0, tf)} + 1)"
        if not self.has_return(st.body):
            state = self.assigned_vars(st.body, env)
            vs = self.loop_extras(self.live_vars([st], env), env)
            tup, tty = self.state_tuple(state, env)
            rec = lambda e: [f"{nm} {self.callpre()}{' '.join(vs)} wf"]  # noqa
            done = lambda e: [f"pure {tup}"]  # noqa
            inner = self.branch(st.test, env, lambda: self.T(list(st.body), env, rec, (rec, done)), lambda: done(env))
            text = (
                f"def {nm} {self.header_generic()}{self.fuelbinder()}{self.binder(vs, env)} : Nat → Except Err {tty}\n"
                f"  | 0 => throw Err.other  -- out of fuel\n"
                f"  | wf + 1 => do\n" + textwrap.indent("\n".join(inner), "    ")
            )
            self.aux.append(text)
            return bf + [f"let {tup} ← {nm} {self.callpre()}{' '.join(vs)} {cf}"] + self.T(rest, env, k, loop)
        if loop is not None:
            raise Untranslatable("a loop with `return` nested in another loop")
        vs = self.loop_extras(self.live_vars([st] + rest, env), env)
        after = self.make_join(rest, env, k, loop) if rest else (lambda e: k(e))
        rec = lambda e: [f"{nm} {self.callpre()}{' '.join(vs)} wf"]  # noqa
        inner = self.branch(st.test, env, lambda: self.T(list(st.body), env, rec, (rec, after)), lambda: after(env))
        text = (
            f"def {nm} {self.header_generic()}{self.fuelbinder()}{self.binder(vs, env)} : Nat → Except Err {lean_type(self.res_type)}\n"
            f"  | 0 => throw Err.other  -- out of fuel\n"
            f"  | wf + 1 => do\n"
            + textwrap.indent("\n".join(inner), "    ")
        )
        self.aux.append(text)
        self.tags[nm] = ("fuel", None)
        return bf + [f"{nm} {self.callpre()}{' '.join(vs)} {cf}"]

    # ---- whole function --------------------------------------------------------------------
    @staticmethod
    def hoist_walrus(stmts):
        """`x = (y := e) is None` -> `y = e; x = y is None`: an assignment expression that is the first thing its statement
        evaluates (the left end of a comparison that is the whole right-hand side) is hoisted in front of the statement"""
        out = []
        for st in stmts:
            if (isinstance(st, ast.Assign) and isinstance(st.value, ast.Compare) and isinstance(st.value.left, ast.NamedExpr)
                    and not any(isinstance(n, ast.NamedExpr) for c in st.value.comparators for n in ast.walk(c))):
                ne = st.value.left
                out.append(ast.copy_location(ast.Assign(targets=[ast.Name(id=ne.target.id, ctx=ast.Store())], value=ne.value), st))
                out.append(ast.copy_location(ast.Assign(targets=st.targets, value=ast.Compare(
                    left=ast.Name(id=ne.target.id, ctx=ast.Load()), ops=st.value.ops, comparators=st.value.comparators)), st))
            else:
                out.append(st)
        for st in out:
            ast.fix_missing_locations(st)
        return out

    LEAN_KEYWORDS = {"where", "at", "from", "have", "show", "then", "fun", "end", "open", "meta", "instance", "structure", "namespace",
                     "section", "variable", "theorem", "example", "initialize", "deriving", "mutual", "macro", "syntax", "do", "let"}

    def rename_keywords(self):
        """Python names that are Lean keywords get a trailing underscore (parameters, locals, and the keys of the spec's
        `params` / `locals` tables; Lean texts given in the spec use the new name)"""
        kw = self.LEAN_KEYWORDS
        extra = self.spec.get("rename", {})   # two locals of disjoint scopes read as one (e.g. `out_info` as `in_info`)
        ren = lambda n: extra.get(n, n + "_" if n in kw else n)  # noqa

        class Rn(ast.NodeTransformer):
            def visit_Name(self, node):
                node.id = ren(node.id)
                return node

            def visit_arg(self, node):
                node.arg = ren(node.arg)
                return node

        self.fn = Rn().visit(self.fn)
        self.params = {ren(k): v for k, v in self.params.items()}
        self.ignore_params = {ren(k) for k in self.ignore_params}
        if "locals" in self.spec:
            self.spec = dict(self.spec)
            self.spec["locals"] = {ren(k): v for k, v in self.spec["locals"].items()}

    def apply_aliases(self):
        """spec["alias"]: attribute chains of other objects read as flat fields / parameters, e.g.
        {"self._output_info.grid": "self.oi_grid", "info.grid": "info_grid"}; spec["return_unit"]: `return <expr>` of an
        object that is represented by its fields only becomes a bare `return`"""
        alias = self.spec.get("alias", {})
        ret_unit = set(self.spec.get("return_unit", []))
        if not alias and not ret_unit:
            return

        class Tx(ast.NodeTransformer):
            def visit_Attribute(self, node):
                src = ast.unparse(node)
                if src in alias:
                    new = ast.parse(alias[src], mode="eval").body
                    return ast.copy_location(new, node)
                return self.generic_visit(node)

            def visit_Return(self, node):
                if node.value is not None and ast.unparse(node.value) in ret_unit:
                    return ast.copy_location(ast.Return(value=None), node)
                return self.generic_visit(node)

        self.fn = Tx().visit(self.fn)
        ast.fix_missing_locations(self.fn)

    def translate(self):
        self.fn.body = self.hoist_walrus(list(self.fn.body))
        env = {}
        for f, t in self.fields.items():
            env["self_" + f] = t
        args = [a.arg for a in self.fn.args.args if a.arg != "self"]
        for a in args:
            if a in self.ignore_params:
                continue
            if a not in self.params:
                raise Untranslatable(f"parameter {a} has no declared type")
            env[a] = self.params[a]
        if set(self.params) - set(args):
            raise Untranslatable(f"declared parameters {set(self.params) - set(args)} no longer exist")
        # values of calls into code that is not translated (given as additional parameters, see `consts`)
        for a, t in self.spec.get("extra_params", {}).items():
            env[a] = parse_type(t)
        # spec["init"]: locals bound before the first statement (an object created by a constructor call that the spec reads
        # as flat variables, e.g. `info = Info(time=None, grid=None)` -> info_time, info_grid, info_meta)
        env_body = dict(env)
        init_lines = []
        for nm, (code, ty) in self.spec.get("init", {}).items():
            env_body[nm] = parse_type(ty)
            init_lines.append(f"let {nm} := {code}")
        body = init_lines + self.T(list(self.fn.body), env_body, lambda e: [self.result(e, "()")] if self.ret == "Unit" else ["throw Err.other  -- fell off the end without a value"])
        vs = list(env)
        if self.recursive:
            main = (f"def {self.name} {self.header_generic()}{'(h : Py.Heap) ' if self.heap else ''}(fuel0 : Nat) "
                    + " ".join(f"({v} : {lean_type(env[v])})" for v in vs)
                    + f" : Except Err {lean_type(self.res_type)} :=\n  match fuel0 with\n  | 0 => throw Err.other  -- out of fuel\n  | fuel + 1 => do\n"
                    + textwrap.indent("\n".join(body), "    "))
            # explicit lexicographic measure (recursion fuel, rank of the definition, own list length / loop fuel):
            # callees are emitted before their callers, so the rank is the emission index
            out = []
            for i, text in enumerate(self.aux, start=1):
                head = text.split("\n", 1)[0]
                if ": List " in head and "→ Except" in head:
                    tb = f"termination_by l => (fuel + 1, {i}, l.length)"
                elif ": Nat → Except" in head:
                    tb = f"termination_by wf => (fuel + 1, {i}, wf)"
                else:
                    tb = f"termination_by (fuel + 1, {i}, 0)"
                out.append(text + "\n" + tb)
            main += f"\ntermination_by (fuel0, {len(self.aux) + 1}, 0)"
            return "mutual\n\n" + "\n\n".join(out + [main]) + "\n\nend"
        main = (f"def {self.name} {self.header_generic()}{self.binder(vs, env)} : Except Err {lean_type(self.res_type)} := do\n"
                + textwrap.indent("\n".join(body), "  "))
        return "\n\n".join(self.aux + [main])


def find_function(tree, qual):
    # "Class.prop@setter": the function decorated with `@prop.setter` (a property has two functions of one name)
    qual, _, role = qual.partition("@")
    parts = qual.split(".")
    body = tree.body
    node = None
    for k, p in enumerate(parts):
        node = None
        for n in body:
            if isinstance(n, (ast.ClassDef, ast.FunctionDef)) and n.name == p:
                if role and k == len(parts) - 1 and not any(
                        isinstance(d, ast.Attribute) and d.attr == role for d in getattr(n, "decorator_list", [])):
                    continue
                node = n
                break
        if node is None:
            return None
        body = node.body
    return node if isinstance(node, ast.FunctionDef) else None


def slice_function(fn, spec):
    """a consecutive run of statements inside `fn` (from the statement whose source starts with slice["start"] to the
    one that starts with slice["end"], in the same block) as a function of the declared parameters that returns the
    declared result variables"""
    sl = spec["slice"]

    def blocks(node):
        for fld in ("body", "orelse", "finalbody"):
            b = getattr(node, fld, None)
            if isinstance(b, list) and b and isinstance(b[0], ast.stmt):
                yield b
                for st in b:
                    yield from blocks(st)

    for block in blocks(fn):
        srcs = [ast.unparse(st) for st in block]
        starts = [i for i, t in enumerate(srcs) if t.startswith(sl["start"])]
        if not starts:
            continue
        i = starts[0]
        ends = [j for j in range(i, len(srcs)) if srcs[j].startswith(sl["end"])]
        if not ends:
            raise Untranslatable(f"slice end {sl['end']!r} not found after {sl['start']!r}")
        body = list(block[i:ends[0] + 1])
        names = list(sl.get("result", []))
        tail = []
        if names:
            tail = [ast.Return(value=ast.Name(id=names[0], ctx=ast.Load()) if len(names) == 1
                               else ast.Tuple(elts=[ast.Name(id=n, ctx=ast.Load()) for n in names], ctx=ast.Load()))]
        new = ast.FunctionDef(name=fn.name, args=ast.arguments(
            posonlyargs=[], args=[ast.arg(arg=a) for a in spec.get("params", {})], kwonlyargs=[], kw_defaults=[], defaults=[]),
            body=body + tail, decorator_list=[], type_params=[])
        ast.copy_location(new, fn)
        ast.fix_missing_locations(new)
        return new
    raise Untranslatable(f"slice start {sl['start']!r} not found in {spec['qual']}")


def translate_spec(spec, src_root):
    """returns (lean text, error or None)"""
    path = os.path.join(src_root, "finam", spec["path"])
    header = (f"/- GENERATED by harness/py2lean.py from finam/{spec['path']} :: {spec['qual']} — do not edit. -/\n"
              "import FinamModel.PyPrelude\nset_option linter.unusedVariables false\nnamespace Finam.Tr\nopen Finam\n\n")
    try:
        tree = ast.parse(open(path).read())
        fn = find_function(tree, spec["qual"])
        if fn is None:
            raise Untranslatable(f"function {spec['qual']} not found in {spec['path']}")
        if "slice" in spec:
            fn = slice_function(fn, spec)
        text = Tr(spec, fn).translate()
        deps = sorted({h["lean"] for h in spec.get("calls", {}).values()
                       if isinstance(h, dict) and not h["lean"].startswith("Py.")
                       and h["lean"] not in spec.get("extra_params", {})} - {spec["lean"]})
        header = header.replace("import FinamModel.PyPrelude\n", "import FinamModel.PyPrelude\n"
                                + "".join(f"import {m}\n" for m in spec.get("imports", []))
                                + "".join(f"import FinamModel.Translated.{d}\n" for d in deps))
        return header + text + "\n\nend Finam.Tr\n", None
    except (Untranslatable, SyntaxError, OSError, KeyError, IndexError, TypeError, AttributeError) as e:
        msg = f"{type(e).__name__}: {e}"
        return (header + f"/-- translation failed: {msg.replace('-/', '- /')} -/\n"
                f"def {spec['lean']}.untranslatable : Unit := ()\n\nend Finam.Tr\n"), msg


# ---------------------------------------------------------------------------------------------
# driver for the translation validation (harness/trvalidate.py)
# ---------------------------------------------------------------------------------------------
def arg_order(spec, fn):
    """the parameters of the translated definition, in order: ("field" | "param" | "extra", name, type string)"""
    out = [("field", k, v) for k, v in spec.get("fields", {}).items()]
    for a in fn.args.args:
        if a.arg == "self" or a.arg in spec.get("ignore_params", []):
            continue
        out.append(("param", a.arg, spec["params"][a.arg]))
    out += [("extra", k, v) for k, v in spec.get("extra_params", {}).items()]
    return out


DRIVER_PRELUDE = """/- GENERATED by harness/py2lean.py — do not edit.  Line-protocol driver that evaluates the translated definitions
   (translation validation, harness/trvalidate.py): {"fn": name, "args": [...]} -> {"ok": value} | {"err": class}. -/
import Lean.Data.Json
import FinamModel.DriverUtil
@@IMPORTS@@
namespace Finam.Driver.TrV
open Lean Finam Finam.Driver

class FromJ (α : Type) where
  fromJ : Json → α
class ToJ (α : Type) where
  toJ : α → Json
export FromJ (fromJ)
export ToJ (toJ)

instance : FromJ Int := ⟨asInt⟩
instance : FromJ Nat := ⟨asNat⟩
instance : FromJ Bool := ⟨asBool⟩
instance : FromJ Rat := ⟨asRat⟩
instance : FromJ Unit := ⟨fun _ => ()⟩
instance {α} [FromJ α] : FromJ (List α) := ⟨fun j => (arr j).map fromJ⟩
instance {α} [FromJ α] : FromJ (Option α) := ⟨fun j => if j.isNull then none else some (fromJ j)⟩
instance {α β} [FromJ α] [FromJ β] : FromJ (α × β) :=
  ⟨fun j => match arr j with | [a, b] => (fromJ a, fromJ b) | _ => (fromJ Json.null, fromJ Json.null)⟩

instance : ToJ Int := ⟨jInt⟩
instance : ToJ Nat := ⟨jNat⟩
instance : ToJ Bool := ⟨Json.bool⟩
instance : ToJ Rat := ⟨jRat⟩
instance : ToJ Unit := ⟨fun _ => Json.null⟩
instance {α} [ToJ α] : ToJ (List α) := ⟨fun l => Json.arr (l.map toJ).toArray⟩
instance {α} [ToJ α] : ToJ (Option α) := ⟨fun o => match o with | some x => toJ x | none => Json.null⟩
instance {α β} [ToJ α] [ToJ β] : ToJ (α × β) := ⟨fun p => Json.arr #[toJ p.1, toJ p.2]⟩
instance {α} [ToJ α] : ToJ (Except Err α) :=
  ⟨fun r => match r with | .ok v => Json.mkObj [("ok", toJ v)] | .error e => Json.mkObj [("err", Json.str e.toString)]⟩

def argAt (args : List Json) (i : Nat) : Json := args.getD i Json.null
@@HEAP@@

def handle (j : Json) : Json :=
  let args := getArr j "args"
  match getStr j "fn" with
@@CASES@@
  | _ => Json.mkObj [("bad", Json.str "fn")]

def step (line : String) : String :=
  match Json.parse line with
  | .error e => (Json.mkObj [("bad", Json.str e)]).compress
  | .ok j => (handle j).compress

end Finam.Driver.TrV
"""


def driver_source(specs, status, src_root):
    """lean/FinamModel/DriverTr.lean: one case per translated function that does not read an object graph"""
    imports, cases = [], []
    for spec in specs:
        if (spec.get("heap") or ("slice" in spec and spec.get("group") not in ("Lifecycle", "RunLoop", "Stuck"))
                or not status.get(spec["lean"], {}).get("translated")):
            continue
        if spec.get("group") == "Lifecycle":
            n = (len(spec.get("fields", {})) + len([k for k in spec.get("params", {}) if k not in spec.get("ignore_params", [])])
                 + len(spec.get("extra_params", {})))
            imports.append(f"import FinamModel.Translated.{spec['lean']}")
            cases.append(f'  | "{spec["lean"]}" => toJ (Tr.{spec["lean"]} ' + " ".join(f"(fromJ (argAt args {i}))" for i in range(n)) + ")")
            continue
        if spec.get("group") == "Info":
            # the relations of the package (compatible_with, compatible_units, masks_equal) come as tables
            imports.append(f"import FinamModel.Translated.{spec['lean']}")
            me = ("(fun a b g1 g2 => Except.ok (((fromJ (argAt args K)) : List ((Option Int × Option Int) × (Option Nat × Option Nat)))"
                  ".contains ((a, b), (g1, g2))))")
            if spec["lean"] == "masks_compatible":
                cases.append('  | "masks_compatible" => toJ (Tr.masks_compatible (fromJ (argAt args 0)) (fromJ (argAt args 1)) '
                             '(fromJ (argAt args 2)) (fromJ (argAt args 3)) (fromJ (argAt args 4)) ' + me.replace("K", "5") + ")")
            elif spec["lean"] == "Info_accepts":
                cases.append('  | "Info_accepts" => toJ (Tr.Info_accepts (fromJ (argAt args 0)) (fromJ (argAt args 1)) (fromJ (argAt args 2)) '
                             '(fromJ (argAt args 3)) (fromJ (argAt args 4)) (fromJ (argAt args 5)) (fromJ (argAt args 6)) '
                             '(fun g h => ((fromJ (argAt args 7)) : List (Nat × Option Nat)).contains (g, h)) '
                             '(fun a b => ((fromJ (argAt args 8)) : List (Nat × Nat)).contains (a, b)) ' + me.replace("K", "9") + ")")
            continue
        if spec.get("group") == "Regrid":
            imports.append(f"import FinamModel.Translated.{spec['lean']}")
            me = ("(fun a b g1 g2 => Except.ok (((fromJ (argAt args K)) : List ((Option Int × Option Int) × (Option Nat × Option Nat)))"
                  ".contains ((a, b), (g1, g2))))")
            if spec["lean"] == "ARegridding__check_and_set_out_mask":
                cases.append('  | "ARegridding__check_and_set_out_mask" => toJ (Tr.ARegridding__check_and_set_out_mask (fromJ (argAt args 0)) '
                             '(fromJ (argAt args 1)) (fromJ (argAt args 2)) ' + me.replace("K", "3") + ")")
            elif spec["lean"] == "ARegridding__get_info":
                # `a != b` of two grids, `x.crs` (no such attribute / the id of the CRS) as tables from the live objects
                cases.append('  | "ARegridding__get_info" => toJ (Tr.ARegridding__get_info ' + " ".join(f"(fromJ (argAt args {i}))" for i in range(11))
                             + ' (fun a b => match a, b with | some x, some y => ((fromJ (argAt args 11)) : List (Nat × Nat)).contains (x, y) | _, _ => false)'
                               ' (fun g => match g with | none => Except.error Err.other | some k => '
                               'if ((fromJ (argAt args 12)) : List Nat).contains k then Except.error Err.other '
                               'else Except.ok ((((fromJ (argAt args 13)) : List (Nat × Nat)).lookup k))) ' + me.replace("K", "14") + ")")
            continue
        if spec["lean"] == "run_loop":
            # the world is a script: per round the table (time, FINISHED) of the time components before the update and the
            # component `_update_recursive` answered with, then the table after the last update; the components the loop hands
            # to `_update_recursive` are recorded
            imports.append("import FinamModel.Translated.run_loop")
            cases.append('  | "run_loop" => toJ ((Tr.run_loop (φ := List (List (Nat × (Int × Bool)) × Nat) × List Nat) '
                         '((fromJ (argAt args 0)), []) (fromJ (argAt args 1)) (fromJ (argAt args 2)) '
                         '(fun w m => match w.1 with | (tab, _) :: _ => ((tab.lookup m).map (·.1)).getD 0 | [] => 0) '
                         '(fun w m => match w.1 with | (tab, _) :: _ => ((tab.lookup m).map (·.2)).getD false | [] => false) '
                         '(fun w c => match w.1 with | (_, u) :: rest => if rest.isEmpty then Except.error Err.other '
                         'else Except.ok (u, (rest, w.2 ++ [c])) | [] => Except.error Err.other) '
                         '(fun _ _ => Except.ok ()) (fromJ (argAt args 3))).map (fun w => (w.2, w.1.length)))')
            continue
        if spec.get("group") == "Stuck":
            imports.append(f"import FinamModel.Translated.{spec['lean']}")
            cases.append(f'  | "{spec["lean"]}" => toJ (Tr.{spec["lean"]} (fromJ (argAt args 0)) (fromJ (argAt args 1)))')
            continue
        if spec.get("group") == "Linking":
            # `isinstance(x, IOutput)` / `isinstance(x, IInput)`: the list of the objects that are
            imports.append(f"import FinamModel.Translated.{spec['lean']}")
            cases.append(f'  | "{spec["lean"]}" => toJ (Tr.{spec["lean"]} (fromJ (argAt args 0)) (fromJ (argAt args 1)) '
                         '(fun x => ((fromJ (argAt args 2)) : List Nat).contains x))')
            continue
        if spec.get("group") == "AdapterInfo":
            # an Info is an integer id; the source answers from a table: (request, delivered) / (request, none) = it raises
            imports.append(f"import FinamModel.Translated.{spec['lean']}")
            cases.append(f'  | "{spec["lean"]}" => toJ (Tr.{spec["lean"]} (α := Int) (fromJ (argAt args 0)) (fromJ (argAt args 1)) '
                         '(fromJ (argAt args 2)) (fun r => match ((fromJ (argAt args 3)) : List (Int × Option Int)).lookup r with '
                         '| some (some d) => Except.ok d | some none => Except.error Err.metaErr | none => Except.error Err.other))')
            continue
        if spec.get("group") == "Canonical":
            # arrays travel as (shape, elements in C order)
            imports.append(f"import FinamModel.Translated.{spec['lean']}")
            cases.append(f'  | "{spec["lean"]}" => toJ ((Tr.{spec["lean"]} (α := Int) (fromJ (argAt args 0)) (fromJ (argAt args 1)) '
                         '(fromJ (argAt args 2)) (let p : List Nat × List Int := fromJ (argAt args 3); Finam.Arr.ofFlat Finam.Order.C p.1 p.2 0))'
                         '.map (fun r => (r.shape, r.flat Finam.Order.C)))')
            continue
        if spec.get("group") == "GridMemo":
            imports.append(f"import FinamModel.Translated.{spec['lean']}")
            if spec["lean"] == "RectilinearGrid_set_data_location":
                # `_check_location`: the valid locations of the grid as a list
                cases.append('  | "RectilinearGrid_set_data_location" => toJ (Tr.RectilinearGrid_set_data_location (fromJ (argAt args 0)) '
                             '(fromJ (argAt args 1)) (fromJ (argAt args 2)) (fromJ (argAt args 3)) '
                             '(fun l => if ((fromJ (argAt args 4)) : List Nat).contains l then Except.ok l else Except.error Err.other))')
            else:
                cases.append(f'  | "{spec["lean"]}" => toJ (Tr.{spec["lean"]} (fromJ (argAt args 0)) (fromJ (argAt args 1)))')
            continue
        if spec.get("group") == "MaskRules":
            imports.append(f"import FinamModel.Translated.{spec['lean']}")
            me = ("(fun a b g1 g2 => Except.ok (((fromJ (argAt args 5)) : List ((Option Int × Option Int) × (Option Nat × Option Nat)))"
                  ".contains ((a, b), (g1, g2))))")
            cases.append('  | "masks_compatible_rules" => toJ (Tr.masks_compatible_rules (fromJ (argAt args 0)) (fromJ (argAt args 1)) '
                         '(fromJ (argAt args 2)) (fromJ (argAt args 3)) (fromJ (argAt args 4)) ' + me + ")")
            continue
        if spec.get("group") == "GridCompat":
            # `np.allclose` on two axes: exact equality (the validation uses exactly representable coordinates)
            imports.append(f"import FinamModel.Translated.{spec['lean']}")
            first = " ".join(f"(fromJ (argAt args {i}))" for i in range(15))
            if spec["lean"] == "StructuredGrid_compatible_with":
                cases.append('  | "StructuredGrid_compatible_with" => toJ (Tr.StructuredGrid_compatible_with ' + first + " (fun a b => a == b))")
            elif spec["lean"] == "StructuredGrid___eq__":
                cases.append('  | "StructuredGrid___eq__" => toJ (Tr.StructuredGrid___eq__ ' + first + " (fun a b => a == b) (fromJ (argAt args 15)))")
            else:
                cases.append(f'  | "{spec["lean"]}" => toJ (Tr.{spec["lean"]} (fromJ (argAt args 0)) (fromJ (argAt args 1)))')
            continue
        if spec["lean"] == "connect_components":
            # `comp.connect`: scripted — the world holds, per component, the statuses its further connect calls will report
            imports.append("import FinamModel.Translated.connect_components")
            cases.append('  | "connect_components" => toJ (Tr.connect_components (φ := List (Nat × List Int)) (fromJ (argAt args 0)) (fromJ (argAt args 1)) '
                         '(fromJ (argAt args 2)) (fun w st c => match w.lookup c with '
                         '| some (s :: rest) => Except.ok (Py.dictSet st c s, (w.filter (fun p => p.1 != c)) ++ [(c, rest)]) '
                         '| _ => Except.error Err.other) (fromJ (argAt args 3)))')
            continue
        if spec["lean"] == "TimeDelayAdapter_get_data":
            # `with_delay` of the subclass: the translated `DelayFixed.with_delay` with the adapter's delay and initial time
            imports.append("import FinamModel.Translated.TimeDelayAdapter_get_data")
            imports.append("import FinamModel.Translated.DelayFixed_with_delay")
            cases.append('  | "TimeDelayAdapter_get_data" => toJ (Tr.TimeDelayAdapter_get_data (α := Int) (fromJ (argAt args 0)) (fromJ (argAt args 1)) '
                         '(fromJ (argAt args 2)) (fromJ (argAt args 3)) (Tr.DelayFixed_with_delay (fromJ (argAt args 4)) (fromJ (argAt args 5))) (fromJ (argAt args 6)))')
            continue
        if spec.get("group") == "Spill":
            # stored entries are integers (even: a quantity, odd: the file `2 n + 1` = "<id>-<n>.npy"), the disk a list of
            # (file, content) pairs; `nbytes` / "is a masked array" come as tables from the live objects
            imports.append(f"import FinamModel.Translated.{spec['lean']}")
            isf = "(fun (x : Int) => x % 2 == 1)"
            nb = "(fun (x : Int) => (((fromJ (argAt args K)) : List (Int × Int)).lookup x).getD 0)"
            rm = ("(fun (fs : List (Int × Int)) (x : Int) => if fs.any (fun p => p.1 == x) then Except.ok (fs.filter (fun p => p.1 != x)) "
                  "else Except.error Err.other)")
            if spec["lean"] == "Output__pack":
                cases.append('  | "Output__pack" => toJ (Tr.Output__pack (α := Int) (φ := List (Int × Int)) (fromJ (argAt args 0)) (fromJ (argAt args 1)) '
                             '(fromJ (argAt args 2)) (fromJ (argAt args 3)) (fromJ (argAt args 4)) ' + nb.replace("K", "5")
                             + ' (fun x => ((fromJ (argAt args 6)) : List Int).contains x) (fun n _ => 2 * n + 1) '
                               '(fun fs fn d => Except.ok (fs.filter (fun p => p.1 != fn) ++ [(fn, d)])))')
            elif spec["lean"] == "Output__unpack":
                cases.append('  | "Output__unpack" => toJ (Tr.Output__unpack (α := Int) (φ := List (Int × Int)) (fromJ (argAt args 0)) (fromJ (argAt args 1)) '
                             + isf + ' (fun fs x => match fs.lookup x with | some d => Except.ok d | none => Except.error Err.other))')
            elif spec["lean"] == "Output__clear_data_files":
                cases.append('  | "Output__clear_data_files" => toJ (Tr.Output__clear_data_files (α := Int) (φ := List (Int × Int)) '
                             + " ".join(f"(fromJ (argAt args {i}))" for i in range(6)) + " " + isf + " " + nb.replace("K", "6") + " " + rm + ")")
            elif spec["lean"] == "TimeCachingAdapter__clear_cached_data_files":
                cases.append('  | "TimeCachingAdapter__clear_cached_data_files" => toJ (Tr.TimeCachingAdapter__clear_cached_data_files (α := Int) '
                             '(φ := List (Int × Int)) ' + " ".join(f"(fromJ (argAt args {i}))" for i in range(4)) + " " + isf + " "
                             + nb.replace("K", "4") + " " + rm + ")")
            elif spec["lean"] == "TimeCachingAdapter__unpack":
                cases.append('  | "TimeCachingAdapter__unpack" => toJ (Tr.TimeCachingAdapter__unpack (α := Int) (φ := List (Int × Int)) '
                             '(fromJ (argAt args 0)) (fromJ (argAt args 1)) ' + isf
                             + ' (fun fs x => match fs.lookup x with | some d => Except.ok d | none => Except.error Err.other))')
            elif spec["lean"] == "TimeCachingAdapter__finalize":
                cases.append('  | "TimeCachingAdapter__finalize" => toJ (Tr.TimeCachingAdapter__finalize (α := Int) (φ := List (Int × Int)) '
                             '(fromJ (argAt args 0)) (fromJ (argAt args 1)) ' + isf + " " + rm + ")")
            elif spec["lean"] == "Output_finalize":
                cases.append('  | "Output_finalize" => toJ (Tr.Output_finalize (α := Int) (φ := List (Int × Int)) (fromJ (argAt args 0)) '
                             '(fromJ (argAt args 1)) ' + isf + " " + rm + ")")
            continue
        if spec.get("group") == "Exchange":
            imports.append(f"import FinamModel.Translated.{spec['lean']}")
            me = ("(fun a b g1 g2 => Except.ok (((fromJ (argAt args 15)) : List ((Option Int × Option Int) × (Option Nat × Option Nat)))"
                  ".contains ((a, b), (g1, g2))))")
            if spec["lean"] == "Input_exchange_info":
                cases.append('  | "Input_exchange_info" => toJ (Tr.Input_exchange_info ' + " ".join(f"(fromJ (argAt args {i}))" for i in range(9))
                             + ' (fun g h => ((fromJ (argAt args 9)) : List (Nat × Option Nat)).contains (g, h)) '
                               '(fun a b => ((fromJ (argAt args 10)) : List (Nat × Nat)).contains (a, b)) ' + me.replace("15", "11") + ")")
            if spec["lean"] == "Output_get_info":
                cases.append('  | "Output_get_info" => toJ (Tr.Output_get_info ' + " ".join(f"(fromJ (argAt args {i}))" for i in range(13))
                             + ' (fun g h => ((fromJ (argAt args 13)) : List (Nat × Option Nat)).contains (g, h)) '
                               '(fun a b => ((fromJ (argAt args 14)) : List (Nat × Nat)).contains (a, b)) ' + me + ")")
            continue
        if spec.get("group") == "Units":
            imports.append(f"import FinamModel.Translated.{spec['lean']}")
            cases.append(f'  | "{spec["lean"]}" => toJ (Tr.{spec["lean"]} (fromJ (argAt args 0)) (fromJ (argAt args 1)) '
                         f'(fromJ (argAt args 2)) (fromJ (argAt args 3)))')
            continue
        try:
            tree = ast.parse(open(os.path.join(src_root, "finam", spec["path"])).read())
            fn = find_function(tree, spec["qual"])
            order = arg_order(spec, fn)
        except Exception:  # noqa
            continue
        generic = any(uses_val(parse_type(t)) for _k, _n, t in order) or uses_val(parse_type(spec.get("ret", "Unit")))
        # a parameter that stands for untranslated code by slot name (`Nat → Option Nat`) comes as a table
        args = " ".join((f"(fun k => ((fromJ (argAt args {i})) : List (Nat × Nat)).lookup k)" if t == "Lean:(Nat → Option Nat)"
                         else f"(fun k => ((fromJ (argAt args {i})) : List Nat).contains k)" if t == "Lean:(Nat → Bool)"
                         else f"(fromJ (argAt args {i}))") for i, (_k, _n, t) in enumerate(order))
        call = f"Tr.{spec['lean']}" + (" (α := Int)" if generic else "")
        imports.append(f"import FinamModel.Translated.{spec['lean']}")
        cases.append(f'  | "{spec["lean"]}" => toJ ({call} {args})')
    heap_block = ""
    need = ["find_dependencies", "update_recursive", "DelayFixed_with_delay", "DelayToPull_with_delay", "DelayToPush_with_delay"]
    if all(status.get(n, {}).get("translated") for n in need):
        for n in need:
            imp = f"import FinamModel.Translated.{n}"
            if imp not in imports:
                imports.append(imp)
        heap_block = HEAP_BLOCK
        cases.append('  | "find_dependencies" => toJ (Tr.find_dependencies (heapOfJson (argAt args 0)) (fromJ (argAt args 1)) (fromJ (argAt args 2)))')
        cases.append('  | "update_recursive" => toJ (Tr.update_recursive (heapOfJson (argAt args 0)) (fromJ (argAt args 1)) (fromJ (argAt args 2)) [] none)')
        for n in ("collect_adapters_input", "collect_adapters_output"):
            if status.get(n, {}).get("translated"):
                imports.append(f"import FinamModel.Translated.{n}")
                cases.append(f'  | "{n}" => let hp := heapOfJson (argAt args 0); toJ (Tr.{n} hp (hp.size + 1) (fromJ (argAt args 1)) [])')
        if status.get("collect_adapters", {}).get("translated"):
            imports.append("import FinamModel.Translated.collect_adapters")
            cases.append('  | "collect_adapters" => toJ (Tr.collect_adapters (heapOfJson (argAt args 0)) (fromJ (argAt args 1)) [])')
        for n in ("check_input_connected", "check_dead_links", "check_branching"):
            if status.get(n, {}).get("translated"):
                imports.append(f"import FinamModel.Translated.{n}")
                cases.append(f'  | "{n}" => toJ (Tr.{n} (heapOfJson (argAt args 0)) (fromJ (argAt args 1)))')
        if status.get("validate_composition", {}).get("translated"):
            imports.append("import FinamModel.Translated.validate_composition")
            cases.append('  | "validate_composition" => toJ (Tr.validate_composition (heapOfJson (argAt args 0)) (fromJ (argAt args 1)))')
        for n in ("map_inputs", "map_outputs"):
            if status.get(n, {}).get("translated"):
                imports.append(f"import FinamModel.Translated.{n}")
                cases.append(f'  | "{n}" => toJ (Tr.{n} (heapOfJson (argAt args 0)) (fromJ (argAt args 1)))')
        if status.get("metadata_links", {}).get("translated"):
            imports.append("import FinamModel.Translated.metadata_links")
            cases.append('  | "metadata_links" => toJ (Tr.metadata_links (heapOfJson (argAt args 0)) (fromJ (argAt args 1)) '
                         '(fromJ (argAt args 2)) (fromJ (argAt args 3)))')
        for n in ("collect_inputs_outputs", "check_missing_components"):
            if status.get(n, {}).get("translated"):
                imports.append(f"import FinamModel.Translated.{n}")
                cases.append(f'  | "{n}" => toJ (Tr.{n} (heapOfJson (argAt args 0)) (fromJ (argAt args 1)))')
    return (DRIVER_PRELUDE.replace("@@IMPORTS@@", "\n".join(imports)).replace("@@HEAP@@", heap_block)
            .replace("@@CASES@@", "\n".join(cases)))


HEAP_BLOCK = """
/-- attribute tables extracted from live Python objects (harness/trvalidate.py) as a `Py.Heap`; `with_delay` of the
    delay adapters is evaluated with the *translated* `with_delay` functions -/
def tbl {α} [FromJ α] (j : Json) (k : String) (dflt : α) : Nat → α :=
  let l : List α := (getArr j k).map fromJ
  fun i => l.getD i dflt

def delayOf (j : Json) : Nat → Int → Int :=
  let l := getArr j "delay"
  fun i t =>
    match arr (l.getD i Json.null) with
    | [k, a, b] =>
      if asStr k == "dfix" then (Tr.DelayFixed_with_delay (asInt a) (asInt b) t).toOption.getD t
      else if asStr k == "dpush" then (Tr.DelayToPush_with_delay (fromJ a) (asInt b) t).toOption.getD t
      else t
    | [k, p, a, b] =>
      if asStr k == "dpull" then ((Tr.DelayToPull_with_delay (fromJ p) (asInt b) (asInt a) t).toOption.map (·.1)).getD t
      else t
    | _ => t

def heapOfJson (j : Json) : Py.Heap :=
  { isInput := tbl j "isInput" false, isOutput := tbl j "isOutput" false, isAdapter := tbl j "isAdapter" false,
    isNoDep := tbl j "isNoDep" false, isDelay := tbl j "isDelay" false, isNoBranch := tbl j "isNoBranch" false,
    isTimeComp := tbl j "isTimeComp" false, needsPush := tbl j "needsPush" false, needsPull := tbl j "needsPull" false,
    isStatic := tbl j "isStatic" false, finished := tbl j "finished" false, hasSource := tbl j "hasSource" false,
    source := tbl j "source" 0, time := tbl j "time" 0, nextTime := tbl j "nextTime" 0, withDelay := delayOf j,
    owner := tbl j "owner" 0, inputs := tbl j "inputs" [], outputs := tbl j "outputs" [], targets := tbl j "targets" [],
    size := getNat j "size" }
"""
