"""Writes MANIFEST.json from the per-property descriptions below (kept in one place so that the
manifest stays valid while properties are added)."""
import json
import os

VERIF = os.path.dirname(os.path.dirname(os.path.abspath(__file__)))

NOTE = ("Trusted: Lean 4.33 kernel; axioms propext/Classical.choice/Quot.sound only; the theorem statements; "
        "the hand-written model to the extent the correspondence run exercises it; extractor, canonicaliser, "
        "tolerances; CPython/numpy/pint/scipy. Modelled rather than verified: the Python code itself.")

CHECKS = {
    "C05": {
        "engine": "sched",
        "text": ("Lean theorems: connect_order_independent (two listings of one composition: same success/failure, same "
                 "exchanged set = least fixed point of the exchange rules, same reported components), lookup_append_stable "
                 "(an answer an output can already give is not changed by later publications) with C09's refinement (nor by "
                 "earlier evictions), and the run-phase theorems listed in the evidence file (every theorem of namespaces "
                 "Props.C05*). Tied to schedule.py, connect_helper.py, sdk/output.py, sdk/input.py by running every generated "
                 "composition through the real package under all / sampled permutations of the component list and of link "
                 "creation (metamorphic oracle: same outcome class, exchanged metadata, final times, full received series with "
                 "values that depend on pulled values) and through the Lean run loop / connect loop per permutation "
                 "(correspondence on outcome, final times, statuses). One known finding (end time not after the start times: "
                 "the single unconditional update of the do-while run loop goes to the first-listed component)."),
        "design_ref": "5/C05",
        "technique": "Lean 4 proof (least-fixed-point confluence of the connect rules; induction over publication histories; invariants of the run loop) + model/implementation correspondence under permutations",
    },
    "C20": {
        "engine": "sched",
        "text": ("Lean theorems: static_out_once / static_history (one publication, served for every request time incl. "
                 "none, further publications refused — over every op history), static_in_cached, ready_through_pull (the "
                 "scheduling guarantee of updateRec_sound extends through pull-based components, recursively), "
                 "provider_pulls_same_time, weighted_sum_value and weighted_sum_repeated_request (the memo never blocks a "
                 "request). Tied to sdk/output.py, sdk/input.py, components/mergers.py, schedule.py by three "
                 "correspondences (static slot histories; compositions reading through one or two pull-based components, "
                 "incl. two-output components and diamonds; WeightedSum with mixed units and consumers asking for the "
                 "same time) plus implementation-only oracles."),
        "design_ref": "5/C20",
        "technique": "Lean 4 proof (induction over op histories; inversion of the availability relation) + model/implementation correspondence",
    },
    "C13": {
        "engine": "sched",
        "text": ("Lean theorems: dfix_request (= max(t-d, start)), dpull_request (request-table invariant by induction over "
                 "the request history: the table holds the last n of start::requests, its head is the n-th previous "
                 "request; forwarded time = min(t, max(nthPrev - extra, start))), dpush_request (= min(t, newest)), "
                 "dfix_compose / chain_delays_add (delays of chained adapters add up, also across pass-through adapters), "
                 "sched_assumed_eq_actual (walk = reach on delay chains). Tied to adapters/time.py, sdk/adapter.py and "
                 "schedule.py by a link-level correspondence (time reaching Output.get_data, publication served) and a "
                 "driver-level correspondence/oracle (src(1h) >> chain >> cons: the driver waits for exactly the shifted time); "
                 "oracle = the adapters' documented definitions composed in Python."),
        "design_ref": "5/C13",
        "technique": "Lean 4 proof (invariant over request histories; induction over adapter chains) + model/implementation correspondence",
    },
    "C01": {
        "engine": "sched",
        "text": ("Lean theorems: walk_eq_need (the time checked by _find_dependencies equals the semantic requirement of the "
                 "data path for every adapter chain), updateRec_sound (whatever _update_recursive updates is an unfinished "
                 "time component whose inputs, also through pull-based components, can be served for its announced pull "
                 "time - every graph, state, fuel), need_sufficient / need_necessary (the requirement is exactly what the "
                 "range check of the answering element demands), and at run level run_pulls_ok: on the network model "
                 "(scheduler state + one bounded Output history with eviction per output) every pull performed inside an "
                 "update of any run is answered ok - no time-range error, no no-data error, served from inside the published "
                 "range - by composing updateRec_sound, need_direct and C09's eviction invariant (update_pulls_ok preserves "
                 "the network invariant NInv), and run_pulls_okC extends it to links with a push-based (time-caching) adapter: "
                 "the adapter is a relay node with its own bounded buffer that pulls the source when notified; every pull of "
                 "the consumers and every pull of the notified adapters is answered ok (update_pulls_okC: three phases - "
                 "pulls, publications, notification of the relays by induction over the relay list). Scope: time-stepped "
                 "components, one push-based adapter per link, pass-through adapters upstream and pass-through / fixed-delay "
                 "adapters downstream of it; links behind DelayToPush (which cuts the dependency, so the guarantee cannot come from "
                 "the driver): C01Dpush.dpush_pulls_never_fail - along every admissible history of one output (publications, "
                 "pulls and evictions by other end points) every pull through DelayToPush is answered. Tied to schedule.py / sdk/output.py / adapters by (i) the update-sequence correspondence "
                 "of real Composition.run against the model's run loop and (ii) a network correspondence: the retained "
                 "history length of every output - and of every push-based adapter's buffer - after every update of real runs "
                 "against netRunLoop / netRunLoopC; plus an "
                 "implementation-only oracle (no failing pulls). Three known findings are recorded "
                 "(integration-zero-length-repeat, pull-fanout-eviction, dpull-repeated-pull)."),
        "design_ref": "5/C01",
        "technique": "Lean 4 proof (mutual induction over the dependency walk; induction over adapter chains; network invariant composed with the eviction refinement) + model/implementation correspondence",
    },
    "C02": {
        "engine": "sched",
        "text": ("Lean theorems: select_least (the component handed to _update_recursive is a time component of minimal "
                 "time, the first such in the listing), updateRec_chain (whatever is updated is reached from it along a "
                 "chain of recorded dependencies each of which lags or leads through a pull-based component), "
                 "findDeps_mem_link (every recorded dependency is a non-static link whose requirement, delays "
                 "accumulated, is the recorded time), walk_eq_need (assumed time = required time), with C04's "
                 "lagging_never_updated and C01's need_necessary for 'no further than a dependant requires'. Tied to "
                 "schedule.py by the update-sequence correspondence (exact tie-break included) and an oracle on the "
                 "implementation trace: every update is of a least-advanced component or of one upstream of it along "
                 "dependencies that lag w.r.t. the observed requests."),
        "design_ref": "5/C02",
        "technique": "Lean 4 proof (induction over the listing scan, mutual induction over the dependency walk, induction over adapter chains) + model/implementation correspondence",
    },
    "C03": {
        "engine": "sched",
        "text": ("Lean theorems: run_terminates (for every composition - cycles, pull-based components, all adapters - with "
                 "positive bounded steps and non-negative delays the run loop performs at most "
                 "sum_c max(0, end + (#components+2)*maxstep - time_c) updates: whatever the driver updates lies on a chain "
                 "of fewer than #components+1 lagging dependencies from a component behind the end time, so it is below "
                 "that bound, and each update lowers the potential), run_terminates_idle (nothing behind the end time: "
                 "exactly one update), updateRec_fuel_enough (the dependency walk never runs out of fuel), final_times "
                 "(the loop ends only when no time component is running), update_time_strict_mono, lifecycle_order / "
                 "lifecycle_ends_finalized (the call order projects to initialize connect+ validate update* finalize per "
                 "component and passes every status check), adapters_finalized_once; on the code regenerated from "
                 "sdk/component.py and schedule.py (Component.initialize/connect/validate/update/finalize, _check_status and "
                 "its call sites with their literal status lists): tr_site_* (= the status automaton lcStep), "
                 "code_lifecycle_run, code_failed_hook_raises; the translation is validated exhaustively (every status x "
                 "every hook behaviour) on the real methods, Composition.__init__ and _finalize_components; and on the regenerated "
                 "_collect_adapters_input / _collect_adapters_output / Composition._collect_adapters: "
                 "code_adapters_collected_once (the finalized set holds every adapter above an input or below an output exactly "
                 "once), validated on live coupling forests. Tied to schedule.py / "
                 "sdk/component.py by the update-sequence correspondence and a life-cycle oracle on real runs (incl. "
                 "adapters that fan out to several inputs)."),
        "design_ref": "5/C03",
        "technique": "Lean 4 proof (potential function over the run loop, bounded chain length, finite status automaton) + model/implementation correspondence",
    },
    "C04": {
        "engine": "sched",
        "text": ("Lean theorems: updateRec_fuel_enough (no unbounded recursion for any graph), circular_sound (a reported "
                 "cycle is a genuine reachable cycle of lagging dependencies, through pull-based components too), "
                 "lagging_never_updated (no silently wrong schedule), no_lag_cycle_of_delay_sum_partial (ring algebra at "
                 "snapshot level), and at run level sufficient_delay_run_completes: when every cycle carries enough delay "
                 "(stated by a potential pi with pi(p) + maxstep(c) - delay(link) <= pi(c) on every link, equivalent to "
                 "'delay on each cycle >= sum of its largest steps', delay = accumulated DelayFixed delays that take effect "
                 "on the request, wherever placed and however split) the level time+pi strictly decreases along every edge "
                 "of the dependency walk (edge_level), so no lag cycle exists (no_lag_cycle), no circular-coupling error is "
                 "ever raised (no_circular), and with C03Run.run_terminates the run ends normally. Scope of that run-level "
                 "theorem: time-stepped components, adapters pass-through / push-based / no-dependency / fixed delay. "
                 "C04RunP.sufficient_delay_run_completesP extends it to compositions with pull-based components on the "
                 "cycles (a pull-based component takes the smallest potential its readers allow; the walk's level is "
                 "carried through it), under UniqueConsumer: every pull-based component is read by one component. The "
                 "proof attempt without that hypothesis fails, and the failing case is real: known finding "
                 "pull-reentry-circular (C04RunP.pull_reentry_witness; the package raises the circular-coupling error on "
                 "T(2) >> P(pull) >> DelayFixed(3) >> T plus a second reader of P). Tied "
                 "to schedule.py by the correspondence on rings (pull components, chords, tails, feeders; outcome class, "
                 "update sequence) and the oracle (unresolved => circular-coupling error; resolved => completes). The "
                 "connect-phase stall is C06's."),
        "design_ref": "5/C04",
        "technique": "Lean 4 proof (pigeonhole on the chain; induction over the walk; strictly decreasing potential along lag edges; termination potential) + model/implementation correspondence",
    },
    "C08": {
        "engine": "link",
        "text": ("Lean theorems over the link model (served entry is a nearest publication; exactly the requests in "
                 "[oldest, newest] are served, others get a time error; prepare's shape normalisation yields 1 :: data_shape "
                 "with flat payloads landing in grid order; pulled values are the affine unit conversion of the nearest "
                 "publication, never delivered for incompatible units; same-buffer publications refused), tied to "
                 "sdk/output.py, sdk/input.py, data/tools/core.py by a differential correspondence run over real "
                 "Output>>Input links plus an implementation-only oracle (brute-force nearest, exact fractions)."),
        "design_ref": "5/C08",
        "technique": "Lean 4 proof (induction over the publication history; case analysis of prepare) + model/implementation correspondence",
    },
    "C09": {
        "engine": "link",
        "text": ("Lean theorems over the output-history model (refinement of the bounded output to an output with "
                 "unlimited history for every event history and any number of end points; the retention bound; "
                 "registration = requester), tied to sdk/output.py and sdk/adapter.py by a differential "
                 "correspondence run on real Output/Input/adapter objects plus an implementation-only oracle."),
        "design_ref": "5/C09",
        "technique": "Lean 4 proof (invariant + refinement by induction over event histories) + model/implementation correspondence",
    },
    "C10": {
        "engine": "link",
        "text": ("Lean theorems over the spill model (Spill.lean: _pack with the limit test, _unpack, file removal on "
                 "eviction and at finalize, the read path of each of the eight buffering slot kinds with _unpack where the "
                 "code calls it): spill_transparent (for every slot kind, limit, location and event history the answers equal "
                 "those of the same slot holding everything in RAM, hence the run without a limit), files_under_location, "
                 "created_under_location, finalize_leaves_no_files, mem_accounting; tied to sdk/output.py, adapters/time.py, "
                 "adapters/time_integration.py and schedule.py by a differential run on real Output/adapter/Input links "
                 "(limits at every prefix position, plain and masked payloads, directory listing after every event) and on "
                 "real Composition runs with slot_memory_limit/location, plus an implementation-only oracle."),
        "design_ref": "5/C10",
        "technique": "Lean 4 proof (simulation of the spilling slot by the all-in-RAM slot, file-system invariant) + model/implementation correspondence",
    },
    "C11": {
        "engine": "link",
        "text": ("Lean theorems over the time-adapter model (TimeAdapters.lean: buffer fed on notification, check_time range, "
                 "the _interpolate bodies of NextTime/PreviousTime/LinearTime/StepTime, _clear_cached_data): next_spec, "
                 "prev_spec, linear_spec, step_spec (every answer of the evicting adapter equals the mathematical definition "
                 "on the full publication history for every non-decreasing request sequence), exact_at_publication, "
                 "out_of_range_timeErr, cache_evict_invariant; tied to adapters/time.py by a differential run on real "
                 "Output >> adapter >> Input links (irregular histories, k/8 step positions, scalar and gridded payloads) "
                 "plus an exact-rational implementation-only oracle."),
        "design_ref": "5/C11",
        "technique": "Lean 4 proof (refinement to a closed-form specification, invariant over event histories) + model/implementation correspondence",
    },
    "C12": {
        "engine": "link",
        "text": ("Lean theorems over the integration-adapter model (Integration.lean: _source_updated/_prev_time, the "
                 "per-interval loop of AvgOverTime/SumOverTime with trapezoid / two-piece step area, clamps, per_time, "
                 "initial interval, lagging eviction): sum_eq_integral and avg_eq_integral_div against an independently "
                 "defined piecewise integral (antiderivative differences) of the interpolant of the full history, "
                 "sum_additive / partition_independent, avg_in_range, evict_invariant; tied to "
                 "adapters/time_integration.py by a differential run on real links (finer/coarser/incommensurable "
                 "partitions, linear and step k/8, per-time and absolute, several units) plus an exact-rational oracle. "
                 "Unit algebra (pint) is checked by the oracle, not modelled."),
        "design_ref": "5/C12",
        "technique": "Lean 4 proof (loop invariant + field arithmetic over Rat, refinement over event histories) + model/implementation correspondence",
    },
    "C19": {
        "engine": "validate",
        "text": ("Lean theorems over the topology model (coupling forest of outputs, adapters and inputs carrying the class "
                 "flags of the regenerated table): _validate_composition raises iff one of the property's clauses holds "
                 "(unconnected input, static input from non-static output, pull-needing element upstream of a push-needing "
                 "one, fan-out at or below a no-branch adapter, slot of an unlisted component) for forests of any size and "
                 "any listing order; rejection precedes every exchange; the reported link list is exactly the links of the "
                 "composition's trees. Tied to schedule.py by a differential correspondence run through real "
                 "Composition.connect() on random topologies plus an oracle that evaluates the clauses on the case description."),
        "design_ref": "5/C19",
        "technique": "Lean 4 proof (mutual structural induction over coupling trees; loop invariant of the dead-link scan) + model/implementation correspondence",
    },
    "C14": {
        "engine": "grid",
        "text": ("Lean theorems over the structured-grid model (n-dimensional ravel/unravel maps; gen_points, data_axes, "
                 "data_shape, gen_cells incl. the C-order remapping, cell centres, unstructured cast; the data_shape/data_size "
                 "memo as a state machine): for every axes list, order, axes_reversed, direction flags and location the "
                 "coordinate read off data_axes at multi-index i equals data_points[ravel_order(i)]; cells reference existing "
                 "points; a cell centre is the mean of its nodes; the unstructured cast keeps all of it; for every history of "
                 "reads, copies, casts and location changes the memoising grid answers like a memo-free specification. Tied to "
                 "data/grid_base.py, grid_spec.py, grid_tools.py by a differential run over the product of configurations and "
                 "random operation histories on real grid objects plus an implementation-only oracle."),
        "design_ref": "5/C14",
        "technique": "Lean 4 proof (induction over the shape list; div/mod algebra of the cell tables; refinement of the memo state machine) + model/implementation correspondence",
    },
    "C15": {
        "engine": "grid",
        "text": ("Lean theorems over the canonical-form model (to_canonical/from_canonical as index maps: transpose, per-axis "
                 "flip, time axis moves; compatible_with; get_transform_to): the two conversions are mutually inverse; canonical "
                 "element [ix,iy,iz] is the value located at the increasing axes' coordinates; compatible_with holds exactly for "
                 "equal location kind and equal axes; the transform between compatible layouts, with a leading time axis, "
                 "delivers every element at the coordinate it had in the source; equal layouts pass through. Tied to "
                 "data/grid_base.py and sdk/input.py by a differential run over all pairs of layouts (direct and through a real "
                 "Output>>Input link, plain and masked) plus an oracle that locates every value through data_points."),
        "design_ref": "5/C15",
        "technique": "Lean 4 proof (index-map algebra over lists of any rank) + model/implementation correspondence",
    },
    "C18": {
        "engine": "grid",
        "text": ("Lean theorems over the mask model (to_compressed/from_compressed as flat compress/scatter after a ravel in the "
                 "requested order; prepare's mask attachment and shape normalisation; masks_compatible/masks_equal/Info.accepts): "
                 "compress-expand restores every unmasked element at its position and exactly the mask, for any shape, order and "
                 "mask; prepare under a fixed mask yields exactly that mask (flat payloads in grid order); the acceptance table "
                 "(flexible accepts any, unmasked only unmasked, fixed only masks equal in canonical position). Tied to "
                 "data/tools/mask.py, core.py, info.py by a differential run (all shapes up to 3x3x3, both orders, every mask of "
                 "arrays up to 9 elements in the thorough tier, quantified and plain; mask kinds x layouts through Info.accepts "
                 "and a real metadata exchange) plus an implementation-only oracle."),
        "design_ref": "5/C18",
        "technique": "Lean 4 proof (induction over mask lists and shapes; finite case analysis of the acceptance rules) + model/implementation correspondence",
    },
    "C06": {
        "engine": "connect",
        "text": ("Lean theorems over the connect model (items per component with provision and delivery conditions; one "
                 "ConnectHelper.connect call as a fixed sequence of attempts with provision evaluated at call start and the "
                 "caches; the _connect_components loop; adapter chains during the initial pushes and the initial pull): the "
                 "loop terminates within #items + 2#components + 1 iterations for every listing order; it succeeds iff the "
                 "least fixed point of the dependency rules is total (in particular for acyclic dependencies) and otherwise "
                 "reports exactly the listed components with an item outside the fixed point; CONNECTED iff complete, "
                 "CONNECTING iff the call exchanged something new; the outcome, exchanged set and reported set do not depend "
                 "on the order; initial data is published for the composition start and the producer's start; every link "
                 "(any chain of pass-through, caching and delay adapters, non-negative delays, producer not earlier than the "
                 "composition) raises no foreign error and the initial pull returns the producer's initial value. Tied to "
                 "tools/connect_helper.py, schedule.py, sdk/component.py, sdk/output.py, sdk/input.py, adapters/time.py by a "
                 "differential run of random dependency shapes through real Composition.connect() under several listing orders "
                 "plus an oracle that recomputes the fixed point from the spec."),
        "design_ref": "5/C06",
        "technique": "Lean 4 proof (loop invariant, termination measure, least-fixed-point argument over a conjunctive rule system; induction over adapter chains) + model/implementation correspondence",
    },
    "C17": {
        "engine": "units",
        "text": ("Lean theorems over the units model (unit = dimension vector, factor, offset; independently written catalogue of "
                 "69 SI/CF spellings): compatible iff same dimension; equivalent iff 1 converts to 1 (numpy.isclose proved exact on "
                 "every catalogue pair); conversion composes and round-trips; for every query history the memoised answers of "
                 "compatible_units/equivalent_units/to_units/prepare/link equal the unmemoised functions (cache invariant by "
                 "induction); the convert / relabel / refuse branches of prepare, to_units and of a link. Tied to "
                 "data/tools/units.py, core.py, sdk/input.py by a differential run of query histories over all ordered pairs "
                 "(answers and final _UNIT_PAIRS_CACHE), with pint validated against the Lean table, plus a pint-only oracle."),
        "design_ref": "5/C17",
        "technique": "Lean 4 proof (cache invariant by induction over query histories; field identities; decide over the catalogue table) + model/implementation correspondence",
    },
    "C16": {
        "engine": "regrid",
        "text": ("Lean theorems over the regridding model (flat level: data_points, ravelled masks and values in grid order; "
                 "compress / scatter index maps; KDTree.query as an arbitrary arg-min function with the arg-min specification; "
                 "LinearNDInterpolator as a parameter with the hypotheses NaN-exactly-outside-the-hull and affine-exact inside): "
                 "every unmasked target location receives the value of a Euclidean-nearest unmasked source location (ties free); "
                 "a target location coinciding with a source location gets that location's value whatever the enumeration order "
                 "of either grid (identity between layouts); masked target cells stay masked and only they; source values under "
                 "the mask never influence the result (nearest and linear); the linear path reproduces affine fields inside the "
                 "hull, masks everything outside (refusing Mask.NONE / an explicit mask that does not cover it) or fills it with a "
                 "nearest source value. Partial by nature: scipy's k-d tree and triangulation are parameters with hypotheses. "
                 "Tied to adapters/regrid.py, data/tools/mask.py, data/grid_base.py by a differential run over random pairs of "
                 "grids of all five kinds, 1-3 axes, all layouts and masks through real Output >> Regrid* >> Input links, plus an "
                 "implementation-only oracle (brute-force nearest neighbour on coordinates read from data_axes / points / cell "
                 "nodes by multi-index, perturbation of masked values, Delaunay hull classification with a safety margin)."),
        "design_ref": "5/C16",
        "technique": "Lean 4 proof (index-map lemmas for compress/scatter by induction over mask lists; arg-min and interpolator as hypotheses) + model/implementation correspondence",
    },
    "C07": {
        "engine": "info",
        "text": ("Lean theorems over the metadata-exchange model (Info.accepts in both directions, Output.get_info fill and "
                 "counter, Input.exchange_info merge, adapter chains with the _get_info rewrites of GridToValue, SumOverTime and "
                 "regridding adapters; grid/units/mask relations as parameters): after a successful exchange no field of the "
                 "input info is unset (any adapter chain), the declared grid/units/mask are compatible with the delivered ones, "
                 "unset fields carry the other side's values in both directions, incompatible ends and a conflicting second "
                 "target end in a metadata error (links of any length that do not rewrite metadata). Tied to info.py, "
                 "sdk/output.py, sdk/input.py, sdk/adapter.py, adapters/*.py by a differential run of producer/consumer "
                 "combinations through real Composition.connect() plus a location-based oracle; the compatibility rule itself "
                 "(masks_compatible, Info.accepts) is regenerated from mask.py / info.py on every run and proved equal to the "
                 "model's masksCompatible / accepts (tr_masks_compatible, tr_Info_accepts), the translation validated against the "
                 "real functions on the catalogue; Output.get_info is translated too (flat fields) and code_get_info / "
                 "code_get_info_complete state its outcome directly on the regenerated code (no unset field after a successful "
                 "exchange, set fields untouched, refusal exactly when Info.accepts says no)."),
        "design_ref": "5/C07",
        "technique": "Lean 4 proof (induction over adapter chains with an adapter-state invariant; case analysis of accepts/get_info) + model/implementation correspondence",
    },
}

PENDING_REASON = "check not built yet in this session (work in progress; see DESIGN.md section 5 for the plan)"


def translated_for(pid):
    import sys
    sys.path.insert(0, VERIF)
    from harness import trspecs
    return [sp for sp in trspecs.SPECS if pid in sp["props"]]


def main():
    props = [json.loads(l) for l in open(os.path.join(VERIF, "properties.jsonl"))]
    checks, na = [], []
    for p in props:
        pid = p["id"]
        if pid in CHECKS:
            c = dict(CHECKS[pid])
            tr = translated_for(pid)
            if tr:
                quals = sorted({sp["qual"] + (" (slice)" if "slice" in sp else "") for sp in tr})
                groups = sorted({sp["group"] for sp in tr})
                c["text"] = c["text"] + (
                    " Regenerated tie (DESIGN.md section 16): " + ", ".join(quals) + " are translated from the Python source "
                    "to Lean definitions on every run (harness/py2lean.py) and proved equal, for all inputs, to the model "
                    "functions the theorems above are about (theorems tr_* in " + ", ".join(f"Props/Tr{g}.lean" for g in groups)
                    + "); a source change inside one of them breaks a proof obligation in lake build whatever cases the "
                    "generators draw, and a function the translator can no longer read is reported as a broken obligation.")
                c["technique"] = c["technique"] + " + decision kernels translated from the Python source to Lean on every run, with equivalence theorems to the model"
                c["note"] = c.get("note", NOTE) + (" Also trusted: harness/py2lean.py (the translator's reading of its Python "
                                                   "subset), FinamModel/PyPrelude.lean, and the per-function specs in harness/trspecs.py.")
            checks.append({
                "property_id": pid,
                "quick_cmd": f"./check {pid} quick",
                "thorough_cmd": f"./check {pid} thorough",
                "evidence_file": f"evidence/{pid}.json",
                "replay_cmd_template": f"./check {pid} --replay {{path}}",
                "engine": c["engine"],
                "level_claimed": {"category": "proof", "text": c["text"], "design_ref": c["design_ref"]},
                "level_note": c.get("note", NOTE),
                "technique": c["technique"],
            })
        else:
            na.append({"property_id": pid, "reason": PENDING_REASON})
    man = {
        "version": 1,
        "setup_cmd": "./setup.sh",
        "hooks": {
            "guard": "FINAM_VERIF",
            "enable": "no source hooks are needed: every observable is reached by subclassing/wrapping public API from the harness",
            "baseline_off_cmd": "cd /repo && /venv/bin/python -m pytest -ra -q -p no:cacheprovider --timeout=900 --continue-on-collection-errors",
            "source_commits": [],
            "add_only": True,
        },
        "engines": [
            {"name": "sched", "path": "harness/engines/sched_common.py", "serves_properties": sorted(k for k, v in CHECKS.items() if v["engine"] == "sched"),
             "kind_free_text": "real Composition runs built from JSON specs (harness components, real adapters), diffed against the Lean run loop"},
            {"name": "link", "path": "harness/engines", "serves_properties": sorted(k for k, v in CHECKS.items() if v["engine"] == "link"),
             "kind_free_text": "real Output/Input/adapter objects driven event by event, diffed against the Lean driver"},
            {"name": "validate", "path": "harness/engines", "serves_properties": sorted(k for k, v in CHECKS.items() if v["engine"] == "validate"),
             "kind_free_text": "random coupling forests built from real slots/adapters/components, run through Composition.connect(), diffed against the Lean driver"},
            {"name": "grid", "path": "harness/engines", "serves_properties": sorted(k for k, v in CHECKS.items() if v["engine"] == "grid"),
             "kind_free_text": "real grid objects, mask helpers, Info.accepts and Output>>Input links over enumerated layouts/masks, diffed against the Lean driver"},
            {"name": "connect", "path": "harness/engines", "serves_properties": sorted(k for k, v in CHECKS.items() if v["engine"] == "connect"),
             "kind_free_text": "harness components (create_connector/try_connect with rules, staged infos/data, adapter chains) run through real Composition.connect() under several listing orders, diffed against the Lean driver"},
            {"name": "units", "path": "harness/engines", "serves_properties": sorted(k for k, v in CHECKS.items() if v["engine"] == "units"),
             "kind_free_text": "query histories over all ordered unit pairs on the real unit helpers and real links, diffed against the Lean driver"},
            {"name": "regrid", "path": "harness/engines", "serves_properties": sorted(k for k, v in CHECKS.items() if v["engine"] == "regrid"),
             "kind_free_text": "real grids of all five kinds wired Output >> RegridNearest/RegridLinear >> Input, received data diffed against the Lean driver and a brute-force oracle"},
            {"name": "info", "path": "harness/engines", "serves_properties": sorted(k for k, v in CHECKS.items() if v["engine"] == "info"),
             "kind_free_text": "producer/consumer metadata combinations run through real Composition.connect(), infos diffed against the Lean driver"},
        ],
        "checks": checks,
        "not_applicable": na,
        "notes": "Technique family: machine-checked proof in Lean 4 + checked model/code correspondence. See DESIGN.md.",
    }
    with open(os.path.join(VERIF, "MANIFEST.json"), "w") as f:
        json.dump(man, f, indent=1)


if __name__ == "__main__":
    main()
