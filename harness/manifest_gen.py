"""Writes MANIFEST.json from the per-property descriptions below (kept in one place so that the
manifest stays valid while properties are added)."""
import json
import os

VERIF = os.path.dirname(os.path.dirname(os.path.abspath(__file__)))

NOTE = ("Trusted: Lean 4.33 kernel; axioms propext/Classical.choice/Quot.sound only; the theorem statements; "
        "the hand-written model to the extent the correspondence run exercises it; extractor, canonicaliser, "
        "tolerances; CPython/numpy/pint/scipy. Modelled rather than verified: the Python code itself.")

CHECKS = {
    "C08": {
        "engine": "link",
        "text": ("Lean theorems over the link model (served entry is a nearest publication; exactly the requests in "
                 "[oldest, newest] are served, others get a time error; prepare's shape normalisation yields 1 :: data_shape "
                 "with flat payloads landing in grid order; pulled values are the affine unit conversion of the nearest "
                 "publication, never delivered for incompatible units; same-buffer publications refused), tied to "
                 "sdk/output.py, sdk/input.py, data/tools/core.py by a differential correspondence run over real "
                 "Output>>Input links plus an implementation-only oracle (brute-force nearest, exact fractions)."),
        "design_ref": "5/C08",
        "technique": "Lean 4 proof (induction over the publication history; case analysis of prepare) + model/implementation correspondence",
    },
    "C09": {
        "engine": "link",
        "text": ("Lean theorems over the output-history model (refinement of the bounded output to an output with "
                 "unlimited history for every event history and any number of end points; the retention bound; "
                 "registration = requester), tied to sdk/output.py and sdk/adapter.py by a differential "
                 "correspondence run on real Output/Input/adapter objects plus an implementation-only oracle."),
        "design_ref": "5/C09",
        "technique": "Lean 4 proof (invariant + refinement by induction over event histories) + model/implementation correspondence",
    },
}

PENDING_REASON = "check not built yet in this session (work in progress; see DESIGN.md section 5 for the plan)"


def main():
    props = [json.loads(l) for l in open(os.path.join(VERIF, "properties.jsonl"))]
    checks, na = [], []
    for p in props:
        pid = p["id"]
        if pid in CHECKS:
            c = CHECKS[pid]
            checks.append({
                "property_id": pid,
                "quick_cmd": f"./check {pid} quick",
                "thorough_cmd": f"./check {pid} thorough",
                "evidence_file": f"evidence/{pid}.json",
                "replay_cmd_template": f"./check {pid} --replay {{path}}",
                "engine": c["engine"],
                "level_claimed": {"category": "proof", "text": c["text"], "design_ref": c["design_ref"]},
                "level_note": c.get("note", NOTE),
                "technique": c["technique"],
            })
        else:
            na.append({"property_id": pid, "reason": PENDING_REASON})
    man = {
        "version": 1,
        "setup_cmd": "./setup.sh",
        "hooks": {
            "guard": "FINAM_VERIF",
            "enable": "no source hooks are needed: every observable is reached by subclassing/wrapping public API from the harness",
            "baseline_off_cmd": "cd /repo && /venv/bin/python -m pytest -ra -q -p no:cacheprovider --timeout=900 --continue-on-collection-errors",
            "source_commits": [],
            "add_only": True,
        },
        "engines": [
            {"name": "link", "path": "harness/engines", "serves_properties": sorted(k for k, v in CHECKS.items() if v["engine"] == "link"),
             "kind_free_text": "real Output/Input/adapter objects driven event by event, diffed against the Lean driver"},
        ],
        "checks": checks,
        "not_applicable": na,
        "notes": "Technique family: machine-checked proof in Lean 4 + checked model/code correspondence. See DESIGN.md.",
    }
    with open(os.path.join(VERIF, "MANIFEST.json"), "w") as f:
        json.dump(man, f, indent=1)


if __name__ == "__main__":
    main()
