"""Helpers to drive real FINAM objects from the harness (no source edits: only public API,
subclassing and wrapping)."""
import datetime as dt
import logging
import warnings

warnings.filterwarnings("ignore")

import numpy as np

import finam as fm
from finam import adapters as ad
from finam import errors as fe

logging.disable(logging.CRITICAL)

EPOCH = dt.datetime(2000, 1, 1)
US = dt.timedelta(microseconds=1)


def T(us):
    """model time (integer microseconds) -> datetime"""
    return EPOCH + dt.timedelta(microseconds=int(us))


def us(t):
    """datetime -> model time"""
    if t is None:
        return None
    return (t - EPOCH) // US


def td(us_):
    return dt.timedelta(microseconds=int(us_))


ERR_NAMES = [
    ("FinamTimeError", fe.FinamTimeError),
    ("FinamNoDataError", fe.FinamNoDataError),
    ("FinamDataError", fe.FinamDataError),
    ("FinamMetaDataError", fe.FinamMetaDataError),
    ("FinamStaticDataError", fe.FinamStaticDataError),
    ("FinamConnectError", fe.FinamConnectError),
    ("FinamCircularCouplingError", fe.FinamCircularCouplingError),
    ("FinamStatusError", fe.FinamStatusError),
]


def err_class(e):
    """Canonical error enum: exact FINAM error class, anything else is `other`."""
    for name, cls in ERR_NAMES:
        if type(e) is cls:
            return name
    for name, cls in ERR_NAMES:
        if isinstance(e, cls):
            return name
    return "other"


def guarded(f, *a, **k):
    """run f; returns {"ok": value} or {"err": class}"""
    try:
        return {"ok": f(*a, **k)}
    except Exception as e:  # noqa
        return {"err": err_class(e), "msg": f"{type(e).__name__}: {str(e)[:200]}"}


def scalar(x):
    """magnitude of a FINAM scalar payload (shape (1,) quantity) as float"""
    m = fm.data.get_magnitude(x) if hasattr(x, "units") or hasattr(x, "magnitude") else x
    arr = np.asarray(m)
    return float(arr.reshape(-1)[0])


def close(a, b, tol=1e-9):
    return abs(a - b) <= tol * max(1.0, abs(a), abs(b))


def rat(q):
    """[num, den] from the Lean driver -> float"""
    if isinstance(q, list):
        return q[0] / q[1]
    return float(q)


class HarnessTimeout(Exception):
    """the real package did not come back within the time a check allows for one run"""


def limited(seconds, f, *a, **kw):
    """run f(*a, **kw) under an alarm: a run of the real package that does not end is an observation (HarnessTimeout),
    not a hung check"""
    import signal

    def _alarm(_sig, _frm):
        raise HarnessTimeout(f"no result within {seconds} s")

    old = signal.signal(signal.SIGALRM, _alarm)
    signal.alarm(int(seconds))
    try:
        return f(*a, **kw)
    finally:
        signal.alarm(0)
        signal.signal(signal.SIGALRM, old)
