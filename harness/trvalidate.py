"""Translation validation: every translated definition (lean/FinamModel/Translated/*.lean) is run, through the
`trdriver` executable, on the same random inputs as the *real* Python function it was translated from, and the results
(value, final values of the mutated fields, error class) are compared.

This checks the translator itself (harness/py2lean.py) — its reading of evaluation order, indices, `None`, dict order,
loops and state threading — on every run of a check, for the functions that check owns.  Functions that read an object
graph (`Py.Heap`) and slices of a function are not validated here: they are tied to the code by the equivalence theorems
plus the scheduler / validation / connect correspondences of C01-C06 and C19.
"""
import datetime as dt
import json
import os
import random
import subprocess
from fractions import Fraction

from . import common, py2lean, trspecs
from .fmutil import EPOCH, ad, err_class, fm

US = dt.timedelta(microseconds=1)
TRDRIVER = os.path.join(common.LEAN, ".lake", "build", "bin", "trdriver")


# ---------------------------------------------------------------------------------------------
# python-side types: like py2lean.parse_type but keeping Time / Dur apart
# ---------------------------------------------------------------------------------------------
def ptype(s):
    s = s.strip()
    for head in ("List", "Opt", "Tuple", "Dict"):
        if s.startswith(head + "[") and s.endswith("]"):
            inner, depth, parts, cur = s[len(head) + 1:-1], 0, [], ""
            for ch in inner:
                depth += ch == "["
                depth -= ch == "]"
                if ch == "," and depth == 0:
                    parts.append(cur)
                    cur = ""
                else:
                    cur += ch
            parts.append(cur)
            return (head, tuple(ptype(x) for x in parts))
    return s


def supported(spec):
    return not spec.get("heap") and "slice" not in spec and spec["lean"] in MAKE


# ---------------------------------------------------------------------------------------------
# random values (as exact python objects) and their JSON encodings
# ---------------------------------------------------------------------------------------------
def gen(t, rng, ctx):
    if t == "Time":
        return rng.choice(ctx["times"])
    if t == "Dur":
        return rng.choice([0, 1, 2, 3, 5, 8]) * ctx["scale"]
    if t == "Int":
        return rng.randint(0, 4)
    if t == "Rat":
        return Fraction(rng.randint(-8, 8), rng.choice([1, 2, 4, 8]))
    if t == "Val":
        return rng.randint(-9, 9)
    if t == "Bool":
        return rng.random() < 0.5
    if t == "Obj":
        return rng.randint(0, 3)
    if t == "Unit":
        return ()
    if t[0] == "Opt":
        return None if rng.random() < 0.3 else gen(t[1][0], rng, ctx)
    if t[0] == "Tuple":
        return tuple(gen(x, rng, ctx) for x in t[1])
    if t[0] == "List":
        n = rng.choice([0, 1, 1, 2, 3, 4, 5])
        xs = [gen(t[1][0], rng, ctx) for _ in range(n)]
        if t[1][0] == ("Tuple", ("Time", "Val")) or t[1][0] == ("Tuple", ("Time", "Rat")):
            # buffers are sorted by time (mostly strictly: equal times make Python divide by zero — also compared)
            ts = sorted(rng.sample(ctx["times"], min(n, len(ctx["times"])))) if rng.random() < 0.85 else sorted(x[0] for x in xs)
            xs = [(tt, x[1]) for tt, x in zip(ts, xs)]
        return xs
    if t[0] == "Dict":
        keys = rng.sample(range(4), rng.randint(1, 3))
        return {k: gen(t[1][1], rng, ctx) for k in keys}
    raise ValueError(t)


def enc(t, v):
    """JSON encoding read by the Lean driver (tuples as nested pairs, rationals as [num, den], dicts as [[k, v], …])"""
    if t in ("Time", "Dur", "Int", "Val", "Obj"):
        return int(v)
    if t == "Rat":
        f = Fraction(v)
        return [f.numerator, f.denominator]
    if t == "Bool":
        return bool(v)
    if t == "Unit":
        return []
    if t[0] == "Opt":
        return None if v is None else enc(t[1][0], v)
    if t[0] == "Tuple":
        parts = [enc(x, y) for x, y in zip(t[1], v)]
        out = parts[-1]
        for p in reversed(parts[:-1]):
            out = [p, out]
        return out
    if t[0] == "List":
        return [enc(t[1][0], x) for x in v]
    if t[0] == "Dict":
        return [[enc(t[1][0], k), enc(t[1][1], x)] for k, x in v.items()]
    raise ValueError(t)


def to_py(t, v):
    """the value as the real code expects it"""
    if t == "Time":
        return EPOCH + int(v) * US
    if t == "Dur":
        return int(v) * US
    if t == "Rat":
        return float(v)
    if t == "Val":
        return float(v)
    if t in ("Int", "Bool", "Obj"):
        return v
    if t in (("Tuple", ("Time", "Val")), ("Tuple", ("Time", "Rat"))):
        import numpy as np
        return (EPOCH + int(v[0]) * US, np.array(float(v[1])))   # a buffered payload is an array (it has `nbytes`)
    if t == "Unit":
        return object()   # some non-None value (an Info that is present)
    if t[0] == "Opt":
        return None if v is None else to_py(t[1][0], v)
    if t[0] == "Tuple":
        return tuple(to_py(x, y) for x, y in zip(t[1], v))
    if t[0] == "List":
        return [to_py(t[1][0], x) for x in v]
    if t[0] == "Dict":
        return {to_py(t[1][0], k): to_py(t[1][1], x) for k, x in v.items()}
    raise ValueError(t)


def from_py(t, v):
    """canonical JSON of a value the real code produced (floats stay floats)"""
    if t == "Time":
        return int((v - EPOCH) / US)
    if t == "Dur":
        return int(v / US)
    if t in ("Rat", "Val"):
        m = getattr(v, "magnitude", v)
        try:
            import numpy as np
            m = float(np.asarray(m).reshape(-1)[0])
        except Exception:  # noqa
            m = float(m)
        return m
    if t in ("Int", "Obj"):
        return int(v)
    if t == "Bool":
        return bool(v)
    if t == "Unit":
        return None
    if t[0] == "Opt":
        return None if v is None else from_py(t[1][0], v)
    if t[0] == "Tuple":
        parts = [from_py(x, y) for x, y in zip(t[1], v)]
        out = parts[-1]
        for p in reversed(parts[:-1]):
            out = [p, out]
        return out
    if t[0] == "List":
        return [from_py(t[1][0], x) for x in v]
    if t[0] == "Dict":
        return [[from_py(t[1][0], k), from_py(t[1][1], x)] for k, x in v.items()]
    raise ValueError(t)


def same(t, a, b):
    """python result a (canonical JSON, floats) against the Lean result b (exact: ints, [num, den])"""
    if t in ("Rat", "Val"):
        q = b[0] / b[1] if isinstance(b, list) else float(b)
        return abs(a - q) <= 1e-9 * max(1.0, abs(q))
    if t in ("Time", "Dur", "Int", "Obj", "Bool", "Unit"):
        return a == b
    if t[0] == "Opt":
        return (a is None) == (b is None) and (a is None or same(t[1][0], a, b))
    if t[0] == "Tuple":
        if len(t[1]) == 1:
            return same(t[1][0], a, b)
        return same(t[1][0], a[0], b[0]) and same(("Tuple", t[1][1:]) if len(t[1]) > 2 else t[1][1], a[1], b[1])
    if t[0] == "List":
        return len(a) == len(b) and all(same(t[1][0], x, y) for x, y in zip(a, b))
    if t[0] == "Dict":
        return len(a) == len(b) and all(same(t[1][0], x[0], y[0]) and same(t[1][1], x[1], y[1]) for x, y in zip(a, b))
    raise ValueError(t)


# ---------------------------------------------------------------------------------------------
# the real objects
# ---------------------------------------------------------------------------------------------
class _Src:
    def __init__(self, v):
        self.v = v

    def get_data(self, time, target):
        return self.v


def _mk_input(static):
    i = fm.Input(name="i", static=static, time=None if static else EPOCH, grid=fm.NoGrid(), units=None)
    i._convert_and_check = lambda d: d
    return i


MAKE = {
    "DelayFixed_with_delay": lambda f: ad.DelayFixed(dt.timedelta(hours=1)),
    "DelayToPush_with_delay": lambda f: ad.DelayToPush(),
    "DelayToPull_with_delay": lambda f: ad.DelayToPull(),
    "DelayToPull__pulled": lambda f: ad.DelayToPull(),
    "NextTime__interpolate": lambda f: ad.NextTime(),
    "PreviousTime__interpolate": lambda f: ad.PreviousTime(),
    "LinearTime__interpolate": lambda f: ad.LinearTime(),
    "StepTime__interpolate": lambda f: ad.StepTime(),
    "TimeCachingAdapter__clear_cached_data": lambda f: ad.NextTime(),
    "TimeCachingAdapter__get_data_next": lambda f: ad.NextTime(),
    "TimeCachingAdapter__get_data_prev": lambda f: ad.PreviousTime(),
    "TimeCachingAdapter__get_data_linear": lambda f: ad.LinearTime(),
    "TimeCachingAdapter__get_data_step": lambda f: ad.StepTime(),
    "AvgOverTime__interpolate": lambda f: ad.AvgOverTime(),
    "SumOverTime__interpolate": lambda f: ad.SumOverTime(),
    "TimeIntegrationAdapter__get_data_avg": lambda f: ad.AvgOverTime(),
    "TimeIntegrationAdapter__get_data_sum": lambda f: ad.SumOverTime(),
    "Output__interpolate": lambda f: fm.Output(name="o", time=EPOCH, grid=fm.NoGrid()),
    "Output__clear_data": lambda f: fm.Output(name="o", time=EPOCH, grid=fm.NoGrid()),
    "Output_get_data": lambda f: fm.Output(name="o", static=bool(f.get("is_static")), time=None if f.get("is_static") else EPOCH, grid=fm.NoGrid()),
    "Input_pull_data": lambda f: _mk_input(bool(f.get("is_static"))),
    "interpolate": None, "interpolate_step": None, "check_time": None,
}
FIELD_ATTR = {"is_static": None}   # read-only properties: set through the constructor


def call_real(spec, fields, params, extra):
    """returns canonical result {"ok": [ret, mutated…]} / {"err": class}"""
    ft = {k: ptype(v) for k, v in spec.get("fields", {}).items()}
    pt = {k: ptype(v) for k, v in spec.get("params", {}).items()}
    mk = MAKE[spec["lean"]]
    try:
        if mk is None:
            import finam.adapters.time as tmod
            fn = getattr(tmod, spec["qual"])
            args = []
            import inspect
            for a in inspect.signature(fn).parameters:
                if a in spec.get("ignore_params", []):
                    args.append(None)
                else:
                    args.append(to_py(pt[a], params[a]))
            r = fn(*args)
            obj = None
        else:
            obj = mk(fields)
            for k, v in fields.items():
                if k in FIELD_ATTR:
                    continue
                setattr(obj, k, to_py(ft[k], v))
            if "src_data" in extra:
                obj._source = _Src(float(extra["src_data"]))
            meth = getattr(obj, spec["qual"].split(".")[-1])
            import inspect
            args = []
            for a in inspect.signature(meth).parameters:
                if a in spec.get("ignore_params", []):
                    args.append(None)
                else:
                    args.append(to_py(pt[a], params[a]))
            r = meth(*args)
    except Exception as e:  # noqa
        return {"err": err_class(e), "msg": f"{type(e).__name__}: {str(e)[:120]}"}
    out = []
    rt = ptype(spec.get("ret", "Unit"))
    if rt != "Unit":
        if r is None and not (isinstance(rt, tuple) and rt[0] == "Opt"):
            # the function fell through with `None` where it declares a value (the translation reads that as an error)
            return {"err": "other", "msg": "returned None"}
        out.append(from_py(rt, r))
    for f in mutated_fields(spec):
        out.append(from_py(ft[f], getattr(obj, f)))
    return {"ok": out}


_MUT = {}


def mutated_fields(spec):
    if spec["lean"] not in _MUT:
        import ast
        tree = ast.parse(open(os.path.join(common.finam_src_root(), "finam", spec["path"])).read())
        fn = py2lean.find_function(tree, spec["qual"])
        _MUT[spec["lean"]] = py2lean.Tr(spec, fn).mutated
    return _MUT[spec["lean"]]


def result_types(spec):
    ft = {k: ptype(v) for k, v in spec.get("fields", {}).items()}
    rt = ptype(spec.get("ret", "Unit"))
    return ([] if rt == "Unit" else [rt]) + [ft[f] for f in mutated_fields(spec)]


def lean_result_split(types, v):
    """the Lean result is one value or a nested pair of the components"""
    if not types:
        return []
    if len(types) == 1:
        return [v]
    return [v[0]] + lean_result_split(types[1:], v[1])


def validate(prop, rng, n_per_fn, res):
    """runs the validation for the translated functions owned by `prop`; divergences go to `res`"""
    specs = [sp for sp in trspecs.SPECS if prop in sp["props"] and supported(sp)
             and common.TRANSLATION_STATUS.get(sp["lean"], {}).get("translated")]
    if not specs or not os.path.exists(TRDRIVER):
        if specs:
            res.extra["translation_validation"] = {"skipped": "trdriver not built"}
        return
    reqs, metas = [], []
    for sp in specs:
        ft = {k: ptype(v) for k, v in sp.get("fields", {}).items()}
        pt = {k: ptype(v) for k, v in sp.get("params", {}).items() if k not in sp.get("ignore_params", [])}
        et = {k: ptype(v) for k, v in sp.get("extra_params", {}).items()}
        for _ in range(n_per_fn):
            scale = rng.choice([1, 3, 1000, 3_600_000_000])
            ctx = {"scale": scale, "times": [k * scale for k in range(0, 14)]}
            fields = {k: gen(t, rng, ctx) for k, t in ft.items()}
            if "steps" in fields:
                fields["steps"] = max(1, fields["steps"])
            params = {k: gen(t, rng, ctx) for k, t in pt.items()}
            extra = {k: gen(t, rng, ctx) for k, t in et.items()}
            args = ([enc(ft[k], fields[k]) for k in ft] + [enc(pt[k], params[k]) for k in pt]
                    + [enc(et[k], extra[k]) for k in et])
            reqs.append({"fn": sp["lean"], "args": args})
            metas.append((sp, fields, params, extra))
    data = "\n".join(json.dumps(r, separators=(",", ":")) for r in reqs) + "\n"
    p = subprocess.run([TRDRIVER], input=data, capture_output=True, text=True, timeout=600)
    lines = p.stdout.splitlines()
    if p.returncode != 0 or len(lines) != len(reqs):
        raise common.MachineryError(f"trdriver failed: {p.stderr[-500:]} ({len(lines)} answers for {len(reqs)} requests)")
    stats = {}
    for (sp, fields, params, extra), ln, rq in zip(metas, lines, reqs):
        lean = json.loads(ln)
        real = call_real(sp, fields, params, extra)
        st = stats.setdefault(sp["lean"], {"cases": 0, "ok": 0, "errors": {}, "mismatch": 0})
        st["cases"] += 1
        agree = True
        if "err" in real or "err" in lean:
            agree = real.get("err") == lean.get("err")
            if "err" in real:
                st["errors"][real["err"]] = st["errors"].get(real["err"], 0) + 1
        else:
            types = result_types(sp)
            lv = lean_result_split(types, lean["ok"])
            agree = len(lv) == len(real["ok"]) and all(same(t, a, b) for t, a, b in zip(types, real["ok"], lv))
            st["ok"] += agree
        if not agree:
            st["mismatch"] += 1
            res.diverge("translation/" + sp["lean"], {"fn": sp["lean"], "args": rq["args"]}, real, lean)
    res.extra["translation_validation"] = stats
