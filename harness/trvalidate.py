"""Translation validation: every translated definition (lean/FinamModel/Translated/*.lean) is run, through the
`trdriver` executable, on the same random inputs as the *real* Python function it was translated from, and the results
(value, final values of the mutated fields, error class) are compared.

This checks the translator itself (harness/py2lean.py) — its reading of evaluation order, indices, `None`, dict order,
loops and state threading — on every run of a check, for the functions that check owns.  Functions that read an object
graph (`Py.Heap`) and slices of a function are not validated here: they are tied to the code by the equivalence theorems
plus the scheduler / validation / connect correspondences of C01-C06 and C19.
"""
import datetime as dt
import json
import os
import random
import subprocess
from fractions import Fraction

import numpy as np

from . import common, py2lean, trspecs
from .fmutil import EPOCH, ad, err_class, fm

US = dt.timedelta(microseconds=1)
TRDRIVER = os.path.join(common.LEAN, ".lake", "build", "bin", "trdriver")


# ---------------------------------------------------------------------------------------------
# python-side types: like py2lean.parse_type but keeping Time / Dur apart
# ---------------------------------------------------------------------------------------------
def ptype(s):
    s = s.strip()
    for head in ("List", "Opt", "Tuple", "Dict"):
        if s.startswith(head + "[") and s.endswith("]"):
            inner, depth, parts, cur = s[len(head) + 1:-1], 0, [], ""
            for ch in inner:
                depth += ch == "["
                depth -= ch == "]"
                if ch == "," and depth == 0:
                    parts.append(cur)
                    cur = ""
                else:
                    cur += ch
            parts.append(cur)
            return (head, tuple(ptype(x) for x in parts))
    return s


def supported(spec):
    return not spec.get("heap") and "slice" not in spec and spec["lean"] in MAKE


# ---------------------------------------------------------------------------------------------
# random values (as exact python objects) and their JSON encodings
# ---------------------------------------------------------------------------------------------
def gen(t, rng, ctx):
    if t == "Time":
        return rng.choice(ctx["times"])
    if t == "Dur":
        return rng.choice([0, 1, 2, 3, 5, 8]) * ctx["scale"]
    if t == "Int":
        return rng.randint(0, 4)
    if t == "Rat":
        return Fraction(rng.randint(-8, 8), rng.choice([1, 2, 4, 8]))
    if t == "Val":
        return rng.randint(-9, 9)
    if t == "Bool":
        return rng.random() < 0.5
    if t == "Obj":
        return rng.randint(0, 3)
    if t == "Unit":
        return ()
    if t[0] == "Opt":
        return None if rng.random() < 0.3 else gen(t[1][0], rng, ctx)
    if t[0] == "Tuple":
        return tuple(gen(x, rng, ctx) for x in t[1])
    if t[0] == "List":
        n = rng.choice([0, 1, 1, 2, 3, 4, 5])
        xs = [gen(t[1][0], rng, ctx) for _ in range(n)]
        if t[1][0] == ("Tuple", ("Time", "Val")) or t[1][0] == ("Tuple", ("Time", "Rat")):
            # buffers are sorted by time (mostly strictly: equal times make Python divide by zero — also compared)
            ts = sorted(rng.sample(ctx["times"], min(n, len(ctx["times"])))) if rng.random() < 0.85 else sorted(x[0] for x in xs)
            xs = [(tt, x[1]) for tt, x in zip(ts, xs)]
        return xs
    if t[0] == "Dict":
        keys = rng.sample(range(4), rng.randint(1, 3))
        return {k: gen(t[1][1], rng, ctx) for k in keys}
    raise ValueError(t)


def enc(t, v):
    """JSON encoding read by the Lean driver (tuples as nested pairs, rationals as [num, den], dicts as [[k, v], …])"""
    if t in ("Time", "Dur", "Int", "Val", "Obj"):
        return int(v)
    if t == "Rat":
        f = Fraction(v)
        return [f.numerator, f.denominator]
    if t == "Bool":
        return bool(v)
    if t == "Unit":
        return []
    if t[0] == "Opt":
        return None if v is None else enc(t[1][0], v)
    if t[0] == "Tuple":
        parts = [enc(x, y) for x, y in zip(t[1], v)]
        out = parts[-1]
        for p in reversed(parts[:-1]):
            out = [p, out]
        return out
    if t[0] == "List":
        return [enc(t[1][0], x) for x in v]
    if t[0] == "Dict":
        return [[enc(t[1][0], k), enc(t[1][1], x)] for k, x in v.items()]
    raise ValueError(t)


def to_py(t, v):
    """the value as the real code expects it"""
    if t == "Time":
        return EPOCH + int(v) * US
    if t == "Dur":
        return int(v) * US
    if t == "Rat":
        return float(v)
    if t == "Val":
        return float(v)
    if t in ("Int", "Bool", "Obj"):
        return v
    if t in (("Tuple", ("Time", "Val")), ("Tuple", ("Time", "Rat"))):
        import numpy as np
        return (EPOCH + int(v[0]) * US, np.array(float(v[1])))   # a buffered payload is an array (it has `nbytes`)
    if t == "Unit":
        return object()   # some non-None value (an Info that is present)
    if t[0] == "Opt":
        return None if v is None else to_py(t[1][0], v)
    if t[0] == "Tuple":
        return tuple(to_py(x, y) for x, y in zip(t[1], v))
    if t[0] == "List":
        return [to_py(t[1][0], x) for x in v]
    if t[0] == "Dict":
        return {to_py(t[1][0], k): to_py(t[1][1], x) for k, x in v.items()}
    raise ValueError(t)


def from_py(t, v):
    """canonical JSON of a value the real code produced (floats stay floats)"""
    if t == "Time":
        return int((v - EPOCH) / US)
    if t == "Dur":
        return int(v / US)
    if t in ("Rat", "Val"):
        m = getattr(v, "magnitude", v)
        try:
            import numpy as np
            m = float(np.asarray(m).reshape(-1)[0])
        except Exception:  # noqa
            m = float(m)
        return m
    if t in ("Int", "Obj"):
        return int(v)
    if t == "Bool":
        return bool(v)
    if t == "Unit":
        return None
    if t[0] == "Opt":
        return None if v is None else from_py(t[1][0], v)
    if t[0] == "Tuple":
        parts = [from_py(x, y) for x, y in zip(t[1], v)]
        out = parts[-1]
        for p in reversed(parts[:-1]):
            out = [p, out]
        return out
    if t[0] == "List":
        return [from_py(t[1][0], x) for x in v]
    if t[0] == "Dict":
        return [[from_py(t[1][0], k), from_py(t[1][1], x)] for k, x in v.items()]
    raise ValueError(t)


def same(t, a, b):
    """python result a (canonical JSON, floats) against the Lean result b (exact: ints, [num, den])"""
    if t in ("Rat", "Val"):
        q = b[0] / b[1] if isinstance(b, list) else float(b)
        return abs(a - q) <= 1e-9 * max(1.0, abs(q))
    if t in ("Time", "Dur", "Int", "Obj", "Bool", "Unit"):
        return a == b
    if t[0] == "Opt":
        return (a is None) == (b is None) and (a is None or same(t[1][0], a, b))
    if t[0] == "Tuple":
        if len(t[1]) == 1:
            return same(t[1][0], a, b)
        return same(t[1][0], a[0], b[0]) and same(("Tuple", t[1][1:]) if len(t[1]) > 2 else t[1][1], a[1], b[1])
    if t[0] == "List":
        return len(a) == len(b) and all(same(t[1][0], x, y) for x, y in zip(a, b))
    if t[0] == "Dict":
        return len(a) == len(b) and all(same(t[1][0], x[0], y[0]) and same(t[1][1], x[1], y[1]) for x, y in zip(a, b))
    raise ValueError(t)


# ---------------------------------------------------------------------------------------------
# the real objects
# ---------------------------------------------------------------------------------------------
class _Src:
    def __init__(self, v):
        self.v = v

    def get_data(self, time, target):
        return self.v


def _mk_input(static):
    i = fm.Input(name="i", static=static, time=None if static else EPOCH, grid=fm.NoGrid(), units=None)
    i._convert_and_check = lambda d: d
    return i


MAKE = {
    "DelayFixed_with_delay": lambda f: ad.DelayFixed(dt.timedelta(hours=1)),
    "DelayToPush_with_delay": lambda f: ad.DelayToPush(),
    "DelayToPull_with_delay": lambda f: ad.DelayToPull(),
    "DelayToPull__pulled": lambda f: ad.DelayToPull(),
    "NextTime__interpolate": lambda f: ad.NextTime(),
    "PreviousTime__interpolate": lambda f: ad.PreviousTime(),
    "LinearTime__interpolate": lambda f: ad.LinearTime(),
    "StepTime__interpolate": lambda f: ad.StepTime(),
    "TimeCachingAdapter__clear_cached_data": lambda f: ad.NextTime(),
    "TimeCachingAdapter__get_data_next": lambda f: ad.NextTime(),
    "TimeCachingAdapter__get_data_prev": lambda f: ad.PreviousTime(),
    "TimeCachingAdapter__get_data_linear": lambda f: ad.LinearTime(),
    "TimeCachingAdapter__get_data_step": lambda f: ad.StepTime(),
    "AvgOverTime__interpolate": lambda f: ad.AvgOverTime(),
    "SumOverTime__interpolate": lambda f: ad.SumOverTime(),
    "TimeIntegrationAdapter__get_data_avg": lambda f: ad.AvgOverTime(),
    "TimeIntegrationAdapter__get_data_sum": lambda f: ad.SumOverTime(),
    "Output__interpolate": lambda f: fm.Output(name="o", time=EPOCH, grid=fm.NoGrid()),
    "Output__clear_data": lambda f: fm.Output(name="o", time=EPOCH, grid=fm.NoGrid()),
    "Output_get_data": lambda f: fm.Output(name="o", static=bool(f.get("is_static")), time=None if f.get("is_static") else EPOCH, grid=fm.NoGrid()),
    "Input_pull_data": lambda f: _mk_input(bool(f.get("is_static"))),
    "Output_push_data": lambda f: fm.Output(name="o", time=EPOCH, grid=fm.NoGrid()),
    "Output_info": lambda f: fm.Output(name="o", time=EPOCH, grid=fm.NoGrid()) if f.get("has_info") else fm.Output(name="o"),
    "TimeCachingAdapter__source_updated": lambda f: ad.NextTime(),
    "TimeIntegrationAdapter__source_updated": lambda f: ad.AvgOverTime(),
    "interpolate": None, "interpolate_step": None, "check_time": None,
}
FIELD_ATTR = {"is_static": None, "has_targets": None, "has_info": None}   # read-only properties: set through the constructor


def call_real(spec, fields, params, extra):
    """returns canonical result {"ok": [ret, mutated…]} / {"err": class}"""
    ft = {k: ptype(v) for k, v in spec.get("fields", {}).items()}
    pt = {k: ptype(v) for k, v in spec.get("params", {}).items()}
    mk = MAKE[spec["lean"]]
    try:
        if mk is None:
            import finam.adapters.time as tmod
            fn = getattr(tmod, spec["qual"])
            args = []
            import inspect
            for a in inspect.signature(fn).parameters:
                if a in spec.get("ignore_params", []):
                    args.append(None)
                else:
                    args.append(to_py(pt[a], params[a]))
            r = fn(*args)
            obj = None
        else:
            obj = mk(fields)
            for k, v in fields.items():
                if k in FIELD_ATTR:
                    continue
                setattr(obj, k, to_py(ft[k], v))
            if "has_targets" in fields and "prepared" not in extra:
                obj._targets = [object()] if fields.get("has_targets") else []
            if "src_data" in extra:
                obj._source = _Src(float(extra["src_data"]))
            if "pulled" in extra:
                # `_source_updated` pulls from upstream at the notification: the pulled value is the parameter
                import numpy as np
                obj._input_info = fm.Info(time=EPOCH, grid=fm.NoGrid(), units="")
                obj.pull_data = lambda time, target=None, _v=float(extra["pulled"]): fm.UNITS.Quantity(np.array([_v]), "")
            if "prepared" in extra:
                # `Output.push_data`: the payload is what `tools.prepare` makes of the pushed value
                obj._output_info = fm.Info(time=EPOCH, grid=fm.NoGrid(), units="")
                obj._connected_inputs = {k: v for k, v in obj._connected_inputs.items()}
                obj.notify_targets = lambda time: None
                obj._targets = [object()] if fields.get("has_targets") else []
            if spec.get("property"):
                getattr(obj, spec["qual"].split(".")[-1])   # a property: reading it is the call
                meth = lambda: None  # noqa
            else:
                meth = getattr(obj, spec["qual"].split(".")[-1])
            import inspect
            args = []
            for a in inspect.signature(meth).parameters:
                if a in spec.get("ignore_params", []):
                    args.append(float(extra["prepared"]) if (a == "data" and "prepared" in extra) else None)
                else:
                    args.append(to_py(pt[a], params[a]))
            r = meth(*args)
    except Exception as e:  # noqa
        return {"err": err_class(e), "msg": f"{type(e).__name__}: {str(e)[:120]}"}
    out = []
    rt = ptype(spec.get("ret", "Unit"))
    if rt != "Unit":
        if r is None and not (isinstance(rt, tuple) and rt[0] == "Opt"):
            # the function fell through with `None` where it declares a value (the translation reads that as an error)
            return {"err": "other", "msg": "returned None"}
        out.append(from_py(rt, r))
    for f in mutated_fields(spec):
        out.append(from_py(ft[f], getattr(obj, f)))
    return {"ok": out}


_MUT = {}


def mutated_fields(spec):
    if spec["lean"] not in _MUT:
        import ast
        tree = ast.parse(open(os.path.join(common.finam_src_root(), "finam", spec["path"])).read())
        fn = py2lean.find_function(tree, spec["qual"])
        _MUT[spec["lean"]] = py2lean.Tr(spec, fn).mutated
    return _MUT[spec["lean"]]


def result_types(spec):
    ft = {k: ptype(v) for k, v in spec.get("fields", {}).items()}
    rt = ptype(spec.get("ret", "Unit"))
    return ([] if rt == "Unit" else [rt]) + [ft[f] for f in mutated_fields(spec)]


def lean_result_split(types, v):
    """the Lean result is one value or a nested pair of the components"""
    if not types:
        return []
    if len(types) == 1:
        return [v]
    return [v[0]] + lean_result_split(types[1:], v[1])


UNIT_NAMES = ["m", "km", "mm", "s", "K", "degC", "L/m**2", "Pa", "N/m**2", ""]


def validate_units(rng, n, res):
    """the unit-pair memo functions on real pint units: the module's global dict is set to a random memo (also with
    wrong entries, as a stale memo would have), the real function is called, and the answer and the dict afterwards
    are compared with the translated definition (which receives pint's answer for the pair as a parameter)"""
    import numpy as np
    import pint
    import finam.data.tools.units as um

    units = [fm.UNITS.Unit(x) for x in UNIT_NAMES]
    stats = {}
    reqs, expect = [], []
    saved = dict(um._UNIT_PAIRS_CACHE)
    try:
        for fn_name, lean in (("_cache_units", "cache_units"), ("compatible_units", "compatible_units"),
                              ("equivalent_units", "equivalent_units")):
            if not common.TRANSLATION_STATUS.get(lean, {}).get("translated"):
                continue
            for _ in range(n):
                a, b = rng.randrange(len(units)), rng.randrange(len(units))
                keys = [(rng.randrange(len(units)), rng.randrange(len(units))) for _ in range(rng.randint(0, 4))]
                if rng.random() < 0.4:
                    keys.append((a, b))
                memo = {}
                for k in keys:
                    memo[k] = (rng.random() < 0.5, rng.random() < 0.5)
                try:
                    conv = bool(np.isclose((1.0 * units[a]).to(units[b]).magnitude, 1.0))
                except pint.errors.DimensionalityError:
                    conv = None
                um._UNIT_PAIRS_CACHE.clear()
                um._UNIT_PAIRS_CACHE.update({(units[i], units[j]): v for (i, j), v in memo.items()})
                try:
                    r = getattr(um, fn_name)(units[a], units[b])
                    idx = {id(u): i for i, u in enumerate(units)}
                    after = [[[units.index(k[0]), units.index(k[1])], [bool(v[0]), bool(v[1])]] for k, v in um._UNIT_PAIRS_CACHE.items()]
                    want = {"ok": [([bool(r[0]), bool(r[1])] if fn_name == "_cache_units" else bool(r)), after]}
                except Exception as e:  # noqa
                    want = {"err": err_class(e)}
                # two distinct Unit objects that compare equal ('Pa' / 'N/m**2' are different units; '' only once) share a key
                reqs.append({"fn": lean, "args": [a, b, [[[i, j], [bool(v[0]), bool(v[1])]] for (i, j), v in memo.items()], conv]})
                expect.append((lean, want))
    finally:
        um._UNIT_PAIRS_CACHE.clear()
        um._UNIT_PAIRS_CACHE.update(saved)
    for (lean, want), got, rq in zip(expect, _trdriver(reqs) if reqs else [], reqs):
        st = stats.setdefault(lean, {"cases": 0, "mismatch": 0})
        st["cases"] += 1
        if want != got:
            st["mismatch"] += 1
            res.diverge("translation/" + lean, rq, want, got)
    res.extra.setdefault("translation_validation", {}).update(stats)


def validate_lifecycle(res):
    """the status automaton, exhaustively: every status x every hook behaviour (leave the status alone / set any
    status), on the real `Component` methods, `Composition._check_status`, `Composition.__init__` (sites `created`,
    `initialize`) and `Composition._finalize_components` (site `finalize`), against the translated definitions"""
    from finam.interfaces import ComponentStatus as CS
    import finam.schedule as sched
    names = ["Component_initialize", "Component_connect", "Component_validate", "Component_update", "Component_finalize",
             "check_status", "site_created", "site_initialize", "site_finalize"]
    if not all(common.TRANSLATION_STATUS.get(f, {}).get("translated") for f in names):
        return

    class Stub(fm.Component):
        def __init__(self, hook):
            super().__init__()
            self.hook = hook

        def _do(self):
            if self.hook is not None:
                self.status = CS(self.hook)

        def _initialize(self):
            self._do()

        def _connect(self, start_time):
            self._do()

        def _validate(self):
            self._do()

        def _update(self):
            self._do()

        def _finalize(self):
            self._do()

    def outcome(f, c):
        try:
            f()
            return {"ok": c.status.value}
        except Exception as e:  # noqa
            return {"err": err_class(e), "msg": f"{type(e).__name__}: {str(e)[:100]}"}

    reqs, reals = [], []
    lists = [[0], [1], [2, 3, 4], [5], [5, 6], [5, 6, 7], [8], [], [9, 0]]
    for st in range(10):
        for hook in [None] + list(range(10)):
            for meth in ("initialize", "connect", "validate", "update", "finalize"):
                c = Stub(hook)
                c.status = CS(st)
                reqs.append({"fn": "Component_" + meth, "args": [st, hook]})
                reals.append(outcome((lambda c=c, meth=meth: getattr(c, meth)(EPOCH) if meth == "connect" else getattr(c, meth)()), c))
            # Composition.__init__ : check CREATED, initialize, check INITIALIZED
            c = Stub(hook)
            c.status = CS(st)
            r = outcome(lambda c=c: fm.Composition([c]), c)
            reqs.append({"fn": "site_created", "args": [st]})
            reqs.append({"fn": "site_initialize", "args": [st, hook]})
            reals.append(("init", r))
            reals.append(None)
            # Composition._finalize_components on a composition whose component is in status st
            c = Stub(None)
            comp = fm.Composition([c])
            c.hook = hook
            c.status = CS(st)
            reqs.append({"fn": "site_finalize", "args": [st, hook]})
            reals.append(outcome(comp._finalize_components, c))
        c = Stub(None)
        comp = fm.Composition([c])
        for dl in lists:
            c.status = CS(st)
            reqs.append({"fn": "check_status", "args": [dl, st]})
            r = outcome(lambda dl=dl: comp._check_status(c, [CS(x) for x in dl]), c)
            reals.append({"ok": []} if "ok" in r else r)
    lean = _trdriver(reqs)
    stats = {"cases": 0, "mismatch": 0, "errors": 0}
    i = 0
    while i < len(reqs):
        rq, real = reqs[i], reals[i]
        if isinstance(real, tuple):     # the two sites of __init__ in sequence
            a, b = lean[i], lean[i + 1]
            lv = a if "err" in a else b
            real = real[1]
            step = 2
        else:
            lv, step = lean[i], 1
        stats["cases"] += 1
        stats["errors"] += "err" in real
        agree = (real.get("err") == lv.get("err")) if ("err" in real or "err" in lv) else (
            lv["ok"] == real["ok"] or (real["ok"] == [] and lv["ok"] in ([], None)))
        if not agree:
            stats["mismatch"] += 1
            res.diverge("translation/" + rq["fn"], {"fn": rq["fn"], "args": rq["args"]}, real, lv)
        i += step
    res.extra["translation_validation_lifecycle"] = stats


def validate_collect_heap(rng, n_cases, res):
    """live coupling forests (the harness of C19, incl. adapters shared by several inputs): the real
    `_collect_adapters_input` / `_collect_adapters_output` of every input / output and `Composition._collect_adapters`
    against the translated definitions on the extracted attribute tables; sets are compared as sets"""
    from finam import schedule as sched
    from .engines import c19

    if not all(common.TRANSLATION_STATUS.get(f, {}).get("translated") for f in
               ("collect_adapters_input", "collect_adapters_output", "collect_adapters")):
        return
    stats = {"forests": 0, "collect_adapters_input": 0, "collect_adapters_output": 0, "collect_adapters": 0,
             "mismatch": 0, "adapters_collected": 0}
    for _ in range(n_cases):
        case = c19.gen_case(rng)
        try:
            composition, comps, objs_by_pos, _created, _log = c19.build_objects(case)
        except Exception:  # noqa
            continue
        stats["forests"] += 1
        objs = list(comps)
        seen = {id(o) for o in objs}
        for c in comps:
            for o in list(c.outputs.values()) + list(c.inputs.values()):
                if id(o) not in seen:
                    seen.add(id(o))
                    objs.append(o)
        for o in objs_by_pos.values():
            if id(o) not in seen:
                seen.add(id(o))
                objs.append(o)
        heap, ix = extract_heap(objs)
        reqs, expect = [], []

        def real(f, x):
            acc = set()
            try:
                f(x, acc)
                return {"ok": sorted(ix[id(a)] for a in acc)}
            except Exception as e:  # noqa
                return {"err": err_class(e)}

        for c in comps:
            for inp in c.inputs.values():
                reqs.append({"fn": "collect_adapters_input", "args": [heap, ix[id(inp)]]})
                expect.append(("collect_adapters_input", real(sched._collect_adapters_input, inp)))
            for out in c.outputs.values():
                reqs.append({"fn": "collect_adapters_output", "args": [heap, ix[id(out)]]})
                expect.append(("collect_adapters_output", real(sched._collect_adapters_output, out)))
        try:
            composition._adapters = set()
            composition._collect_adapters()
            whole = {"ok": sorted(ix[id(a)] for a in composition._adapters)}
        except Exception as e:  # noqa
            whole = {"err": err_class(e)}
        reqs.append({"fn": "collect_adapters", "args": [heap, [ix[id(c)] for c in composition._components]]})
        expect.append(("collect_adapters", whole))
        for (fn, want), got in zip(expect, _trdriver(reqs)):
            stats[fn] += 1
            if "ok" in want and "ok" in got:
                agree = sorted(got["ok"]) == want["ok"] and len(set(got["ok"])) == len(got["ok"])
                stats["adapters_collected"] += len(want["ok"])
            else:
                agree = want.get("err") == got.get("err")
            if not agree:
                stats["mismatch"] += 1
                res.diverge("translation/" + fn, {"case": case, "fn": fn}, want, got)
    res.extra["translation_validation_collect"] = stats


def validate_info(rng, n, res):
    """`masks_compatible` and `Info.accepts` of the package on the catalogue of C07 (grids, units, explicit masks, the two
    `Mask` members, `None`) against the translated definitions; what the package says about two grids / units / explicit
    masks goes to the translated code as tables computed from the live package"""
    from finam.data.tools import mask as mtools
    from .engines import c07

    if not all(common.TRANSLATION_STATUS.get(f, {}).get("translated") for f in ("masks_compatible", "Info_accepts")):
        return
    ng = len(c07.GRIDS)
    gobj = lambda g: None if g is None else c07.GRIDS[g][1]  # noqa
    mcode = lambda m: None if m is None else (-1 if m == "flex" else -2 if m == "none" else m)  # noqa
    mobj = lambda m: None if m is None else (fm.Mask.FLEX if m == "flex" else fm.Mask.NONE if m == "none" else c07.MASKS[m])  # noqa
    gopts = [None] + list(range(ng))
    mopts = [None, "flex", "none"] + list(c07.MASKS)
    uids = list(range(c07.N_UNITS))

    def fits(m, g):
        return not isinstance(m, int) or g is None or c07.GRID_NAMES[g] in c07.MASK_FITS[m]

    def safe(f, *a):
        try:
            return bool(f(*a))
        except Exception:  # noqa
            return None

    me_cache = {}

    def me_table(pairs):
        out = []
        for (a, b, g1, g2) in pairs:
            k = (a, b, g1, g2)
            if k not in me_cache:
                me_cache[k] = safe(mtools.masks_equal, mobj(a), mobj(b), gobj(g1), gobj(g2))
            if me_cache[k]:
                out.append([[mcode(a), mcode(b)], [g1, g2]])
        return out

    reqs, reals = [], []
    for _ in range(n):
        this, inc = rng.choice(mopts), rng.choice(mopts)
        tg, ig = rng.choice(gopts), rng.choice(gopts)
        if not (fits(this, tg) and fits(inc, ig)):
            continue
        ds = rng.random() < 0.5
        tab = me_table([(a, b, g1, g2) for a in (this, inc) for b in (this, inc) for g1 in (tg, ig) for g2 in (tg, ig)])
        real = safe(mtools.masks_compatible, mobj(this), mobj(inc), ds, gobj(tg), gobj(ig))
        if real is None:
            continue
        reqs.append({"fn": "masks_compatible", "args": [mcode(this), mcode(inc), ds, tg, ig, tab]})
        reals.append(real)
        # Info.accepts
        su, iu = rng.choice([None] + uids), rng.choice([None] + uids)
        if tg is None and isinstance(this, int):
            continue
        try:
            self_info = fm.Info(time=None, grid=gobj(tg), units=None if su is None else c07.unit_obj(su), mask=mobj(this))
            self_info.mask = mobj(this)
            inc_info = fm.Info(time=None, grid=gobj(ig), units=None if iu is None else c07.unit_obj(iu), mask=mobj(inc))
            inc_info.mask = mobj(inc)
        except Exception:  # noqa
            continue
        if (self_info.units is None) != (su is None) or (inc_info.units is None) != (iu is None):
            continue
        real = safe(self_info.accepts, inc_info, {}, ds)
        if real is None:
            continue
        gc = [[tg, ig]] if tg is not None and safe(gobj(tg).compatible_with, gobj(ig)) else []
        uc = [[su, iu]] if su is not None and iu is not None and safe(fm.data.tools.compatible_units, c07.unit_obj(su), c07.unit_obj(iu)) else []
        reqs.append({"fn": "Info_accepts", "args": [tg, mcode(this), su, ds, ig, mcode(inc), iu, gc, uc, tab]})
        reals.append(real)
    # Output.get_info on real outputs: own info and request drawn from the catalogue, open fields on either side
    if common.TRANSLATION_STATUS.get("Output_get_info", {}).get("translated"):
        KEYS = {"units": 0, "foo": 1, "bar": 2}
        for _ in range(n):
            og, ig = rng.choice(gopts), rng.choice(gopts)
            om, im = rng.choice(["flex", "none"] + [m for m in c07.MASKS if fits(m, og) and og is not None]), rng.choice(mopts)
            if not fits(im, ig):
                continue
            ou, iu = rng.choice([None] + uids), rng.choice([None] + uids)
            ot, it = rng.choice([None, 0, 1]), rng.choice([None, 0, 2])
            static = rng.random() < 0.2
            oextra = {k: rng.choice([None, 1, 2]) for k in ("foo", "bar") if rng.random() < 0.5}
            iextra = {k: rng.choice([None, 1, 3]) for k in ("foo", "bar") if rng.random() < 0.6}
            try:
                tm = lambda x: None if x is None else EPOCH + x * dt.timedelta(days=1)  # noqa
                oinfo = fm.Info(time=tm(ot), grid=gobj(og), mask=mobj(om), units=None if ou is None else c07.unit_obj(ou), **oextra)
                iinfo = fm.Info(time=tm(it), grid=gobj(ig), mask=mobj(im), units=None if iu is None else c07.unit_obj(iu), **iextra)
                iinfo.mask = mobj(im)
                out = fm.Output(name="o", static=static, info=oinfo)
            except Exception:  # noqa
                continue
            if (oinfo.units is None) != (ou is None) or (iinfo.units is None) != (iu is None):
                continue
            uid = lambda u: None if u is None else next((k for k in uids if c07.unit_obj(k) == u), -1)  # noqa
            enc_meta = lambda info: [[KEYS[k], (uid(v) if k == "units" else v)] for k, v in info.meta.items()]  # noqa
            ometa, imeta = enc_meta(oinfo), enc_meta(iinfo)
            tab = me_table([(a, b, g1, g2) for a in (om, im) for b in (om, im) for g1 in (og, ig) for g2 in (og, ig)])
            gc = [[og, ig]] if og is not None and safe(gobj(og).compatible_with, gobj(ig)) else []
            uc = [[ou, iu]] if ou is not None and iu is not None and safe(fm.data.tools.compatible_units, c07.unit_obj(ou), c07.unit_obj(iu)) else []
            us_ = lambda x: None if x is None else x * 86_400_000_000  # noqa
            try:
                r = out.get_info(iinfo)
                gid = next((k for k in range(ng) if r.grid is c07.GRIDS[k][1]), -1)
                real = {"ok": [out._out_infos_exchanged, gid, enc_meta(r), None if r.time is None else us_of(r.time)]}
            except Exception as e:  # noqa
                real = {"err": err_class(e)}
            reqs.append({"fn": "Output_get_info", "args": [True, og, us_(ot), mcode(om), ou, ometa, static, 0, ig, us_(it), mcode(im), iu, imeta, gc, uc, tab]})
            reals.append(real)
    # Input.exchange_info on real inputs: own metadata from the constructor or with the call (or both / neither), a stub
    # source that answers with a catalogue info, first and repeated calls
    if common.TRANSLATION_STATUS.get("Input_exchange_info", {}).get("translated"):
        class _Src:
            def __init__(self, ans):
                self.ans = ans

            def get_info(self, _info):
                return self.ans

        for _ in range(n // 2):
            og, sg = rng.choice(gopts), rng.choice(gopts)
            om, sm = rng.choice(mopts), rng.choice(mopts)
            if not (fits(om, og) and fits(sm, sg)) or (og is None and isinstance(om, int)) or (sg is None and isinstance(sm, int)):
                continue
            ou, su = rng.choice([None] + uids), rng.choice([None] + uids)
            if og is not None and rng.random() < 0.5:
                sg = og
            if rng.random() < 0.5:
                su = ou
            if rng.random() < 0.4:
                sm = om
            try:
                own = fm.Info(time=None, grid=gobj(og), mask=mobj(om), units=None if ou is None else c07.unit_obj(ou))
                own.mask = mobj(om)
                src = fm.Info(time=None, grid=gobj(sg), mask=mobj(sm), units=None if su is None else c07.unit_obj(su))
                src.mask = mobj(sm)
            except Exception:  # noqa
                continue
            if (own.units is None) != (ou is None) or (src.units is None) != (su is None):
                continue
            mode = rng.choice(["ctor", "ctor", "call", "call", "both", "neither"])
            inp = fm.Input(name="i", info=own if mode in ("ctor", "both") else None)
            inp._source = _Src(src)
            tab = me_table([(a, b, g1, g2) for a in (om, sm) for b in (om, sm) for g1 in (og, sg) for g2 in (og, sg)])
            gc = [[og, sg]] if og is not None and safe(gobj(og).compatible_with, gobj(sg)) else []
            uc = [[ou, su]] if ou is not None and su is not None and safe(fm.data.tools.compatible_units, c07.unit_obj(ou), c07.unit_obj(su)) else []
            orig_copy = fm.Info.copy_with
            fm.Info.copy_with = lambda self_, *a, **k: self_ if self_ is src else orig_copy(self_, *a, **k)  # the merged info is not part of the slice
            try:
                for _call in range(rng.choice([1, 1, 2])):
                    before = [bool(inp._in_info_exchanged), inp._input_info is not None, mode in ("call", "both")]
                    try:
                        inp.exchange_info(own if mode in ("call", "both") else None)
                        real = {"ok": True}
                    except Exception as e:  # noqa
                        # (an error of `get_transform_to` comes after the input was marked: the gate itself succeeded)
                        real = {"ok": True} if (inp._in_info_exchanged and not before[0]) else {"err": err_class(e)}
                    reqs.append({"fn": "Input_exchange_info", "args": before + [og, mcode(om), ou, sg, mcode(sm), su, gc, uc, tab]})
                    reals.append(real)
                    if mode in ("ctor",) and "ok" in real:
                        mode = "ctor"
                    elif "ok" in real and mode == "call":
                        mode = "ctor"       # the merged info is stored: a further call brings nothing with it
            finally:
                fm.Info.copy_with = orig_copy
    if not reqs:
        return
    stats = {"masks_compatible": 0, "Info_accepts": 0, "Output_get_info": 0, "Input_exchange_info": 0, "accepted": 0, "mismatch": 0}
    for rq, real, lv in zip(reqs, reals, _trdriver(reqs)):
        stats[rq["fn"]] += 1
        stats["accepted"] += bool(real)
        if isinstance(real, dict):
            if "ok" not in lv and "err" not in lv:
                agree = False       # the validation driver does not know the function (it could not be rebuilt)
            elif "err" in real or "err" in lv:
                agree = real.get("err") == lv.get("err")
            elif rq["fn"] == "Input_exchange_info":
                agree = lv["ok"] is True and real["ok"] is True
                stats["accepted"] += 1
            else:
                ex, (g, (md, t)) = lv["ok"][0], (lv["ok"][1][0], (lv["ok"][1][1][0], lv["ok"][1][1][1]))
                agree = [ex, g, [list(p) for p in md], t] == real["ok"]
                stats["accepted"] += 1
            if not agree:
                stats["mismatch"] += 1
                res.diverge("translation/" + rq["fn"], {"fn": rq["fn"], "args": rq["args"]}, real, lv)
            continue
        if lv.get("ok") is not real:
            stats["mismatch"] += 1
            res.diverge("translation/" + rq["fn"], {"fn": rq["fn"], "args": rq["args"]}, real, lv)
    res.extra["translation_validation_info"] = stats


def validate_regrid(rng, n, res):
    """`ARegridding._get_info` / `_check_and_set_out_mask` on *real* adapter objects (a subclass whose
    `_update_grid_specs` is `RegridNearest`'s as far as the metadata go, and whose upstream exchange answers with a
    given info) against the translated definitions: one to three requests per adapter, the state carried from one
    to the next; grids, masks, `a != b`, `x.crs` come from the live catalogue (plus two grids that carry a CRS)"""
    from finam.adapters.regrid import ARegridding
    from finam.data.tools import mask as mtools
    from .engines import c07

    if not all(common.TRANSLATION_STATUS.get(f, {}).get("translated") for f in ("ARegridding__get_info", "ARegridding__check_and_set_out_mask")):
        return
    grids = [g for _n, g in c07.GRIDS] + [fm.UniformGrid((3, 4), crs="EPSG:4326"), fm.UniformGrid((4, 5), crs="EPSG:4326")]
    names = list(c07.GRID_NAMES) + ["u34_crs", "u45_crs"]
    ng = len(grids)
    gid = lambda g: None if g is None else next((k for k in range(ng) if grids[k] is g), -1)  # noqa
    no_attr = [k for k in range(ng) if not hasattr(grids[k], "crs")]
    with_crs = [[k, 1] for k in range(ng) if getattr(grids[k], "crs", None) is not None]
    ne_tab = []
    for a in range(ng):
        for b in range(ng):
            try:
                if grids[a] != grids[b]:
                    ne_tab.append([a, b])
            except Exception:  # noqa
                pass
    mopts = [None, "flex", "none"] + list(c07.MASKS)
    mobj = lambda m: None if m is None else (fm.Mask.FLEX if m == "flex" else fm.Mask.NONE if m == "none" else c07.MASKS[m])  # noqa

    def mcode(o):
        if o is None:
            return None
        if o is fm.Mask.FLEX:
            return -1
        if o is fm.Mask.NONE:
            return -2
        for k, arr in c07.MASKS.items():
            if np.shape(o) == arr.shape and np.array_equal(np.asarray(o), arr):
                return k
        return 99

    def fits(m, g):
        if not isinstance(m, int) or g is None:
            return True
        nm = names[g][:-4] if names[g].endswith("_crs") else names[g]
        return nm in c07.MASK_FITS[m]

    explicit = sorted(c07.MASKS)
    me_tab = []
    for a in [None, -1, -2] + explicit:
        for b in [None, -1, -2] + explicit:
            ao = mobj({-1: "flex", -2: "none"}.get(a, a))
            bo = mobj({-1: "flex", -2: "none"}.get(b, b))
            try:
                if mtools.masks_equal(ao, bo, None, None):
                    me_tab.append([[a, b], [None, None]])
            except Exception:  # noqa
                pass

    class MetaRegrid(ARegridding):
        answer = None

        def _update_grid_specs(self):
            self._check_and_set_out_mask()

        def _get_data(self, time, target):
            return None

        def exchange_info(self, info=None):
            return self.answer

    def state(ad):
        return [gid(ad.input_grid), gid(ad.output_grid), mcode(ad.output_mask), mcode(ad.downstream_mask), mcode(ad.input_mask),
                bool(ad._is_initialized), bool(ad._out_mask_checked)]

    def flat(x):
        out = []
        while isinstance(x, list) and len(x) == 2 and isinstance(x[1], list) and len(out) < 5:
            out.append(x[0])
            x = x[1]
        return out + (x if isinstance(x, list) else [x])

    reqs, reals = [], []
    stats = {"adapters": 0, "ARegridding__get_info": 0, "ARegridding__check_and_set_out_mask": 0, "ok": 0, "errors": {}, "second_calls": 0, "mismatch": 0}
    pick = lambda xs, p_none=0.3: None if rng.random() < p_none else rng.choice(xs)  # noqa
    plain = [k for k in range(ng) if k not in no_attr]
    for _ in range(n):
        ig0 = pick(plain + no_attr[:1], 0.6)
        og0 = pick(plain + no_attr[:1], 0.5)
        om0 = rng.choice([None, None, "flex", "none"] + explicit)
        if not fits(om0, og0):
            continue
        try:
            ad = MetaRegrid(in_grid=None if ig0 is None else grids[ig0], out_grid=None if og0 is None else grids[og0], out_mask=mobj(om0))
        except Exception:  # noqa
            continue
        stats["adapters"] += 1
        wild = rng.random() < 0.35     # a third of the adapters see arbitrary requests, the others mostly well-formed ones
        for call in range(rng.choice([1, 2, 2, 3])):
            ing = pick(plain, 0.15 if wild else 0.03) if rng.random() < (0.9 if wild else 0.98) else rng.choice(no_attr)
            if ig0 is not None and ing is not None and rng.random() < 0.5:
                ing = ig0
            inm = rng.choice(([None] if wild else []) + ["flex", "none", "none"] + [m for m in explicit if fits(m, ing)])
            rg = pick(plain, 0.3 if wild or og0 is not None else 0.0) if rng.random() < (0.9 if wild else 0.98) else rng.choice(no_attr)
            if og0 is not None and rg is not None and rng.random() < (0.6 if wild else 0.9):
                rg = og0
            if call and rg is not None and ad.output_grid is not None and rng.random() < (0.5 if wild else 0.9):
                rg = gid(ad.output_grid)
            rm = rng.choice(([None] if wild else []) + ["flex", "flex", "none"] + [m for m in explicit if fits(m, rg)])
            if not wild and mcode(ad.output_mask) is not None and mcode(ad.output_mask) >= 0 and rng.random() < 0.6:
                rm = rng.choice(["flex", mcode(ad.output_mask)])
            try:
                answer = fm.Info(time=None, grid=None if ing is None else grids[ing], mask=mobj(inm))
                answer.mask = mobj(inm)
                req = fm.Info(time=None, grid=None if rg is None else grids[rg], mask=mobj(rm))
                req.mask = mobj(rm)
            except Exception:  # noqa
                break
            ad.answer = answer
            before = state(ad)
            if 99 in before or -1 in before[:2]:
                break
            # (the final `copy_with` of the answer is not part of the translated slice: its errors are not compared)
            orig_copy = fm.Info.copy_with
            marker = {}

            def cw(self_, *a, **k):
                if self_ is answer:
                    marker["reached"] = True
                    return self_
                return orig_copy(self_, *a, **k)
            fm.Info.copy_with = cw
            try:
                try:
                    ad._get_info(req)
                    real = {"ok": state(ad)}
                except Exception as e:  # noqa
                    real = {"err": err_class(e)}
            finally:
                fm.Info.copy_with = orig_copy
            reqs.append({"fn": "ARegridding__get_info", "args": before + [rg, mcode(mobj(rm)), ing, mcode(mobj(inm)), ne_tab, no_attr, with_crs, me_tab]})
            reals.append(real)
            if call:
                stats["second_calls"] += 1
            if "err" in real:
                break
        # the mask procedure alone, on a fresh state
        om, dm, chk = rng.choice(mopts), rng.choice(mopts), rng.random() < 0.2
        ad2 = MetaRegrid(out_mask=mobj(om))
        ad2.downstream_mask, ad2._out_mask_checked = mobj(dm), chk
        try:
            ad2._check_and_set_out_mask()
            real = {"ok": [bool(ad2._out_mask_checked), mcode(ad2.output_mask)]}
        except Exception as e:  # noqa
            real = {"err": err_class(e)}
        reqs.append({"fn": "ARegridding__check_and_set_out_mask", "args": [mcode(mobj(om)), mcode(mobj(dm)), chk, me_tab]})
        reals.append(real)
    if not reqs:
        return
    for rq, real, lv in zip(reqs, reals, _trdriver(reqs)):
        stats[rq["fn"]] += 1
        if "err" in real or "err" in lv:
            agree = real.get("err") == lv.get("err")
            if "err" in real:
                stats["errors"][real["err"]] = stats["errors"].get(real["err"], 0) + 1
        else:
            stats["ok"] += 1
            got = flat(lv["ok"])
            if rq["fn"] == "ARegridding__get_info":
                stats["get_info_ok"] = stats.get("get_info_ok", 0) + 1
                if rq["args"][5]:
                    stats["get_info_ok_initialized"] = stats.get("get_info_ok_initialized", 0) + 1
                # translated order: (_is_initialized, _out_mask_checked, downstream_mask, input_grid, input_mask, output_grid, output_mask)
                got = [got[3], got[5], got[6], got[2], got[4], got[0], got[1]]
            agree = got == real["ok"]
        if not agree:
            stats["mismatch"] += 1
            res.diverge("translation/" + rq["fn"], {"fn": rq["fn"], "args": rq["args"]}, real, lv)
    res.extra["translation_validation_regrid"] = stats


def validate_spill(rng, n, res):
    """`Output._pack` / `_unpack` / `_clear_data` / `finalize` on *real* outputs with a memory limit and a scratch
    directory against the translated definitions: histories of publications (plain and masked payloads of different
    sizes), pulls by one or two end points, reads of stored entries, files that vanish behind the output's back, and the
    finalisation; before every call the live state (buffer, memory account, counter, directory listing with file contents)
    is handed to the translated function, afterwards result and state are compared"""
    import shutil
    import tempfile

    need = ("Output__pack", "Output__unpack", "Output__clear_data_files", "Output_finalize", "TimeCachingAdapter__clear_cached_data_files",
            "TimeCachingAdapter__unpack", "TimeCachingAdapter__finalize")
    if not all(common.TRANSLATION_STATUS.get(f, {}).get("translated") for f in need):
        return
    stats = {"outputs": 0, "adapters": 0, "spilled": 0, "masked_spilled": 0, "evicted_files": 0, "errors": {}, "mismatch": 0}
    stats.update({f: 0 for f in need})
    reqs, reals = [], []
    units = fm.UNITS.Unit("m")

    def payload(k, ln, masked):
        a = np.full((ln,), float(k))
        if masked:
            a = np.ma.masked_array(a, mask=[i % 2 == 0 for i in range(ln)] if ln > 1 else [False])
        return fm.UNITS.Quantity(a, units)

    def key_of(q):
        m = q.magnitude if hasattr(q, "magnitude") else q
        return 2 * int(round(float(np.ma.getdata(m).flat[0])))

    for _ in range(n):
        tmp = tempfile.mkdtemp(prefix="finam_verif_spill_")
        try:
            is_ad = rng.random() < 0.4
            if is_ad:
                out = rng.choice([fm.adapters.NextTime, fm.adapters.LinearTime, fm.adapters.AvgOverTime])()
                out._input_info = fm.Info(time=EPOCH, grid=fm.NoGrid(), units="m")
                stats["adapters"] += 1
            else:
                out = fm.Output(name="o", info=fm.Info(time=EPOCH, grid=fm.NoGrid(), units="m"))
            limit = rng.choice([None, -1, 0, 0, 16, 40, 64, 10_000])
            out.memory_limit, out.memory_location = limit, tmp
            tg = [object() for _ in range(rng.choice([1, 2]))]
            out._connected_inputs = {o: None for o in tg}
            tid = {id(o): j for j, o in enumerate(tg)}
            stats["outputs"] += not is_ad
            nb, masked_ids = {}, []

            def fname_id(path):
                return 2 * int(os.path.basename(path)[:-4].split("-")[-1]) + 1

            def enc_data():
                return [[us_of(t), (fname_id(d) if isinstance(d, str) else key_of(d))] for t, d in out.data]

            def enc_fs():
                o = []
                for f in sorted(os.listdir(tmp), key=lambda x: int(x[:-4].split("-")[-1])):
                    o.append([fname_id(f), key_of(np.load(os.path.join(tmp, f), allow_pickle=True))])
                return o

            def enc_ci():
                return [[tid[id(o)], None if t is None else us_of(t)] for o, t in out._connected_inputs.items()]

            def fs_set(x):
                return sorted(map(tuple, x))

            k, tnow = 0, 0
            steps = rng.randint(3, 9)
            alive = True
            for _s in range(steps):
                if not alive:
                    break
                r = rng.random()
                if r < 0.45 or not out.data:
                    k += 1
                    ln = rng.choice([1, 2, 5, 8])
                    is_m = rng.random() < 0.3
                    q = payload(k, ln, is_m)
                    nb[2 * k] = int(q.nbytes)
                    if is_m:
                        masked_ids.append(2 * k)
                    before = [limit, int(out._total_mem), int(out._mem_counter), enc_fs(), 2 * k, [[a, b] for a, b in nb.items()], list(masked_ids)]
                    try:
                        ret = out._pack(q)
                        tnow += rng.choice([1, 1, 2])
                        out.data.append((EPOCH + dt.timedelta(hours=tnow), ret))
                        rid = fname_id(ret) if isinstance(ret, str) else key_of(ret)
                        real = {"ok": [rid, int(out._mem_counter), int(out._total_mem), fs_set(enc_fs())]}
                        if isinstance(ret, str):
                            stats["spilled"] += 1
                            stats["masked_spilled"] += is_m
                    except Exception as e:  # noqa
                        real, alive = {"err": err_class(e)}, False
                    reqs.append({"fn": "Output__pack", "args": before})
                    reals.append(real)
                elif r < 0.6:
                    j = rng.randrange(len(out.data))
                    w = out.data[j][1]
                    if isinstance(w, str) and rng.random() < 0.1:
                        os.remove(w)       # the file vanishes behind the output's back
                    before = [enc_fs(), fname_id(w) if isinstance(w, str) else key_of(w)]
                    try:
                        real = {"ok": key_of(out._unpack(w))}
                    except Exception as e:  # noqa
                        real = {"err": err_class(e)}
                    reqs.append({"fn": "TimeCachingAdapter__unpack" if is_ad else "Output__unpack", "args": before})
                    reals.append(real)
                    if "err" in real:
                        alive = False
                elif r < 0.9:
                    tgt = rng.choice(tg)
                    j = rng.choice([len(out.data) - 1, len(out.data) - 1, rng.randrange(len(out.data))])
                    t_req = out.data[j][0] + dt.timedelta(minutes=rng.choice([0, 0, 20]))
                    if isinstance(out.data[0][1], str) and rng.random() < 0.05:
                        os.remove(out.data[0][1])
                    nfiles = len(os.listdir(tmp))
                    if is_ad:
                        before = [enc_data(), int(out._total_mem), enc_fs(), us_of(t_req), [[a, b] for a, b in nb.items()]]
                        try:
                            out._clear_cached_data(t_req)
                            real = {"ok": [int(out._total_mem), enc_data(), fs_set(enc_fs())]}
                            stats["evicted_files"] += nfiles - len(os.listdir(tmp))
                        except Exception as e:  # noqa
                            real, alive = {"err": err_class(e)}, False
                        reqs.append({"fn": "TimeCachingAdapter__clear_cached_data_files", "args": before})
                        reals.append(real)
                        continue
                    before = [enc_data(), enc_ci(), int(out._total_mem), enc_fs(), us_of(t_req), tid[id(tgt)], [[a, b] for a, b in nb.items()]]
                    try:
                        out._clear_data(t_req, tgt)
                        real = {"ok": [enc_ci(), int(out._total_mem), enc_data(), fs_set(enc_fs())]}
                        stats["evicted_files"] += nfiles - len(os.listdir(tmp))
                    except Exception as e:  # noqa
                        real, alive = {"err": err_class(e)}, False
                    reqs.append({"fn": "Output__clear_data_files", "args": before})
                    reals.append(real)
            if alive:
                before = [enc_data(), enc_fs()]
                try:
                    (out._finalize if is_ad else out.finalize)()
                    real = {"ok": [enc_data(), fs_set(enc_fs())]}
                except Exception as e:  # noqa
                    real = {"err": err_class(e)}
                reqs.append({"fn": "TimeCachingAdapter__finalize" if is_ad else "Output_finalize", "args": before})
                reals.append(real)
        finally:
            shutil.rmtree(tmp, ignore_errors=True)
    if not reqs:
        return

    def flat(x, n_):
        o = []
        while len(o) < n_ - 1:
            o.append(x[0])
            x = x[1]
        return o + [x]

    for rq, real, lv in zip(reqs, reals, _trdriver(reqs)):
        stats[rq["fn"]] += 1
        if "err" in real or "err" in lv:
            agree = real.get("err") == lv.get("err")
            if "err" in real:
                stats["errors"][real["err"]] = stats["errors"].get(real["err"], 0) + 1
        elif rq["fn"] == "Output__pack":
            g = flat(lv["ok"], 4)
            agree = [g[0], g[1], g[2], sorted(map(tuple, g[3]))] == real["ok"]
        elif rq["fn"].endswith("__unpack"):
            agree = lv["ok"] == real["ok"]
        elif rq["fn"] == "TimeCachingAdapter__clear_cached_data_files":
            g = flat(lv["ok"], 3)
            agree = [g[0], [list(p) for p in g[1]], sorted(map(tuple, g[2]))] == real["ok"]
        elif rq["fn"] == "Output__clear_data_files":
            g = flat(lv["ok"], 4)
            agree = [[list(p) for p in g[0]], g[1], [list(p) for p in g[2]], sorted(map(tuple, g[3]))] == real["ok"]
        else:
            g = flat(lv["ok"], 2)
            agree = [[list(p) for p in g[0]], sorted(map(tuple, g[1]))] == real["ok"]
        if not agree:
            stats["mismatch"] += 1
            res.diverge("translation/" + rq["fn"], {"fn": rq["fn"], "args": rq["args"]}, real, lv)
    res.extra["translation_validation_spill"] = stats


def validate_push_data(rng, n, res):
    """`ConnectHelper._push_data` of a real helper object with recording outputs against the translated definition:
    static / non-static outputs, start time and metadata time equal, different or absent"""
    from finam.tools.connect_helper import ConnectHelper

    if not common.TRANSLATION_STATUS.get("ConnectHelper__push_data", {}).get("translated"):
        return

    class _Out:
        def __init__(self, static, trace):
            self.is_static, self.trace = static, trace

        def push_data(self, _data, t):
            self.trace.append(t)

    reqs, reals = [], []
    stats = {"ConnectHelper__push_data": 0, "static": 0, "two_publications": 0, "mismatch": 0}
    for _ in range(n):
        names = rng.sample(range(4), rng.randint(1, 3))
        nm = rng.choice(names)
        static = rng.random() < 0.3
        t0 = rng.choice([None, 0, 1, 2])
        ti = rng.choice([None, 0, 1, 2]) if rng.random() < 0.7 else t0
        trace = [rng.choice([None, 0, 5]) for _ in range(rng.choice([0, 0, 1]))]
        pushed = {k: rng.random() < 0.3 for k in names}
        tm = lambda x: None if x is None else EPOCH + x * dt.timedelta(days=1)  # noqa
        us_ = lambda x: None if x is None else x * 86_400_000_000  # noqa
        h = ConnectHelper.__new__(ConnectHelper)
        h.base_logger_name = "finam_verif"
        live = [tm(x) for x in trace]
        h._outputs = {str(k): _Out(static, live if k == nm else []) for k in names}
        h._pushed_data = {str(k): v for k, v in pushed.items()}
        h._out_data_cache = {str(nm): 1.0}
        try:
            h._push_data(str(nm), 1.0, tm(t0), tm(ti))
            real = {"ok": [[[int(k), bool(v)] for k, v in h.data_pushed.items()], [None if t is None else us_of(t) for t in live]]}
        except Exception as e:  # noqa
            real = {"err": err_class(e)}
        reqs.append({"fn": "ConnectHelper__push_data", "args": [[[k, v] for k, v in pushed.items()], [us_(x) for x in trace], nm, us_(t0), us_(ti), static]})
        reals.append(real)
        stats["static"] += static
        stats["two_publications"] += (not static) and t0 != ti
    for rq, real, lv in zip(reqs, reals, _trdriver(reqs)):
        stats["ConnectHelper__push_data"] += 1
        if "err" in real or "err" in lv:
            agree = real.get("err") == lv.get("err")
        else:
            agree = [[list(p) for p in lv["ok"][0]], lv["ok"][1]] == real["ok"]
        if not agree:
            stats["mismatch"] += 1
            res.diverge("translation/" + rq["fn"], {"fn": rq["fn"], "args": rq["args"]}, real, lv)
    res.extra["translation_validation_push_data"] = stats


def validate_notify(rng, n, res):
    """`Output.notify_targets`, `Adapter.notify_targets`, `Adapter.source_updated` of real objects with recording targets
    (pull-based and push-based ones alike) against the translated definitions"""
    need = ("Output_notify_targets", "Adapter_notify_targets", "Adapter_source_updated")
    if not all(common.TRANSLATION_STATUS.get(f, {}).get("translated") for f in need):
        return

    class _T:
        def __init__(self, k, log, push):
            self.k, self.log, self.needs_push, self.needs_pull = k, log, push, not push

        def source_updated(self, t):
            self.log.append([self.k, None if t is None else us_of(t)])

    reqs, reals = [], []
    stats = {f: 0 for f in need}
    stats.update({"targets": 0, "mismatch": 0})
    for _ in range(n):
        fn = rng.choice(need)
        ids = rng.sample(range(6), rng.randint(0, 4))
        log = [[9, 0]] if rng.random() < 0.2 else []
        before = [list(x) for x in log]
        t = rng.choice([None, 0, 1, 5])
        tt = None if t is None else EPOCH + t * dt.timedelta(hours=1)
        targets = [_T(k, log, rng.random() < 0.5) for k in ids]
        if fn == "Output_notify_targets":
            obj = fm.Output(name="o", static=t is None, info=fm.Info(time=None if t is None else EPOCH, grid=fm.NoGrid(), units="m"))
            obj._targets = targets
            call = obj.notify_targets
        else:
            obj = fm.adapters.Scale(1.0)
            obj._targets = targets
            obj._source_updated = lambda _t: None
            call = obj.notify_targets if fn == "Adapter_notify_targets" else obj.source_updated
        try:
            call(tt)
            real = {"ok": [list(x) for x in log]}
        except Exception as e:  # noqa
            real = {"err": err_class(e)}
        reqs.append({"fn": fn, "args": [ids, before, None if t is None else us_of(tt)]})
        reals.append(real)
        stats["targets"] += len(ids)
    for rq, real, lv in zip(reqs, reals, _trdriver(reqs)):
        stats[rq["fn"]] += 1
        agree = (real.get("err") == lv.get("err")) if ("err" in real or "err" in lv) else [list(p) for p in lv["ok"]] == real["ok"]
        if not agree:
            stats["mismatch"] += 1
            res.diverge("translation/" + rq["fn"], {"fn": rq["fn"], "args": rq["args"]}, real, lv)
    res.extra["translation_validation_notify"] = stats


def validate_delay_get_data(rng, n, res):
    """`TimeDelayAdapter.get_data` of real `DelayFixed` adapters whose upstream pull is recorded: sequences of requests by
    one or two end points (interleaving, going back in time), the recorded upstream requests compared with the
    translated definition evaluated with the translated `DelayFixed.with_delay`"""
    if not all(common.TRANSLATION_STATUS.get(f, {}).get("translated") for f in ("TimeDelayAdapter_get_data", "DelayFixed_with_delay")):
        return
    hour = dt.timedelta(hours=1)
    reqs, reals = [], []
    stats = {"TimeDelayAdapter_get_data": 0, "adapters": 0, "back_in_time": 0, "mismatch": 0}
    for _ in range(n):
        d, init = rng.choice([0, 1, 2, 3, 5]), rng.choice([0, 0, 2])
        adp = fm.adapters.DelayFixed(d * hour)
        adp.initial_time = EPOCH + init * hour
        adp._output_info = fm.Info(time=EPOCH, grid=fm.NoGrid(), units="m")
        seen = []
        tg = [object(), object()]
        tid = {id(o): k for k, o in enumerate(tg)}
        adp.pull_data = lambda t, target=None, seen=seen: (seen.append([us_of(t), tid[id(target)]]), fm.UNITS.Quantity(np.array(7.0), "m"))[1]
        pulled = []
        adp._pulled = lambda t, pulled=pulled: pulled.append(us_of(t))
        stats["adapters"] += 1
        last = None
        for _k in range(rng.randint(1, 5)):
            t = init + rng.randint(0, 9)
            if last is not None and t < last:
                stats["back_in_time"] += 1
            last = t
            who = rng.choice(tg)
            before = [[list(x) for x in seen], list(pulled)]
            try:
                v = adp.get_data(EPOCH + t * hour, who)
                real = {"ok": [int(round(float(np.asarray(fm.data.get_magnitude(v)).reshape(-1)[0]))), list(pulled), [list(x) for x in seen]]}
            except Exception as e:  # noqa
                real = {"err": err_class(e)}
            reqs.append({"fn": "TimeDelayAdapter_get_data", "args": before + [us_of(EPOCH + t * hour), tid[id(who)], d * 3_600_000_000, us_of(adp.initial_time), 7]})
            reals.append(real)
    for rq, real, lv in zip(reqs, reals, _trdriver(reqs)):
        stats["TimeDelayAdapter_get_data"] += 1
        if "err" in real or "err" in lv:
            agree = real.get("err") == lv.get("err")
        else:
            a, (p, r) = lv["ok"][0], (lv["ok"][1][0], lv["ok"][1][1])
            agree = [a, list(p), [list(x) for x in r]] == real["ok"]
        if not agree:
            stats["mismatch"] += 1
            res.diverge("translation/" + rq["fn"], {"fn": rq["fn"], "args": rq["args"]}, real, lv)
    res.extra["translation_validation_delay_get_data"] = stats


def _applied(rules, marks, table, ch):
    """stand-in for `_apply_rules`: the rule set of slot k answers with the table's info id, or MissingInfoError"""
    k = next(k for k, m in marks.items() if m is rules)
    if k not in table:
        raise ch.MissingInfoError()
    return table[k]


def validate_rules(rng, n, res):
    """`_transfer_fields` and `ConnectHelper._apply_rules` of the real package on random rule lists (FromInput / FromOutput
    / FromValue in any order, with and without field lists, missing infos, missing metadata keys) against the translated
    definitions"""
    from finam.tools import connect_helper as ch

    if not all(common.TRANSLATION_STATUS.get(f, {}).get("translated") for f in ("transfer_fields", "ConnectHelper__apply_rules")):
        return
    KEYS = {0: "time", 1: "grid", 2: "units", 3: "foo", 4: "bar"}
    grids = [fm.NoGrid(), fm.UniformGrid((3, 4)), fm.UniformGrid((4, 5))]
    times = [EPOCH, EPOCH + dt.timedelta(days=1), EPOCH + dt.timedelta(days=2)]
    units = ["m", "km", "s", ""]

    def mk_info(spec):
        if spec is None:
            return None
        t, g, meta = spec
        kw = {KEYS[k]: (units[v] if k == 2 else v) for k, v in meta if v is not None and k != 2}
        u = dict(meta).get(2)
        return fm.Info(time=None if t is None else times[t], grid=None if g is None else grids[g], units=None if u is None else units[u], **kw)

    def enc_info(info):
        if info is None:
            return None
        t = None if info.time is None else times.index(info.time)
        g = None if info.grid is None else next(k for k, x in enumerate(grids) if x is info.grid)
        meta = []
        for k, v in info.meta.items():
            kid = next(i for i, nm in KEYS.items() if nm == k)
            if kid == 2:
                v = None if v is None else next((i for i, u in enumerate(units) if fm.UNITS.Unit(u) == v), 99)
            meta.append([kid, v])
        return [t, [g, meta]]

    def gen_info_spec():
        if rng.random() < 0.15:
            return None
        meta = [[2, rng.choice([None, 0, 1, 2])]]
        for k in (3, 4):
            if rng.random() < 0.5:
                meta.append([k, rng.choice([1, 2, 3])])
        return [rng.choice([None, 0, 1, 2]), rng.choice([None, 0, 1, 2]), meta]

    reqs, reals = [], []
    stats = {"transfer_fields": 0, "ConnectHelper__apply_rules": 0, "ok": 0, "errors": {}, "mismatch": 0}
    for _ in range(n):
        ins = {k: gen_info_spec() for k in rng.sample(range(3), rng.randint(0, 2))}
        outs = {k: gen_info_spec() for k in rng.sample(range(3), rng.randint(0, 2))}
        rules, objs = [], []
        for _r in range(rng.randint(0, 4)):
            kind = rng.choice([0, 0, 1, 2, 2])
            if kind == 2:
                f = rng.choice([0, 1, 3, 4])
                v = rng.choice([0, 1, 2])
                val = times[v] if f == 0 else grids[v] if f == 1 else v
                rules.append([kind, [f, [[], v]]])
                objs.append(ch.FromValue(KEYS[f], val))
            else:
                pool = ins if kind == 0 else outs
                name = rng.choice(list(pool) or [0]) if rng.random() < 0.95 else 2
                fields = rng.choice([[], [], [0], [1], [0, 1], [3], [2, 0], [4, 3]])
                rules.append([kind, [name, [fields, None]]])
                objs.append((ch.FromInput if kind == 0 else ch.FromOutput)(str(name), [KEYS[f] for f in fields] or None))
        h = ch.ConnectHelper.__new__(ch.ConnectHelper)
        h.base_logger_name = "finam_verif"
        h._exchanged_in_infos = {str(k): mk_info(v) for k, v in ins.items()}
        h._exchanged_out_infos = {str(k): mk_info(v) for k, v in outs.items()}
        enc_pool = lambda d: [[int(k), enc_info(v)] for k, v in d.items()]  # noqa
        args = [enc_pool(h._exchanged_in_infos), enc_pool(h._exchanged_out_infos), rules]
        try:
            r = h._apply_rules(objs)
            real = {"ok": enc_info(r)}
        except ch.MissingInfoError:
            real = {"err": "other"}
        except Exception as e:  # noqa
            real = {"err": err_class(e)}
        # (the units entry every fresh Info carries: `Info(time=None, grid=None)` has units None under key "units")
        reqs.append({"fn": "ConnectHelper__apply_rules", "args": args, "fresh_units": True})
        reals.append(real)
    # which rule sets are applied in a call: `_apply_in_info_rules` / `_apply_out_info_rules` with `_apply_rules` replaced by a
    # table (slot -> info id, absent = MissingInfoError), caching on / off, entries waiting in the cache
    wr = {"ConnectHelper__apply_in_info_rules": 0, "ConnectHelper__apply_out_info_rules": 0}
    if all(common.TRANSLATION_STATUS.get(f, {}).get("translated") for f in wr):
        for _ in range(n):
            names = rng.sample(range(5), rng.randint(1, 4))
            table = {k: rng.randint(10, 19) for k in names if rng.random() < 0.7}
            cache = rng.random() < 0.6
            waiting = {k: rng.randint(20, 29) for k in names if rng.random() < 0.3}
            side = rng.choice(["in", "out"])
            h = ch.ConnectHelper.__new__(ch.ConnectHelper)
            h.base_logger_name = "finam_verif"
            h._cache = cache
            marks = {k: object() for k in names}
            h._apply_rules = lambda rules, marks=marks, table=table: _applied(rules, marks, table, ch)
            if side == "in":
                done = {k: rng.random() < 0.3 for k in names}
                h._in_info_rules = {str(k): marks[k] for k in names}
                h._exchanged_in_infos = {str(k): (fm.Info(time=None, grid=None) if done[k] else None) for k in names}
                h._in_info_cache = {str(k): v for k, v in waiting.items()}
                fn, call = "ConnectHelper__apply_in_info_rules", h._apply_in_info_rules
                args = [[[k, 0] for k in names], [[k, [] if done[k] else None] for k in names], cache, [[k, v] for k, v in waiting.items()],
                        [[k, v] for k, v in table.items()]]
            else:
                done = {k: rng.random() < 0.3 for k in names}
                h._out_info_rules = {str(k): marks[k] for k in names}
                h._pushed_infos = {str(k): done[k] for k in names}
                h._out_info_cache = {str(k): v for k, v in waiting.items()}
                fn, call = "ConnectHelper__apply_out_info_rules", h._apply_out_info_rules
                args = [[[k, 0] for k in names], [[k, done[k]] for k in names], cache, [[k, v] for k, v in waiting.items()],
                        [[k, v] for k, v in table.items()]]
            try:
                real = {"okw": [[int(k), v] for k, v in call().items()]}
            except Exception as e:  # noqa
                real = {"err": err_class(e)}
            reqs.append({"fn": fn, "args": args})
            reals.append(real)
    stats.update(wr)
    for rq, real, lv in zip(reqs, reals, _trdriver([{"fn": r["fn"], "args": r["args"]} for r in reqs])):
        stats[rq["fn"]] += 1
        if "okw" in real:
            agree = "ok" in lv and [list(p) for p in lv["ok"]] == real["okw"]
            if not agree:
                stats["mismatch"] += 1
                res.diverge("translation/" + rq["fn"], {"fn": rq["fn"], "args": rq["args"]}, real, lv)
            continue
        if "err" in real or "err" in lv:
            agree = real.get("err") == lv.get("err")
            if "err" in real:
                stats["errors"][real["err"]] = stats["errors"].get(real["err"], 0) + 1
        else:
            stats["ok"] += 1
            t, (g, meta) = lv["ok"][0], (lv["ok"][1][0], lv["ok"][1][1])
            got_meta = {k: v for k, v in meta}
            want_meta = {k: v for k, v in real["ok"][1][1]}
            agree = t == real["ok"][0] and g == real["ok"][1][0] and got_meta == want_meta
        if not agree:
            stats["mismatch"] += 1
            res.diverge("translation/" + rq["fn"], {"fn": rq["fn"], "args": rq["args"]}, real, lv)
    res.extra["translation_validation_rules"] = stats


def validate_connect_loop(rng, n, res):
    """the real `Composition._connect_components` on stub components whose `connect` reports scripted statuses
    (CONNECTING / CONNECTING_IDLE / CONNECTED in any order, scripts that run dry) against the translated loop: outcome
    (returns / circular-coupling error / other error) and the final statuses"""
    from finam import schedule as sched
    from finam.interfaces import ComponentStatus as CS

    if not common.TRANSLATION_STATUS.get("connect_components", {}).get("translated"):
        return
    code = {CS.CONNECTED: 0, CS.CONNECTING: 1, CS.CONNECTING_IDLE: 2, CS.INITIALIZED: 3}
    back = {v: k for k, v in code.items()}

    class _C:
        def __init__(self, k, script):
            self.k, self.script, self.status, self.name = k, list(script), CS.INITIALIZED, f"c{k}"

        def connect(self, _t):
            if not self.script:
                raise RuntimeError("script ran dry")
            self.status = back[self.script.pop(0)]

    reqs, reals = [], []
    stuck_reqs, stuck_want = [], []
    stats = {"connect_components": 0, "returned": 0, "circular": 0, "other": 0, "mismatch": 0, "stuck_lists": 0}
    for _ in range(n):
        k = rng.randint(1, 4)
        scripts = []
        for _c in range(k):
            r = rng.random()
            if r < 0.6:     # some work, then connected
                sc_ = [rng.choice([1, 1, 2]) for _ in range(rng.randint(0, 4))] + [0]
            elif r < 0.85:  # stalls
                sc_ = [rng.choice([1, 2]) for _ in range(rng.randint(0, 3))] + [2] * 12
            else:
                sc_ = [rng.choice([0, 1, 2]) for _ in range(rng.randint(0, 5))]
            scripts.append(sc_)
        order = list(range(k))
        rng.shuffle(order)
        comps = [_C(c, scripts[c]) for c in order]
        comp = sched.Composition.__new__(sched.Composition)
        comp._components = comps
        comp._logger_name = "finam_verif"
        comp._logger = None
        comp._check_status = lambda c, allowed: None
        try:
            sched.Composition._connect_components(comp, EPOCH)
            real = {"ok": sorted([c.k, code[c.status]] for c in comps)}
        except Exception as e:  # noqa
            real = {"err": err_class(e)}
            if (real["err"] == "FinamCircularCouplingError" and "Unconnected components: [" in str(e)
                    and common.TRANSLATION_STATUS.get("connect_stuck", {}).get("translated")):
                # whom the error names, against the translated comprehension on the statuses the components are left with
                inner = str(e).split("Unconnected components: [", 1)[1].rsplit("]", 1)[0]
                named = [int(nm.strip()[1:]) for nm in inner.split(",") if nm.strip()]
                stuck_reqs.append({"fn": "connect_stuck", "args": [[c.k for c in comps], [[c.k, code[c.status]] for c in comps]]})
                stuck_want.append({"ok": named})
        reqs.append({"fn": "connect_components", "args": [order, [[c, 3] for c in order], [[c, scripts[c]] for c in range(k)], 100]})
        reals.append(real)
    for rq, real, lv in zip(reqs, reals, _trdriver(reqs)):
        stats["connect_components"] += 1
        if "err" in real or "err" in lv:
            agree = real.get("err") == lv.get("err")
            stats["circular" if real.get("err") == "FinamCircularCouplingError" else "other"] += 1
        else:
            stats["returned"] += 1
            agree = sorted(list(p) for p in lv["ok"][0]) == real["ok"]
        if not agree:
            stats["mismatch"] += 1
            res.diverge("translation/" + rq["fn"], {"fn": rq["fn"], "args": rq["args"]}, real, lv)
    if stuck_reqs:
        for rq, want, got in zip(stuck_reqs, stuck_want, _trdriver(stuck_reqs)):
            stats["stuck_lists"] += 1
            if got != want:
                stats["mismatch"] += 1
                res.diverge("translation/connect_stuck", {"fn": "connect_stuck", "args": rq["args"]}, want, got)
    res.extra["translation_validation_connect_loop"] = stats


def validate_finalize(rng, n, res):
    """the real `Composition._finalize_components` on stub components and adapters that record their `finalize` calls
    against the translated definition"""
    from finam import schedule as sched

    if not common.TRANSLATION_STATUS.get("finalize_components", {}).get("translated"):
        return

    class _X:
        def __init__(self, k, log):
            self.k, self.log, self.name, self.status = k, log, f"x{k}", None

        def finalize(self):
            self.log.append(self.k)

    reqs, reals = [], []
    stats = {"finalize_components": 0, "mismatch": 0}
    for _ in range(n):
        cs = rng.sample(range(8), rng.randint(0, 4))
        ads = rng.sample(range(10, 20), rng.randint(0, 5))
        fin, fa = [], []
        comp = sched.Composition.__new__(sched.Composition)
        comp._logger_name, comp._logger = "finam_verif", None
        comp._components = [_X(k, fin) for k in cs]
        objs = [_X(k, fa) for k in ads]
        comp._adapters = set(objs)
        comp._check_status = lambda c, allowed: None
        order = [o.k for o in comp._adapters]       # the order in which this Python set is iterated
        try:
            sched.Composition._finalize_components(comp)
            real = {"ok": [list(fin), list(fa)]}
        except Exception as e:  # noqa
            real = {"err": err_class(e)}
        reqs.append({"fn": "finalize_components", "args": [cs, order, [], []]})
        reals.append(real)
    for rq, real, lv in zip(reqs, reals, _trdriver(reqs)):
        stats["finalize_components"] += 1
        agree = (real.get("err") == lv.get("err")) if ("err" in real or "err" in lv) else [list(lv["ok"][0]), list(lv["ok"][1])] == real["ok"]
        if not agree:
            stats["mismatch"] += 1
            res.diverge("translation/" + rq["fn"], {"fn": rq["fn"], "args": rq["args"]}, real, lv)
    res.extra["translation_validation_finalize"] = stats


def validate_ping(rng, n, res):
    """`Output.pinged` on real outputs (plain inputs, adapters, repeated pings) and `Adapter.pinged` on real pass-through and
    push-based adapters with a recording source, against the translated definitions"""
    if not all(common.TRANSLATION_STATUS.get(f, {}).get("translated") for f in ("Output_pinged", "Adapter_pinged")):
        return

    class _Rec:
        def __init__(self):
            self.got = []

        def pinged(self, who):
            self.got.append(who)

    reqs, reals = [], []
    stats = {"Output_pinged": 0, "Adapter_pinged": 0, "errors": 0, "mismatch": 0}
    for _ in range(n):
        if rng.random() < 0.6:
            out = fm.Output(name="o", info=fm.Info(time=EPOCH, grid=fm.NoGrid(), units="m"))
            objs = [fm.Input(name=f"i{k}") for k in range(3)] + [fm.adapters.Scale(1.0), fm.adapters.LinearTime()]
            ids = {id(o): k for k, o in enumerate(objs)}
            for _k in range(rng.randint(1, 5)):
                who = rng.choice(objs)
                before = [[ids[id(o)], None if t is None else us_of(t)] for o, t in out._connected_inputs.items()]
                try:
                    out.pinged(who)
                    real = {"ok": [[ids[id(o)], None if t is None else us_of(t)] for o, t in out._connected_inputs.items()]}
                except Exception as e:  # noqa
                    real = {"err": err_class(e)}
                    stats["errors"] += 1
                if rng.random() < 0.3 and out._connected_inputs:
                    out._connected_inputs[rng.choice(list(out._connected_inputs))] = EPOCH + dt.timedelta(hours=rng.randint(0, 5))
                reqs.append({"fn": "Output_pinged", "args": [before, ids[id(who)], [3, 4]]})
                reals.append(real)
        else:
            adp = rng.choice([fm.adapters.Scale(1.0), fm.adapters.LinearTime(), fm.adapters.NextTime(), fm.adapters.DelayFixed(dt.timedelta(hours=1))])
            rec = _Rec()
            adp._source = rec
            who = fm.Input(name="i")
            try:
                adp.pinged(who)
                real = {"ok": [7 if x is adp else 9 for x in rec.got]}
            except Exception as e:  # noqa
                real = {"err": err_class(e)}
            reqs.append({"fn": "Adapter_pinged", "args": [bool(adp.needs_push), [], 9, 7]})
            reals.append(real)
    for rq, real, lv in zip(reqs, reals, _trdriver(reqs)):
        stats[rq["fn"]] += 1
        if "err" in real or "err" in lv:
            agree = real.get("err") == lv.get("err")
        else:
            agree = [list(p) if isinstance(p, list) else p for p in lv["ok"]] == real["ok"]
        if not agree:
            stats["mismatch"] += 1
            res.diverge("translation/" + rq["fn"], {"fn": rq["fn"], "args": rq["args"]}, real, lv)
    res.extra["translation_validation_ping"] = stats


def validate(prop, rng, n_per_fn, res):
    """runs the validation for the translated functions owned by `prop`; divergences go to `res`"""
    if prop in ("C13", "C02") and os.path.exists(TRDRIVER):
        validate_delay_get_data(rng, max(100, n_per_fn), res)
    if prop in ("C01", "C11", "C12") and os.path.exists(TRDRIVER):
        validate_notify(rng, max(150, n_per_fn), res)
    if prop == "C06" and os.path.exists(TRDRIVER):
        validate_push_data(rng, max(200, n_per_fn), res)
        validate_rules(rng, max(300, n_per_fn), res)
        validate_connect_loop(rng, max(300, n_per_fn), res)
    if prop == "C09" and os.path.exists(TRDRIVER):
        validate_ping(rng, max(150, n_per_fn), res)
    if prop == "C10" and os.path.exists(TRDRIVER):
        validate_spill(rng, max(150, n_per_fn), res)
    if prop in ("C07", "C16") and os.path.exists(TRDRIVER):
        validate_regrid(rng, max(400, 3 * n_per_fn), res)
    if prop == "C07" and os.path.exists(TRDRIVER):
        validate_info(rng, max(1500, 10 * n_per_fn), res)
    if prop == "C03" and os.path.exists(TRDRIVER):
        validate_finalize(rng, max(100, n_per_fn), res)
    if prop == "C03" and os.path.exists(TRDRIVER):
        validate_collect_heap(rng, max(20, n_per_fn), res)
    if prop == "C03" and os.path.exists(TRDRIVER):
        validate_lifecycle(res)
    if prop == "C17" and os.path.exists(TRDRIVER):
        validate_units(rng, n_per_fn, res)
    owned = {sp["lean"] for sp in trspecs.SPECS if prop in sp["props"]}
    if prop in ("C01", "C02", "C04") and {"find_dependencies", "update_recursive"} <= owned and os.path.exists(TRDRIVER) \
            and all(common.TRANSLATION_STATUS.get(f, {}).get("translated") for f in
                    ("find_dependencies", "update_recursive", "DelayFixed_with_delay", "DelayToPull_with_delay", "DelayToPush_with_delay")):
        validate_sched_heap(rng, max(6, n_per_fn // 3), res)
    if prop in ("C02", "C03", "C05") and os.path.exists(TRDRIVER):
        validate_run_loop(rng, max(12, n_per_fn // 2), res)
    if prop == "C14" and os.path.exists(TRDRIVER):
        validate_gridmemo(rng, max(60, n_per_fn), res)
    if prop == "C18" and os.path.exists(TRDRIVER):
        validate_maskrules(rng, max(600, 6 * n_per_fn), res)
    if prop == "C07" and os.path.exists(TRDRIVER):
        validate_adapter_info(rng, max(60, n_per_fn), res)
    if prop == "C15" and os.path.exists(TRDRIVER):
        validate_gridcompat(rng, max(60, 2 * n_per_fn), res)
        validate_canonical(rng, max(80, 2 * n_per_fn), res)
    if prop == "C19" and os.path.exists(TRDRIVER):
        validate_linking(rng, max(40, n_per_fn), res)
    if prop == "C19" and os.path.exists(TRDRIVER) and all(common.TRANSLATION_STATUS.get(f, {}).get("translated") for f in
                                                         ("check_input_connected", "check_dead_links", "check_branching")):
        validate_topology_heap(rng, max(20, n_per_fn), res)
    specs = [sp for sp in trspecs.SPECS if prop in sp["props"] and supported(sp)
             and common.TRANSLATION_STATUS.get(sp["lean"], {}).get("translated")]
    if not specs or not os.path.exists(TRDRIVER):
        if specs:
            res.extra["translation_validation"] = {"skipped": "trdriver not built"}
        return
    reqs, metas = [], []
    for sp in specs:
        ft = {k: ptype(v) for k, v in sp.get("fields", {}).items()}
        pt = {k: ptype(v) for k, v in sp.get("params", {}).items() if k not in sp.get("ignore_params", [])}
        et = {k: ptype(v) for k, v in sp.get("extra_params", {}).items()}
        for _ in range(n_per_fn):
            scale = rng.choice([1, 3, 1000, 3_600_000_000])
            ctx = {"scale": scale, "times": [k * scale for k in range(0, 14)]}
            fields = {k: gen(t, rng, ctx) for k, t in ft.items()}
            if "steps" in fields:
                fields["steps"] = max(1, fields["steps"])
            params = {k: gen(t, rng, ctx) for k, t in pt.items()}
            extra = {k: gen(t, rng, ctx) for k, t in et.items()}
            args = ([enc(ft[k], fields[k]) for k in ft] + [enc(pt[k], params[k]) for k in pt]
                    + [enc(et[k], extra[k]) for k in et])
            reqs.append({"fn": sp["lean"], "args": args})
            metas.append((sp, fields, params, extra))
    data = "\n".join(json.dumps(r, separators=(",", ":")) for r in reqs) + "\n"
    p = subprocess.run([TRDRIVER], input=data, capture_output=True, text=True, timeout=600)
    lines = p.stdout.splitlines()
    if p.returncode != 0 or len(lines) != len(reqs):
        raise common.MachineryError(f"trdriver failed: {p.stderr[-500:]} ({len(lines)} answers for {len(reqs)} requests)")
    stats = {}
    for (sp, fields, params, extra), ln, rq in zip(metas, lines, reqs):
        lean = json.loads(ln)
        real = call_real(sp, fields, params, extra)
        st = stats.setdefault(sp["lean"], {"cases": 0, "ok": 0, "errors": {}, "mismatch": 0})
        st["cases"] += 1
        agree = True
        if "ok" not in lean and "err" not in lean:
            agree = False    # the translated definition did not answer (it no longer builds into the driver)
        elif "err" in real or "err" in lean:
            agree = real.get("err") == lean.get("err")
            if "err" in real:
                st["errors"][real["err"]] = st["errors"].get(real["err"], 0) + 1
        else:
            types = result_types(sp)
            lv = lean_result_split(types, lean["ok"])
            agree = len(lv) == len(real["ok"]) and all(same(t, a, b) for t, a, b in zip(types, real["ok"], lv))
            st["ok"] += agree
        if not agree:
            st["mismatch"] += 1
            res.diverge("translation/" + sp["lean"], {"fn": sp["lean"], "args": rq["args"]}, real, lean)
    res.extra["translation_validation"] = stats


# ---------------------------------------------------------------------------------------------
# object graphs: the translated driver functions against the real ones on live compositions
# ---------------------------------------------------------------------------------------------
class _Selected(Exception):
    def __init__(self, comp):
        super().__init__("selected")
        self.comp = comp


def us_of(t):
    return 0 if t is None else int((t - EPOCH) / US)


def extract_heap(objs):
    """attribute tables of a list of live objects (components, slots, adapters), indexed by position in `objs`"""
    from finam import interfaces as itf

    ix = {id(o): i for i, o in enumerate(objs)}
    gid = lambda o: ix.get(id(o), 0)  # noqa
    is_ = lambda cls: [isinstance(o, cls) for o in objs]  # noqa
    attr = lambda name: [bool(getattr(o, name, False)) if not isinstance(o, itf.IComponent) else False for o in objs]  # noqa

    def delay(o):
        if isinstance(o, ad.DelayFixed):
            return ["dfix", int(o.delay / US), us_of(o.initial_time)]
        if isinstance(o, ad.DelayToPull):
            return ["dpull", [us_of(t) for t in o._pulls], int(o.additional_delay / US), us_of(o.initial_time)]
        if isinstance(o, ad.DelayToPush):
            return ["dpush", None if o.push_time is None else us_of(o.push_time), us_of(o.initial_time)]
        return ["id"]

    def safe_time(o):
        try:
            return us_of(o.time)
        except Exception:  # noqa
            return 0

    def safe_next(o):
        try:
            return us_of(o.next_time) if isinstance(o, itf.ITimeComponent) else 0
        except Exception:  # noqa
            return 0

    return {
        "isInput": is_(itf.IInput), "isOutput": is_(itf.IOutput), "isAdapter": is_(itf.IAdapter),
        "isNoDep": is_(itf.NoDependencyAdapter), "isDelay": is_(itf.ITimeDelayAdapter), "isNoBranch": is_(itf.NoBranchAdapter),
        "isTimeComp": is_(itf.ITimeComponent), "needsPush": attr("needs_push"), "needsPull": attr("needs_pull"),
        "isStatic": attr("is_static"),
        "finished": [isinstance(o, itf.IComponent) and o.status == fm.ComponentStatus.FINISHED for o in objs],
        "hasSource": [isinstance(o, itf.IInput) and o.source is not None for o in objs],
        "source": [gid(o.source) if isinstance(o, itf.IInput) and o.source is not None else 0 for o in objs],
        "time": [safe_time(o) if not isinstance(o, itf.IInput) or isinstance(o, itf.IOutput) else 0 for o in objs],
        "nextTime": [safe_next(o) for o in objs],
        "delay": [delay(o) for o in objs],
        "owner": [0] * len(objs),
        "inputs": [[gid(i) for i in o.inputs.values()] if isinstance(o, itf.IComponent) else [] for o in objs],
        "outputs": [[gid(i) for i in o.outputs.values()] if isinstance(o, itf.IComponent) else [] for o in objs],
        "targets": [[gid(t) for t in o.targets] if isinstance(o, itf.IOutput) else [] for o in objs],
        "size": len(objs),
    }, ix


def _trdriver(reqs):
    data = "\n".join(json.dumps(r, separators=(",", ":")) for r in reqs) + "\n"
    p = subprocess.run([TRDRIVER], input=data, capture_output=True, text=True, timeout=600)
    lines = p.stdout.splitlines()
    if p.returncode != 0 or len(lines) != len(reqs):
        raise common.MachineryError(f"trdriver failed: {p.stderr[-500:]} ({len(lines)} answers for {len(reqs)} requests)")
    return [json.loads(ln) for ln in lines]


def validate_sched_heap(rng, n_specs, res, max_steps=10):
    """live compositions (the scheduler harness of C01-C04): before every update of a hand-driven run loop the real
    `_find_dependencies` of every component and the real `_update_recursive` of the least advanced one are compared
    with the translated definitions evaluated on the attribute tables extracted from the live objects"""
    from finam import schedule as sched
    from .engines import sched_common as sc
    from .engines import c20
    from .schedlib import build, TH

    stats = {"compositions": 0, "find_dependencies": 0, "update_recursive": 0, "mismatch": 0, "errors": {}}
    for _ in range(n_specs):
        r = rng.random()
        spec = (sc.gen_dag(rng, pull_comps=True) if r < 0.35 else sc.gen_ring(rng, resolved=rng.random() < 0.6) if r < 0.7
                else c20.gen_pull(rng) if r < 0.85 else sc.gen_mixed_delay_chain(rng))
        try:
            comp, comps, adapters, trace, _fin, link_objs = build(spec)
            times = [c["start"] for c in spec["comps"] if c["kind"] == "time"]
            comp.connect(TH(min(times)) if times else None)
        except Exception:  # noqa  (connect-phase failures are the business of C04 / C06)
            continue
        stats["compositions"] += 1
        objs = list(comps)
        for c in comps:
            objs += list(c.outputs.values()) + list(c.inputs.values())
        objs += adapters
        tcs = [c for c in comps if isinstance(c, fm.TimeComponent)]
        for _step in range(max_steps):
            heap, ix = extract_heap(objs)
            for out, owner in comp._output_owners.items():
                heap["owner"][ix[id(out)]] = ix[id(owner)]
            reqs, expect = [], []
            for c in comps:
                tgt = c.next_time if isinstance(c, fm.TimeComponent) else min(x.next_time for x in tcs)
                try:
                    d = sched._find_dependencies(c, comp._output_owners, tgt)
                    want = {"ok": [[ix[id(o)], [us_of(v[0]), bool(v[1])]] for o, v in d.items()]}
                except Exception as e:  # noqa
                    want = {"err": err_class(e)}
                reqs.append({"fn": "find_dependencies", "args": [heap, ix[id(c)], us_of(tgt)]})
                expect.append(("find_dependencies", want))
            sel = sorted(tcs, key=lambda m: m.time)[0]
            reqs.append({"fn": "update_recursive", "args": [heap, len(comps) + 1, ix[id(sel)]]})
            # the real call, with `update()` of every component replaced by a marker: the decision is observed, the
            # update itself (whose pulls may fail for reasons that are C01's business) is performed afterwards
            chosen = None
            originals = {}
            for c in comps:
                originals[id(c)] = c.__dict__.get("update")
                c.update = (lambda c=c: (_ for _ in ()).throw(_Selected(c)))
            try:
                comp._update_recursive(sel)
                want = {"err": "other"}      # unreachable: a time component was handed in
            except _Selected as e:
                chosen = e.comp
                want = {"ok": ix[id(chosen)]}
            except Exception as e:  # noqa
                want = {"err": err_class(e)}
            finally:
                for c in comps:
                    if originals[id(c)] is None:
                        del c.__dict__["update"]
                    else:
                        c.update = originals[id(c)]
            expect.append(("update_recursive", want))
            answers = _trdriver(reqs)
            for (fn, want), got, rq in zip(expect, answers, reqs):
                stats[fn] += 1
                if "err" in want or "err" in got:
                    agree = want.get("err") == got.get("err")
                    if "err" in want:
                        stats["errors"][want["err"]] = stats["errors"].get(want["err"], 0) + 1
                elif fn == "find_dependencies":
                    agree = want["ok"] == got["ok"]
                else:
                    agree = got["ok"][0] == want["ok"]   # (selected component, chain dict): the component
                if not agree:
                    stats["mismatch"] += 1
                    res.diverge("translation/" + fn, {"spec": spec, "fn": fn, "comp": rq["args"][-1] if fn == "update_recursive" else rq["args"][1]},
                                want, got)
            if chosen is None:
                break
            try:
                chosen.update()
            except Exception:  # noqa  (a failing pull inside the update: C01's recorded findings)
                break
        try:
            for a in adapters:
                a.finalize()
        except Exception:  # noqa
            pass
    res.extra["translation_validation_object_graphs"] = stats


def validate_run_loop(rng, n_specs, res):
    """live compositions (the scheduler harness of C01-C05) run by the real `Composition.run`, with the top-level calls of
    `_update_recursive` recorded: the table (time, FINISHED) of the time components before every call, the component handed
    in, the component it answered with, and the table after the last call.  The translated loop replays the tables as its
    world and must hand the same components to `_update_recursive`, in the same order, and stop after the same round."""
    from .engines import sched_common as sc
    from .engines import c05, c20
    from .schedlib import build, TH
    from .fmutil import limited

    if not common.TRANSLATION_STATUS.get("run_loop", {}).get("translated"):
        return
    stats = {"runs": 0, "rounds": 0, "finishing_components": 0, "aborted_runs": 0, "mismatch": 0}
    reqs, expect = [], []
    for _ in range(n_specs):
        r = rng.random()
        spec = (sc.gen_dag(rng, pull_comps=True) if r < 0.4 else sc.gen_ring(rng, resolved=True) if r < 0.65
                else c20.gen_pull(rng) if r < 0.8 else sc.gen_mixed_delay_chain(rng))
        if rng.random() < 0.3:
            tcs_spec = [c for c in spec["comps"] if c["kind"] == "time"]
            if tcs_spec:
                rng.choice(tcs_spec)["finish_at"] = rng.randint(1, max(1, spec.get("end", 6)))
        try:
            composition, comps, _adapters, _trace, _fin, _links = build(spec)
        except Exception:  # noqa
            continue
        ix = {id(c): k for k, c in enumerate(comps)}
        entries, last, depth = [], [None], [0]
        orig = composition._update_recursive

        def table():
            return [[ix[id(c)], [us_of(c.time), c.status == fm.ComponentStatus.FINISHED]]
                    for c in composition._components if isinstance(c, fm.ITimeComponent)]

        def wrapper(c, chain=None, target_time=None):
            top = depth[0] == 0
            pre = table() if top else None
            depth[0] += 1
            try:
                out = orig(c, chain, target_time)
            finally:
                depth[0] -= 1
            if top:
                entries.append((pre, ix[id(c)], ix[id(out)]))
                last[0] = table()
            return out

        composition._update_recursive = wrapper
        has_time = any(c["kind"] == "time" for c in spec["comps"])
        try:
            limited(60, composition.run, end_time=TH(spec["end"]) if has_time else None)
        except Exception:  # noqa  (failing runs are the business of C01 / C04)
            stats["aborted_runs"] += 1
            continue
        if not entries:
            continue
        stats["runs"] += 1
        stats["rounds"] += len(entries)
        stats["finishing_components"] += 1 if any(f for _i, (_t, f) in last[0]) else 0
        script = [[pre, upd] for pre, _c, upd in entries] + [[last[0], 0]]
        tcs = [ix[id(c)] for c in composition._components if isinstance(c, fm.ITimeComponent)]
        reqs.append({"fn": "run_loop", "args": [script, tcs, us_of(TH(spec["end"])), len(entries) + 5]})
        expect.append((spec, {"ok": [[c for _p, c, _u in entries], 1]}))
    if reqs:
        for (spec, want), got in zip(expect, _trdriver(reqs)):
            if got != want:
                stats["mismatch"] += 1
                res.diverge("translation/run_loop", {"spec": spec}, want, got)
    res.extra["translation_validation_run_loop"] = stats


def validate_linking(rng, n_cases, res):
    """live `Input` / `Output` objects: sequences of `inp.source = x` and `out.add_target(x)` with outputs, adapters, inputs
    and `None` as `x` — the attribute before, the answer (or error) and the attribute after, against the translated setter
    and `add_target`"""
    import logging

    from finam import interfaces as itf

    names = ("Input_set_source", "Output_add_target")
    if not all(common.TRANSLATION_STATUS.get(f, {}).get("translated") for f in names):
        return
    stats = {"set_source": 0, "accepted_sources": 0, "add_target": 0, "accepted_targets": 0, "mismatch": 0}
    reqs, expect = [], []
    prev = logging.root.manager.disable
    logging.disable(logging.CRITICAL)
    try:
        for _ in range(n_cases):
            objs = [fm.Output("o0"), fm.Output("o1"), fm.adapters.Scale(2.0), fm.Input("i0"), fm.Input("i1"), None]
            oid = lambda x: next(k for k, o in enumerate(objs) if o is x)  # noqa
            outs = [k for k, o in enumerate(objs) if isinstance(o, itf.IOutput)]
            ins = [k for k, o in enumerate(objs) if isinstance(o, itf.IInput)]
            inp, out = fm.Input("x"), fm.Output("y")
            for _step in range(rng.randint(2, 5)):
                x = rng.choice(objs)
                if rng.random() < 0.5:
                    before = None if inp._source is None else oid(inp._source)
                    try:
                        inp.source = x
                        want = {"ok": oid(inp._source)}
                        stats["accepted_sources"] += 1
                    except Exception as e:  # noqa
                        want = {"err": err_class(e)}
                    reqs.append({"fn": names[0], "args": [before, oid(x), outs]})
                    stats["set_source"] += 1
                else:
                    before = [oid(t) for t in out._targets]
                    try:
                        out.add_target(x)
                        want = {"ok": [oid(t) for t in out._targets]}
                        stats["accepted_targets"] += 1
                    except Exception as e:  # noqa
                        want = {"err": err_class(e)}
                    reqs.append({"fn": names[1], "args": [before, oid(x), ins]})
                    stats["add_target"] += 1
                expect.append((reqs[-1], want))
    finally:
        logging.disable(prev)
    if reqs:
        for (req, want), got in zip(expect, _trdriver(reqs)):
            if got != want:
                stats["mismatch"] += 1
                res.diverge("translation/" + req["fn"], {"fn": req["fn"], "args": req["args"]}, want, got)
    res.extra["translation_validation_linking"] = stats


def validate_adapter_info(rng, n_cases, res):
    """a live pass-through adapter (`adapters.Scale`) in front of a stub source whose `get_info` answers with a prepared
    `Info` or raises: `get_info`, `_get_info`, `exchange_info` of the real class against the translated methods; infos are
    compared by identity (the adapter must hand on the very object it got)"""
    names = ("Adapter_get_info", "Adapter__get_info", "Adapter_exchange_info")
    if not all(common.TRANSLATION_STATUS.get(f, {}).get("translated") for f in names):
        return
    stats = {"calls": 0, "delivered": 0, "source_raised": 0, "no_request": 0, "mismatch": 0}
    infos = [fm.Info(time=None, grid=fm.NoGrid(), units=u) for u in ("m", "km", "s", "", "kg")]
    iid = lambda x: None if x is None else next(k for k, i in enumerate(infos) if i is x)  # noqa

    class Stub:
        def __init__(self, table):
            self.table = table

        def get_info(self, info):
            d = self.table[iid(info)]
            if d is None:
                raise fm.errors.FinamMetaDataError("no agreement")
            return infos[d]

    reqs, expect = [], []
    for _ in range(n_cases):
        table = {k: (None if rng.random() < 0.25 else rng.randrange(len(infos))) for k in range(len(infos))}
        a = fm.adapters.Scale(2.0)
        a._source = Stub(table)
        for _step in range(rng.randint(1, 3)):
            fn = rng.choice(names)
            req = None if rng.random() < 0.15 else rng.randrange(len(infos))
            before = [iid(a._input_info), iid(a._output_info)]
            meth = {"Adapter_get_info": a.get_info, "Adapter__get_info": a._get_info, "Adapter_exchange_info": a.exchange_info}[fn]
            try:
                got = meth(None if req is None else infos[req])
                want = {"ok": [iid(got), [iid(a._input_info), iid(a._output_info)]]}
                stats["delivered"] += 1
            except Exception as e:  # noqa
                want = {"err": err_class(e)}
                stats["no_request" if req is None else "source_raised"] += 1
            reqs.append({"fn": fn, "args": before + [req, [[k, v] for k, v in table.items()]]})
            expect.append((fn, req, table, want))
            stats["calls"] += 1
    if reqs:
        for (fn, req, table, want), got in zip(expect, _trdriver(reqs)):
            if got != want:
                stats["mismatch"] += 1
                res.diverge("translation/" + fn, {"fn": fn, "request": req, "source_table": {str(k): v for k, v in table.items()}}, want, got)
    res.extra["translation_validation_adapter_info"] = stats


def validate_canonical(rng, n_cases, res):
    """live structured grids of every layout (the catalogue of C15) and integer arrays — in the grid's data shape, with an
    extra axis where the conversion admits one, and of wrong shapes: `to_canonical` / `from_canonical` of the real class
    against the translated methods on the attributes read from the object; arrays travel as (shape, elements in C order)"""
    from . import gridutil as gu

    names = ("StructuredGrid_to_canonical", "StructuredGrid_from_canonical")
    if not all(common.TRANSLATION_STATUS.get(f, {}).get("translated") for f in names):
        return
    stats = {"calls": 0, "converted": 0, "rejected": 0, "with_extra_axis": 0, "mismatch": 0}
    enc_arr = lambda x: [[int(n) for n in x.shape], [int(v) for v in np.ravel(x, order="C")]]  # noqa
    reqs, expect = [], []
    for _ in range(n_cases):
        d = rng.randint(1, 3)
        dims = [rng.randint(1, 4) for _ in range(d)]
        order, rev, inc = rng.choice(list(gu.layouts(d)))
        spec = gu.make_spec(rng.choice(["uniform", "rect"]), dims, order, rev, inc, rng.choice(["cells", "points"]))
        try:
            g = gu.build_grid(spec)
        except Exception:  # noqa
            continue
        dshape = tuple(int(n) for n in g.data_shape)
        for fn, meth in ((names[0], g.to_canonical), (names[1], g.from_canonical)):
            r = rng.random()
            base = dshape if fn == names[0] else (dshape[::-1] if g.axes_reversed else dshape)
            if r < 0.55:
                shape = base
            elif r < 0.8:
                # an extra (time) axis: at the end, or in front for data of a grid with reversed axes order
                shape = ((2,) + base) if (g.axes_reversed and fn == names[0]) else (base + (2,))
                stats["with_extra_axis"] += 1
            else:
                shape = tuple(rng.randint(1, 4) for _ in range(rng.randint(1, 3)))
            x = np.arange(int(np.prod(shape)), dtype=np.int64).reshape(shape) * 3 + 1
            try:
                want = {"ok": enc_arr(np.asarray(meth(x)))}
                stats["converted"] += 1
            except Exception as e:  # noqa
                want = {"err": err_class(e)}
                stats["rejected"] += 1
            reqs.append({"fn": fn, "args": [bool(g.axes_reversed), [int(n) for n in dshape], [bool(b) for b in g.axes_increase], enc_arr(x)]})
            expect.append((spec, fn, list(shape), want))
            stats["calls"] += 1
    if reqs:
        for (spec, fn, shape, want), got in zip(expect, _trdriver(reqs)):
            if got != want:
                stats["mismatch"] += 1
                res.diverge("translation/" + fn, {"grid": spec, "fn": fn, "array_shape": shape}, want, got)
    res.extra["translation_validation_canonical"] = stats


def validate_gridmemo(rng, n_grids, res):
    """live `RectilinearGrid` / `UniformGrid` / `EsriGrid` objects under random histories of `data_shape` / `data_size`
    reads and `data_location` assignments (valid and invalid ones): before every access the memo attributes are read from
    the object, `super().data_shape` / `super().data_size` are computed on a deep copy, and the translated method's answer
    and new attributes are compared with what the real access returns and leaves"""
    import copy

    from finam.data.grid_base import Grid, StructuredGrid

    from . import gridutil as gu

    names = ("RectilinearGrid_data_shape", "RectilinearGrid_data_size", "RectilinearGrid_set_data_location")
    if not all(common.TRANSLATION_STATUS.get(f, {}).get("translated") for f in names):
        return
    LOC = {fm.Location.CELLS: 0, fm.Location.POINTS: 1}
    LOCS = [fm.Location.CELLS, fm.Location.POINTS]
    stats = {"grids": 0, "reads_shape": 0, "reads_size": 0, "sets": 0, "rejected_sets": 0, "memo_hits": 0, "mismatch": 0}
    shp = lambda t: None if t is None else [int(x) for x in t]  # noqa
    reqs, expect = [], []
    for _ in range(n_grids):
        d = rng.randint(1, 3)
        dims = [rng.randint(1, 4) for _ in range(d)]
        order, rev, inc = rng.choice(list(gu.layouts(d)))
        kind = rng.choice(["uniform", "rect", "esri"])
        if kind == "esri":
            spec = {"kind": "esri", "ncols": rng.randint(1, 4), "nrows": rng.randint(1, 4), "cellsize": 1, "xll": 0, "yll": 0, "order": order}
        else:
            spec = gu.make_spec(kind, dims, order, rev, inc, rng.choice(["cells", "points"]))
        try:
            g = gu.build_grid(spec)
        except Exception:  # noqa
            continue
        stats["grids"] += 1
        valid = [LOC[l] for l in g.valid_locations]
        for _ in range(rng.randint(3, 8)):
            op = rng.choice(["shape", "shape", "size", "set", "set"])
            before = {"shape": shp(g._data_shape), "size": None if g._data_size is None else int(g._data_size), "loc": LOC[g._data_location]}
            twin = copy.deepcopy(g)
            if op == "shape":
                base = shp(StructuredGrid.data_shape.fget(twin))
                stats["memo_hits"] += 0 if before["shape"] is None else 1
                ret = shp(g.data_shape)
                reqs.append({"fn": names[0], "args": [before["shape"], base]})
                expect.append((spec, op, before, {"ok": [ret, shp(g._data_shape)]}))
                stats["reads_shape"] += 1
            elif op == "size":
                base = int(Grid.data_size.fget(twin))
                stats["memo_hits"] += 0 if before["size"] is None else 1
                ret = int(g.data_size)
                reqs.append({"fn": names[1], "args": [before["size"], base]})
                expect.append((spec, op, before, {"ok": [ret, int(g._data_size)]}))
                stats["reads_size"] += 1
            else:
                new = rng.choice(LOCS)
                try:
                    g.data_location = new
                    want = {"ok": [LOC[g._data_location], [shp(g._data_shape), None if g._data_size is None else int(g._data_size)]]}
                except Exception as e:  # noqa
                    want = {"err": err_class(e)}
                    stats["rejected_sets"] += 1
                reqs.append({"fn": names[2], "args": [before["loc"], before["shape"], before["size"], LOC[new], valid]})
                expect.append((spec, op, before, want))
                stats["sets"] += 1
    if reqs:
        for (spec, op, before, want), got in zip(expect, _trdriver(reqs)):
            if got != want:
                stats["mismatch"] += 1
                res.diverge("translation/RectilinearGrid." + op, {"grid": spec, "op": op, "before": before}, want, got)
    res.extra["translation_validation_grid_memo"] = stats


def validate_maskrules(rng, n, res):
    """`masks_compatible` of the package on the catalogue of masks and grids (explicit masks on fitting grids, the two
    `Mask` members, `None`; both directions) against the translated definition owned by C18; `masks_equal` goes to the
    translated code as a table computed from the live package"""
    from finam.data.tools import mask as mtools

    from .engines import c07

    if not common.TRANSLATION_STATUS.get("masks_compatible_rules", {}).get("translated"):
        return
    ng = len(c07.GRIDS)
    gobj = lambda g: None if g is None else c07.GRIDS[g][1]  # noqa
    mcode = lambda m: None if m is None else (-1 if m == "flex" else -2 if m == "none" else m)  # noqa
    mobj = lambda m: None if m is None else (fm.Mask.FLEX if m == "flex" else fm.Mask.NONE if m == "none" else c07.MASKS[m])  # noqa
    gopts = [None] + list(range(ng))
    mopts = [None, "flex", "none"] + list(c07.MASKS)

    def fits(m, g):
        return not isinstance(m, int) or g is None or c07.GRID_NAMES[g] in c07.MASK_FITS[m]

    def safe(f, *a):
        try:
            return bool(f(*a))
        except Exception:  # noqa
            return None

    me_cache = {}
    stats = {"calls": 0, "accepted": 0, "kinds": {}, "mismatch": 0}
    reqs, reals, metas = [], [], []
    for _ in range(n):
        this = rng.choice(mopts)
        inc = rng.choice(mopts) if rng.random() < 0.75 else rng.choice(list(c07.MASKS))
        if isinstance(inc, int) and rng.random() < 0.3:
            this = rng.choice(list(c07.MASKS))      # two explicit masks: the comparison that accounts for the grid layouts
        tg = rng.choice([g for g in gopts if fits(this, g)])
        ig = rng.choice([g for g in gopts if fits(inc, g)])
        ds = rng.random() < 0.5
        tab = []
        for a in (this, inc):
            for b in (this, inc):
                for g1 in (tg, ig):
                    for g2 in (tg, ig):
                        k = (a, b, g1, g2)
                        if k not in me_cache:
                            me_cache[k] = safe(mtools.masks_equal, mobj(a), mobj(b), gobj(g1), gobj(g2))
                        if me_cache[k]:
                            tab.append([[mcode(a), mcode(b)], [g1, g2]])
        real = safe(mtools.masks_compatible, mobj(this), mobj(inc), ds, gobj(tg), gobj(ig))
        if real is None:
            continue
        reqs.append({"fn": "masks_compatible_rules", "args": [mcode(this), mcode(inc), ds, tg, ig, tab]})
        reals.append(real)
        metas.append({"this": this, "incoming": inc, "downstream": ds, "grids": [tg, ig]})
        kind = ("explicit" if isinstance(this, int) else str(this)) + "/" + ("explicit" if isinstance(inc, int) else str(inc))
        stats["kinds"][kind] = stats["kinds"].get(kind, 0) + 1
        stats["calls"] += 1
        stats["accepted"] += 1 if real else 0
    if reqs:
        for real, meta, got in zip(reals, metas, _trdriver(reqs)):
            if got != {"ok": real}:
                stats["mismatch"] += 1
                res.diverge("translation/masks_compatible", meta, {"ok": real}, got)
    res.extra["translation_validation_mask_rules"] = stats


def validate_gridcompat(rng, n_cases, res):
    """real structured grids (the catalogue of C15: a grid and a perturbed copy, every layout) and other kinds of grid:
    `g.compatible_with(h)` and `g == h` of the real classes against the translated methods evaluated on the attributes
    read from the live objects.  `np.allclose` is exact equality here: all coordinates are small integers."""
    from finam.data.grid_base import Grid, StructuredGrid

    from . import gridutil as gu
    from .engines import c15

    if not all(common.TRANSLATION_STATUS.get(f, {}).get("translated") for f in ("StructuredGrid_compatible_with", "StructuredGrid___eq__")):
        return
    stats = {"pairs": 0, "compatible": 0, "equal": 0, "other_kind": 0, "mismatch": 0}
    crs_ids = []

    def crs_id(c):
        if c is None:
            return None
        for k, x in enumerate(crs_ids):
            if x == c:
                return k
        crs_ids.append(c)
        return len(crs_ids) - 1

    def attrs(g):
        return [int(g.dim), crs_id(g.crs), 0 if g.data_location == fm.Location.CELLS else 1, [int(n) for n in g.data_shape],
                bool(g.axes_reversed), [[enc("Rat", Fraction(float(x))) for x in ax] for ax in g.axes]]

    reqs, expect = [], []
    for k in range(n_cases):
        case = c15.gen_compat_case(rng)
        try:
            ga, gb = gu.build_grid(case["a"]), gu.build_grid(case["b"])
        except Exception:  # noqa
            continue
        if rng.random() < 0.5:
            ga, gb = gb, ga
        others = [gb]
        if k % 5 == 0:
            others.append(rng.choice([fm.NoGrid(), fm.NoGrid(2), fm.UnstructuredPoints([[0.0, 0.0], [1.0, 2.0]]), "no grid", None]))
        for other in others:
            structured = isinstance(other, StructuredGrid)
            oa = attrs(other) if structured else [0, None, 0, [], False, []]
            common_args = attrs(ga)
            tail = [isinstance(other, Grid), structured] + oa
            try:
                want_c = {"ok": bool(ga.compatible_with(other))}
            except Exception as e:  # noqa
                want_c = {"err": err_class(e)}
            try:
                want_e = {"ok": bool(ga == other)}
            except Exception as e:  # noqa
                want_e = {"err": err_class(e)}
            reqs.append({"fn": "StructuredGrid_compatible_with", "args": common_args + [True] + tail})
            expect.append(("compatible_with", want_c, case))
            reqs.append({"fn": "StructuredGrid___eq__", "args": common_args + [[bool(b) for b in ga.axes_increase]] + tail
                         + [[bool(b) for b in other.axes_increase] if structured else []]})
            expect.append(("__eq__", want_e, case))
            if (structured and "ok" in want_c and "ok" in want_e
                    and common.TRANSLATION_STATUS.get("StructuredGrid_get_transform_to", {}).get("translated")):
                try:
                    tr = ga.get_transform_to(other)
                    want_t = {"ok": None if tr is None else 1}
                except Exception as e:  # noqa
                    want_t = {"err": err_class(e)}
                reqs.append({"fn": "StructuredGrid_get_transform_to", "args": [want_c["ok"], want_e["ok"]]})
                expect.append(("get_transform_to", want_t, case))
                stats["transforms"] = stats.get("transforms", 0) + (1 if want_t.get("ok") == 1 else 0)
                stats["pass_through"] = stats.get("pass_through", 0) + (1 if want_t == {"ok": None} else 0)
            stats["pairs"] += 1
            stats["compatible"] += 1 if want_c.get("ok") else 0
            stats["equal"] += 1 if want_e.get("ok") else 0
            stats["other_kind"] += 0 if structured else 1
    if reqs:
        for (fn, want, case), got in zip(expect, _trdriver(reqs)):
            if got != want:
                stats["mismatch"] += 1
                res.diverge("translation/StructuredGrid." + fn, {"case": case, "fn": fn}, want, got)
    res.extra["translation_validation_grids"] = stats


def validate_topology_heap(rng, n_cases, res):
    """live coupling forests (the harness of C19): the real `_check_input_connected`, `_check_dead_links` and
    `_check_branching` of every input / output of every component against the translated definitions evaluated on the
    attribute tables extracted from the live objects"""
    from finam import schedule as sched
    from .engines import c19

    stats = {"forests": 0, "check_input_connected": 0, "check_dead_links": 0, "check_branching": 0, "mismatch": 0, "errors": {}}
    for _ in range(n_cases):
        case = c19.gen_case(rng)
        try:
            composition, comps, objs_by_pos, _created, _log = c19.build_objects(case)
        except Exception:  # noqa
            continue
        stats["forests"] += 1
        objs = list(comps)
        seen = {id(o) for o in objs}
        for c in comps:
            for o in list(c.outputs.values()) + list(c.inputs.values()):
                if id(o) not in seen:
                    seen.add(id(o))
                    objs.append(o)
        for o in objs_by_pos.values():
            if id(o) not in seen:
                seen.add(id(o))
                objs.append(o)
        heap, ix = extract_heap(objs)
        reqs, expect = [], []

        def real(f, *a):
            try:
                f(*a)
                return {"ok": None}
            except Exception as e:  # noqa
                return {"err": err_class(e)}

        for c in comps:
            for inp in c.inputs.values():
                connected = real(sched._check_input_connected, c, inp)
                reqs.append({"fn": "check_input_connected", "args": [heap, ix[id(inp)]]})
                expect.append(("check_input_connected", connected))
                if "ok" in connected:   # `_validate_composition` only reaches the dead-link scan for connected inputs
                    reqs.append({"fn": "check_dead_links", "args": [heap, ix[id(inp)]]})
                    expect.append(("check_dead_links", real(sched._check_dead_links, c, inp)))
            for out in c.outputs.values():
                reqs.append({"fn": "check_branching", "args": [heap, ix[id(out)]]})
                expect.append(("check_branching", real(sched._check_branching, c, out)))
        listed = list(composition._components)
        if common.TRANSLATION_STATUS.get("validate_composition", {}).get("translated"):
            reqs.append({"fn": "validate_composition", "args": [heap, [ix[id(c)] for c in listed]]})
            expect.append(("validate_composition", real(composition._validate_composition)))
        for fn, real_fn in (("map_inputs", sched._map_inputs), ("map_outputs", sched._map_outputs)):
            if common.TRANSLATION_STATUS.get(fn, {}).get("translated"):
                try:   # the table as the list of its items, in insertion order
                    want_tab = {"ok": [[ix[id(k)], ix[id(v)]] for k, v in real_fn(listed).items()]}
                except Exception as e:  # noqa
                    want_tab = {"err": err_class(e)}
                reqs.append({"fn": fn, "args": [heap, [ix[id(c)] for c in listed]]})
                expect.append((fn, want_tab))
        if (all(x[1] == {"ok": None} for x in expect if x[0] == "check_input_connected")
                and all(common.TRANSLATION_STATUS.get(f, {}).get("translated") for f in ("collect_inputs_outputs", "check_missing_components"))):
            # `_validate_composition` reaches `_check_missing_components` only when every input is connected
            try:
                ins, outs = sched._collect_inputs_outputs(listed)
                want_io = {"ok": [sorted(ix[id(o)] for o in ins), sorted(ix[id(o)] for o in outs)]}
            except Exception as e:  # noqa
                want_io = {"err": err_class(e)}
            reqs.append({"fn": "collect_inputs_outputs", "args": [heap, [ix[id(c)] for c in listed]]})
            expect.append(("collect_inputs_outputs", want_io))
            reqs.append({"fn": "check_missing_components", "args": [heap, [ix[id(c)] for c in listed]]})
            expect.append(("check_missing_components", real(sched._check_missing_components, listed)))
        if common.TRANSLATION_STATUS.get("metadata_links", {}).get("translated"):
            # the link list of `Composition.metadata`, on the compositions that connect (last: `connect` changes the objects)
            from .fmutil import T as _T, limited as _limited
            try:
                has_time = any(case["comps"][c]["timed"] for c in case["order"])
                _limited(60, composition.connect, _T(0) if has_time else None)
                md_links = composition.metadata["links"]
            except Exception:  # noqa
                md_links = None
            if md_links is not None:
                heap2, ix2 = extract_heap(objs)
                byname = {f"{o.name}@{id(o)}": o for o in objs if hasattr(o, "name")}

                def end(e, slots):
                    if "adapter" in e:
                        a = ix2[id(byname[e["adapter"]])]
                        return [a, a]
                    c = byname[e["component"]]
                    return [ix2[id(c)], ix2[id(getattr(c, slots)[e["output" if slots == "outputs" else "input"]])]]

                want_links = [[end(l["from"], "outputs"), end(l["to"], "inputs")] for l in md_links]
                reqs.append({"fn": "metadata_links", "args": [
                    heap2, [ix2[id(c)] for c in composition._components], [ix2[id(a)] for a in composition._adapters],
                    [[ix2[id(k)], ix2[id(v)]] for k, v in composition._input_owners.items()]]})
                expect.append(("metadata_links", {"ok": want_links}))
                stats["links_listed"] = stats.get("links_listed", 0) + len(want_links)
        if not reqs:
            continue
        for (fn, want), got in zip(expect, _trdriver(reqs)):
            stats[fn] = stats.get(fn, 0) + 1
            if fn in ("metadata_links", "map_inputs", "map_outputs"):
                if got != want:
                    stats["mismatch"] += 1
                    res.diverge("translation/" + fn, {"case": case, "fn": fn}, want, got)
                continue
            if "err" in want:
                stats["errors"][want["err"]] = stats["errors"].get(want["err"], 0) + 1
            agree = ("err" in want) == ("err" in got) and want.get("err") == got.get("err")
            if fn == "collect_inputs_outputs" and agree and "ok" in want:
                agree = "ok" in got and [sorted(got["ok"][0]), sorted(got["ok"][1])] == want["ok"]
                stats["nonempty_sets"] = stats.get("nonempty_sets", 0) + (1 if want["ok"][0] and want["ok"][1] else 0)
            if fn == "check_missing_components" and "err" in want:
                stats["missing_rejected"] = stats.get("missing_rejected", 0) + 1
            if not agree:
                stats["mismatch"] += 1
                res.diverge("translation/" + fn, {"case": case, "fn": fn}, want, got)
    res.extra["translation_validation_object_graphs"] = stats
