"""Which functions of /repo/src/finam are translated to Lean by py2lean, and how their Python values are typed.

`Int` = datetime / timedelta in microseconds or a Python int, `Rat` = float, `Val` = an opaque payload (type
parameter α), `List[...]`, `Tuple[...]`, `Opt[...]`.  `fields` are the attributes of `self` the function reads or
writes, `calls` says how calls are read (`"id"`: the call returns its first argument — `_unpack` of an in-memory
payload), `assume_false` lists conditions that are taken as false (the spill-to-disk branches, modelled separately in
Spill.lean for C10), `ignore_fields` lists attributes whose updates are dropped (memory accounting), `fuel` gives
the bound of each `while` loop.  `props` = the properties whose checks own the equivalence obligation
(`lean/FinamModel/Props/Tr<group>.lean`).
"""

ENTRY = "Tuple[Time,Val]"
DATA = f"List[{ENTRY}]"
RENTRY = "Tuple[Time,Rat]"
RDATA = f"List[{RENTRY}]"

SPECS = [
    # ---- adapters/time.py : delay adapters (C13, also C01/C02/C04 through `with_delay`) ------------------------
    dict(lean="DelayFixed_with_delay", path="adapters/time.py", qual="DelayFixed.with_delay", group="Delay",
         fields={"delay": "Dur", "initial_time": "Time"}, params={"time": "Time"}, ret="Time", props=["C13", "C02"]),
    dict(lean="DelayToPush_with_delay", path="adapters/time.py", qual="DelayToPush.with_delay", group="Delay",
         fields={"push_time": "Opt[Time]", "initial_time": "Time"}, params={"time": "Time"}, ret="Time", props=["C13"]),
    dict(lean="DelayToPull_with_delay", path="adapters/time.py", qual="DelayToPull.with_delay", group="Delay",
         fields={"_pulls": "List[Time]", "initial_time": "Time", "additional_delay": "Dur"}, params={"time": "Time"},
         ret="Time", props=["C13", "C02"]),
    dict(lean="DelayToPull__pulled", path="adapters/time.py", qual="DelayToPull._pulled", group="Delay",
         fields={"_pulls": "List[Time]", "steps": "Int"}, params={"time": "Time"}, ret="Unit",
         fuel={"len(self._pulls) > self.steps": "len(self._pulls)"}, props=["C13"]),
    # ---- adapters/time.py : caching adapters (C11) -------------------------------------------------------------
    dict(lean="NextTime__interpolate", path="adapters/time.py", qual="NextTime._interpolate", group="Time",
         fields={"data": DATA}, params={"time": "Time"}, ret="Val", calls={"self._unpack": "id"}, props=["C11"]),
    dict(lean="PreviousTime__interpolate", path="adapters/time.py", qual="PreviousTime._interpolate", group="Time",
         fields={"data": DATA}, params={"time": "Time"}, ret="Val", calls={"self._unpack": "id"}, props=["C11"]),
    dict(lean="interpolate", path="adapters/time.py", qual="interpolate", group="TimeBase",
         params={"old_value": "Rat", "new_value": "Rat", "dt": "Rat"}, ret="Rat", props=["C11", "C12"]),
    dict(lean="interpolate_step", path="adapters/time.py", qual="interpolate_step", group="TimeBase",
         params={"old_value": "Val", "new_value": "Val", "dt": "Rat", "step": "Rat"}, ret="Val", props=["C11"]),
    dict(lean="LinearTime__interpolate", path="adapters/time.py", qual="LinearTime._interpolate", group="Time",
         fields={"data": RDATA}, params={"time": "Time"}, ret="Rat",
         calls={"self._unpack": "id",
                "interpolate": {"lean": "interpolate", "args": [0, 1, 2], "ret": "Rat"}}, props=["C11"]),
    dict(lean="StepTime__interpolate", path="adapters/time.py", qual="StepTime._interpolate", group="Time",
         fields={"data": DATA, "step": "Rat"}, params={"time": "Time"}, ret="Val",
         calls={"self._unpack": "id",
                "interpolate_step": {"lean": "interpolate_step", "args": [0, 1, 2, 3], "ret": "Val"}}, props=["C11"]),
    dict(lean="TimeCachingAdapter__clear_cached_data", path="adapters/time.py",
         qual="TimeCachingAdapter._clear_cached_data", group="TimeBase",
         fields={"data": DATA}, params={"time": "Time"}, ret="Unit",
         assume_false=["isinstance(d[1], str)"], ignore_fields=["_total_mem"], locals={"d": ENTRY},
         fuel={"len(self.data) > 1 and self.data[1][0] <= time": "len(self.data)"}, props=["C11", "C12"]),
    # ---- sdk/output.py (C08, C09) ------------------------------------------------------------------------------
    dict(lean="Output__interpolate", path="sdk/output.py", qual="Output._interpolate", group="Output",
         fields={"data": DATA}, params={"time": "Time"}, ret="Val", calls={"self._unpack": "id"}, props=["C08", "C09"]),
]

SCHED_COMMON = dict(
    heap=True,
    classes={"IInput": "isInput", "IOutput": "isOutput", "IAdapter": "isAdapter", "NoDependencyAdapter": "isNoDep",
             "ITimeDelayAdapter": "isDelay", "NoBranchAdapter": "isNoBranch", "ITimeComponent": "isTimeComp"},
    attrs={"source": ("source", "Obj"), "needs_push": ("needsPush", "Bool"), "needs_pull": ("needsPull", "Bool"),
           "is_static": ("isStatic", "Bool"), "time": ("time", "Int"), "next_time": ("nextTime", "Int"),
           "targets": ("targets", "List[Obj]")},
    methods={"with_delay": ("withDelay", "Int")},
)

DEPS = "Dict[Obj,Tuple[Int,Bool]]"
CHAIN = "Dict[Obj,Opt[Tuple[Int,Bool]]]"

SPECS += [
    # ---- schedule.py : the dependency walk and the recursive selection (C01 C02 C04 C13 C20) ---------------------
    dict(lean="find_dependencies", path="schedule.py", qual="_find_dependencies", group="Sched",
         params={"component": "Obj", "target_time": "Int"}, ignore_params=["output_owners"], ret=DEPS,
         locals={"deps": DEPS},
         consts={"component.inputs.items()": ("(List.map (fun i => ((), i)) (h.inputs component))", "List[Tuple[Unit,Obj]]")},
         subscript_maps={"output_owners": ("owner", "Obj")},
         fuel={"isinstance(inp, IInput)": "lean:(h.size + 1)"},
         props=["C01", "C02", "C04", "C13", "C20"], **SCHED_COMMON),
    dict(lean="update_recursive", path="schedule.py", qual="Composition._update_recursive", group="Sched",
         params={"comp": "Obj", "chain": CHAIN, "target_time": "Opt[Int]"}, ret="Opt[Obj]",
         mut_params=["chain"], recursive=True,
         consts={"chain or {}": ("chain", CHAIN)},
         conds={"comp.status != ComponentStatus.FINISHED": "(h.finished comp = false)"},
         drop_assign=["joined"], drop_calls=["comp.update"],
         subscript_maps={"self._output_owners": ("owner", "Obj")},
         calls={"_find_dependencies": {"lean": "find_dependencies", "args": [0, 2], "argtypes": ["Obj", "Int"],
                                       "ret": DEPS, "heap": True},
                "self._update_recursive": {"lean": "update_recursive", "args": [0, 1, 2],
                                           "argtypes": ["Obj", CHAIN, "Opt[Int]"], "defaults": {"2": "none"},
                                           "ret": "Opt[Obj]", "heap": True, "rec": True, "updates": ["chain"]}},
         props=["C01", "C02", "C04", "C20"], **SCHED_COMMON),
]

SPECS += [
    # ---- schedule.py : topology validation (C19) -----------------------------------------------------------------
    dict(lean="check_input_connected", path="schedule.py", qual="_check_input_connected", group="Validate",
         params={"inp": "Obj"}, ignore_params=["comp"], ret="Unit",
         conds={"inp.source is None": "(h.hasSource inp = false)"},
         fuel={"isinstance(inp, IInput)": "lean:(h.size + 1)"},
         raises={"FinamConnectError": "Err.connectErr"}, props=["C19"], **SCHED_COMMON),
    dict(lean="check_dead_links", path="schedule.py", qual="_check_dead_links", group="Validate",
         params={"inp": "Obj"}, ignore_params=["comp"], ret="Unit",
         fuel={"isinstance(inp, IInput)": "lean:(h.size + 1)"},
         raises={"_dead_link_error": "Err.connectErr"}, props=["C19"], **SCHED_COMMON),
    dict(lean="check_branching", path="schedule.py", qual="_check_branching", group="Validate",
         params={"out": "Obj"}, ignore_params=["comp"], ret="Unit",
         fuel={"len(targets) > 0": "lean:(h.size + 1)"},
         props=["C19"], **SCHED_COMMON),
]

# ---- schedule.py : components that are linked but not part of the composition (C19) -------------------------------
_ITEMS = {"comp.inputs.items()": ("(List.map (fun i => ((), i)) (h.inputs comp))", "List[Tuple[Unit,Obj]]"),
          "comp.outputs.items()": ("(List.map (fun i => ((), i)) (h.outputs comp))", "List[Tuple[Unit,Obj]]")}
SPECS += [
    dict(lean="collect_inputs_outputs", path="schedule.py", qual="_collect_inputs_outputs", group="Missing",
         params={"components": "List[Obj]"}, ret="Tuple[Set[Obj],Set[Obj]]",
         consts={"set()": ("([] : List Nat)", "Set[Obj]"), **_ITEMS},
         fuel={"isinstance(inp, IInput)": "lean:(h.size + 1)", "len(targets) > 0": "lean:(h.size + 1)"},
         props=["C19"], **SCHED_COMMON),
    dict(lean="check_missing_components", path="schedule.py", qual="_check_missing_components", group="Missing",
         params={"components": "List[Obj]"}, ret="Unit",
         consts={"{inp for comp in components for inp in comp.inputs.values()}":
                     ("(Py.setOfList (components.flatMap h.inputs))", "Set[Obj]"),
                 "{out for comp in components for out in comp.outputs.values()}":
                     ("(Py.setOfList (components.flatMap h.outputs))", "Set[Obj]"),
                 "inputs - comp_inputs": ("(Py.setDiff inputs comp_inputs)", "Set[Obj]"),
                 "outputs - comp_outputs": ("(Py.setDiff outputs comp_outputs)", "Set[Obj]")},
         calls={"_collect_inputs_outputs": {"lean": "collect_inputs_outputs", "args": [0], "argtypes": ["List[Obj]"],
                                            "heap": True, "ret": "Tuple[Set[Obj],Set[Obj]]"}},
         raises={"FinamConnectError": "Err.connectErr"}, props=["C19"], **SCHED_COMMON),
]

# ---- schedule.py : the link list of Composition.metadata (C19: exactly the links that were created) ---------------
# a link end is a pair of objects: (component, output) / (adapter, adapter) as "from", (adapter, adapter) /
# (owning component, input) as "to" — the dict displays with their f-string keys are read as these pairs
LINK = "Tuple[Tuple[Obj,Obj],Tuple[Obj,Obj]]"
SPECS += [
    dict(lean="metadata_links", path="schedule.py", qual="Composition.metadata", group="Links",
         slice={"start": "links = []", "end": "for ada in self._adapters:", "result": ["links"]},
         fields={"_components": "List[Obj]", "_adapters": "List[Obj]", "_input_owners": "Dict[Obj,Obj]"},
         ret="List[" + LINK + "]", locals={"links": "List[" + LINK + "]"},
         consts={"comp.outputs.items()": ("(List.map (fun o => (o, o)) (h.outputs comp))", "List[Tuple[Obj,Obj]]"),
                 "{'adapter': f'{target.name}@{id(target)}'}": ("(target, target)", "Tuple[Obj,Obj]"),
                 "{'component': f'{owner.name}@{id(owner)}', 'input': target.name}": ("(owner, target)", "Tuple[Obj,Obj]"),
                 "{'from': {'component': f'{comp.name}@{id(comp)}', 'output': out_name}, 'to': to}":
                     ("((comp, out_name), to)", LINK),
                 "{'from': {'adapter': f'{ada.name}@{id(ada)}'}, 'to': to}": ("((ada, ada), to)", LINK)},
         props=["C19"], **SCHED_COMMON),
]

# ---- schedule.py : who owns a slot (C19 link list; `_map_outputs` also builds the `output_owners` of `_find_dependencies`) ----
SPECS += [
    dict(lean="map_inputs", path="schedule.py", qual="_map_inputs", group="Owners",
         params={"components": "List[Obj]"}, ret="Dict[Obj,Obj]", locals={"in_map": "Dict[Obj,Obj]"},
         consts=_ITEMS, props=["C19"], **SCHED_COMMON),
    dict(lean="map_outputs", path="schedule.py", qual="_map_outputs", group="Owners",
         params={"components": "List[Obj]"}, ret="Dict[Obj,Obj]", locals={"out_map": "Dict[Obj,Obj]"},
         consts=_ITEMS, props=["C19"], **SCHED_COMMON),
]

# ---- schedule.py : Composition._validate_composition, the order of the checks (C19) ---------------------------------
_H = lambda n: {"lean": n, "args": [1], "argtypes": ["Obj"], "stmt": True, "heap": True}  # noqa
SPECS += [
    dict(lean="validate_composition", path="schedule.py", qual="Composition._validate_composition", group="ValidateAll",
         fields={"_components": "List[Obj]"}, ret="Unit",
         consts={"comp.inputs.values()": ("(h.inputs comp)", "List[Obj]"), "comp.outputs.values()": ("(h.outputs comp)", "List[Obj]")},
         calls={"_check_input_connected": _H("check_input_connected"), "_check_dead_links": _H("check_dead_links"),
                "_check_branching": _H("check_branching"),
                "_check_missing_components": {"lean": "check_missing_components", "args": [0], "argtypes": ["List[Obj]"],
                                              "stmt": True, "heap": True}},
         props=["C19"], **SCHED_COMMON),
]

# ---- data/grid_base.py : when two structured grids are compatible / equal (C15) -----------------------------------
# the other grid is read as its attributes (`other.dim` …), `np.allclose` on two axes is the relation `close`
AXES = "List[List[Rat]]"
_OTHER = {"o_isGrid": "Bool", "o_isStructured": "Bool", "o_dim": "Int", "o_crs": "Opt[Obj]", "o_loc": "Obj",
          "o_shape": "List[Int]", "o_rev": "Bool", "o_axes": AXES, "close": "Lean:(List Rat → List Rat → Bool)"}
_GRIDF = {"dim": "Int", "crs": "Opt[Obj]", "data_location": "Obj", "data_shape": "List[Int]", "axes_reversed": "Bool", "axes": AXES}
_OCONST = {"other.dim": ("o_dim", "Int"), "other.crs": ("o_crs", "Opt[Obj]"), "other.data_location": ("o_loc", "Obj"),
           "other.data_shape": ("o_shape", "List[Int]"), "other.axes_reversed": ("o_rev", "Bool"), "other.axes": ("o_axes", AXES)}
SPECS += [
    dict(lean="StructuredGrid_compatible_with", path="data/grid_base.py", qual="StructuredGrid.compatible_with", group="GridCompat",
         fields=_GRIDF, params={"check_location": "Bool"}, ignore_params=["other"], extra_params=_OTHER, ret="Bool",
         consts=_OCONST,
         conds={"isinstance(other, Grid)": "(o_isGrid = true)", "isinstance(other, StructuredGrid)": "(o_isStructured = true)",
                "np.allclose(a, b)": "(close a b = true)"},
         props=["C15"]),
    dict(lean="StructuredGrid___eq__", path="data/grid_base.py", qual="StructuredGrid.__eq__", group="GridCompat",
         fields={**_GRIDF, "axes_increase": "List[Bool]"}, ignore_params=["other"],
         extra_params={**_OTHER, "o_inc": "List[Bool]"}, ret="Bool",
         consts={**_OCONST, "other.axes_increase": ("o_inc", "List[Bool]")},
         calls={"self.compatible_with": {"lean": "StructuredGrid_compatible_with",
                                         "args": ["self.dim", "self.crs", "self.data_location", "self.data_shape", "self.axes_reversed",
                                                  "self.axes", "True", "o_isGrid", "o_isStructured", "o_dim", "o_crs", "o_loc",
                                                  "o_shape", "o_rev", "o_axes", "close"],
                                         "argtypes": ["Int", "Opt[Obj]", "Obj", "List[Int]", "Bool", AXES, "Bool", "Bool", "Bool", "Int",
                                                      "Opt[Obj]", "Obj", "List[Int]", "Bool", AXES, "Lean:(List Rat → List Rat → Bool)"],
                                         "ret": "Bool"}},
         props=["C15"]),
]

# ---- data/grid_spec.py : the memoised data_shape / data_size of RectilinearGrid and the data_location setter (C14) ----
# `super().data_shape` / `super().data_size` (StructuredGrid / Grid: what the current location gives) are parameters;
# `_check_location` returns the location or raises
SPECS += [
    dict(lean="RectilinearGrid_data_shape", path="data/grid_spec.py", qual="RectilinearGrid.data_shape", group="GridMemo",
         fields={"_data_shape": "Opt[List[Int]]"}, extra_params={"base_shape": "List[Int]"}, ret="Opt[List[Int]]",
         consts={"super().data_shape": ("base_shape", "List[Int]")}, props=["C14"]),
    dict(lean="RectilinearGrid_data_size", path="data/grid_spec.py", qual="RectilinearGrid.data_size", group="GridMemo",
         fields={"_data_size": "Opt[Int]"}, extra_params={"base_size": "Int"}, ret="Opt[Int]",
         consts={"super().data_size": ("base_size", "Int")}, props=["C14"]),
    dict(lean="RectilinearGrid_set_data_location", path="data/grid_spec.py", qual="RectilinearGrid.data_location@setter",
         group="GridMemo", fields={"_data_location": "Obj", "_data_shape": "Opt[List[Int]]", "_data_size": "Opt[Int]"},
         params={"data_location": "Obj"}, extra_params={"checkLoc": "Lean:(Nat → Except Err Nat)"}, ret="Unit",
         calls={"_check_location": {"lean": "checkLoc", "args": [1], "argtypes": ["Obj"], "ret": "Obj"}},
         locals={"_data_shape": "Opt[List[Int]]", "_data_size": "Opt[Int]"}, props=["C14"]),
]

# ---- schedule.py : the whole `while` loop of Composition.run (C02 C03 C05) -------------------------------------------
# the state of the composition is a world `φ`: `m.time` / `comp.status` are read from it, `self._update_recursive(to_update)`
# is a parameter that returns the updated component and the next world, `_check_status` a parameter that may raise
SPECS += [
    dict(lean="run_loop", path="schedule.py", qual="Composition.run", group="RunLoop", type_params=["φ"], loop_extras=True,
         slice={"start": "while len(time_components) > 0", "end": "while len(time_components) > 0", "result": []},
         fields={"world": "Lean:φ"}, params={"time_components": "List[Obj]", "end_time": "Int"},
         extra_params={"timeOf": "Lean:(φ → Nat → Int)", "finishedOf": "Lean:(φ → Nat → Bool)",
                       "updateRec": "Lean:(φ → Nat → Except Err (Nat × φ))", "checkUpd": "Lean:(φ → Nat → Except Err Unit)",
                       "fuelN": "Lean:Nat"},
         ret="Unit", fuel={"len(time_components) > 0": "lean:fuelN"},
         consts={"m.time": ("(timeOf self_world m)", "Int"), "comp.time": ("(timeOf self_world comp)", "Int")},
         conds={"comp.status != ComponentStatus.FINISHED": "(finishedOf self_world comp = false)"},
         calls={"self._update_recursive": {"lean": "updateRec", "args": ["self.world", 0], "ret": "Obj", "updates": ["world"]},
                "self._check_status": {"lean": "checkUpd", "args": ["self.world", 0], "stmt": True}},
         props=["C02", "C03", "C05"]),
]

# the decision of `get_transform_to`: raise / pass-through (`None`) / the conversion closure (the token 1); what
# `compatible_with` and `==` answer are parameters here and composed with their translations in Props/TrGridCompat.lean
SPECS += [
    dict(lean="StructuredGrid_get_transform_to", path="data/grid_base.py", qual="StructuredGrid.get_transform_to", group="GridCompat",
         fields={}, ignore_params=["other"], extra_params={"compat": "Bool", "isEq": "Bool"}, ret="Opt[Int]",
         nested_defs={"trans": ("(1 : Int)", "Int")},
         conds={"self.compatible_with(other)": "(compat = true)", "self == other": "(isEq = true)"},
         props=["C15"]),
]

# ---- data/grid_base.py : to_canonical / from_canonical (C15) --------------------------------------------------------
# arrays are `Arr α` (shape + element function); the numpy calls are read as the array operations of FinamModel/Index.lean
# (`np.transpose` = all axes reversed, `np.flip(a, axis=i)`), `x[::rev]` with `rev` = ±1 as `Py.stepSlice`
ARR = "Lean:(Arr α)"
_CANON = dict(
    path="data/grid_base.py", group="Canonical", type_params=["α"], imports=["FinamModel.PyArr"],
    fields={"axes_reversed": "Bool", "data_shape": "List[Int]", "axes_increase": "List[Bool]"}, params={"data": ARR}, ret=ARR,
    consts={"np.shape(data)": ("(Py.shapeI data)", "List[Int]"), "np.ndim(data)": ("(Py.ndimI data)", "Int"),
            "np.transpose(data)": ("(Arr.transpose data)", ARR), "np.flip(data, axis=i)": ("(Arr.flip i.toNat data)", ARR)},
    drop_assign=["msg"], props=["C15"])
SPECS += [
    dict(lean="StructuredGrid_to_canonical", qual="StructuredGrid.to_canonical",
         conds={"np.array_equal(d_shp[::rev], in_shp[::rev][:shp_len])":
                "(Py.stepSlice d_shp rev = Py.takeI (Py.stepSlice in_shp rev) shp_len)"}, **_CANON),
    dict(lean="StructuredGrid_from_canonical", qual="StructuredGrid.from_canonical",
         conds={"np.array_equal(d_shp[::rev], in_shp[:shp_len])": "(Py.stepSlice d_shp rev = Py.takeI in_shp shp_len)"}, **_CANON),
]

# ---- sdk/adapter.py : the metadata exchange through a pass-through adapter (C07) -----------------------------------
# an `Info` is an opaque value; `self._source.get_info` is a parameter (answers with the delivered info or raises)
_SRCINFO = "Lean:(α → Except Err α)"
_ADF = {"_input_info": "Opt[Val]", "_output_info": "Opt[Val]"}
SPECS += [
    dict(lean="Adapter_exchange_info", path="sdk/adapter.py", qual="Adapter.exchange_info", group="AdapterInfo",
         fields=_ADF, params={"info": "Opt[Val]"}, extra_params={"srcGetInfo": _SRCINFO}, ret="Val",
         assume_false=["not isinstance(info, Info)"], locals={"in_info": "Val"},
         calls={"self._source.get_info": {"lean": "srcGetInfo", "args": [0], "argtypes": ["Val"], "ret": "Val"}},
         raises={"FinamMetaDataError": "Err.metaErr"}, props=["C07"]),
    dict(lean="Adapter__get_info", path="sdk/adapter.py", qual="Adapter._get_info", group="AdapterInfo",
         fields=_ADF, params={"info": "Opt[Val]"}, extra_params={"srcGetInfo": _SRCINFO}, ret="Val",
         calls={"self.exchange_info": {"lean": "Adapter_exchange_info", "args": ["self._input_info", "self._output_info", 0, "srcGetInfo"],
                                       "argtypes": ["Opt[Val]", "Opt[Val]", "Opt[Val]", _SRCINFO], "ret": "Val",
                                       "updates": ["_input_info", "_output_info"]}},
         props=["C07"]),
    dict(lean="Adapter_get_info", path="sdk/adapter.py", qual="Adapter.get_info", group="AdapterInfo",
         fields=_ADF, params={"info": "Opt[Val]"}, extra_params={"srcGetInfo": _SRCINFO}, ret="Val",
         calls={"self._get_info": {"lean": "Adapter__get_info", "args": ["self._input_info", "self._output_info", 0, "srcGetInfo"],
                                   "argtypes": ["Opt[Val]", "Opt[Val]", "Opt[Val]", _SRCINFO], "ret": "Val",
                                   "updates": ["_input_info", "_output_info"]}},
         props=["C07"]),
]

# ---- sdk/input.py, sdk/output.py : linking (`>>`): one source per input, targets appended (C19) ---------------------
_ISOUT = "Lean:(Nat → Bool)"
SPECS += [
    dict(lean="Input_set_source", path="sdk/input.py", qual="Input.source@setter", group="Linking",
         fields={"_source": "Opt[Obj]"}, params={"source": "Obj"}, extra_params={"isOutputObj": _ISOUT}, ret="Unit",
         conds={"isinstance(source, IOutput)": "(isOutputObj source = true)"}, props=["C19"]),
    dict(lean="Output_add_target", path="sdk/output.py", qual="Output.add_target", group="Linking",
         fields={"_targets": "List[Obj]"}, params={"target": "Obj"}, extra_params={"isInputObj": _ISOUT}, ret="Unit",
         conds={"isinstance(target, IInput)": "(isInputObj target = true)"}, props=["C19"]),
]

# ---- schedule.py : whom the circular-coupling error of the connect phase names (C06 C04) -----------------------------
SPECS += [
    dict(lean="connect_stuck", path="schedule.py", qual="Composition._connect_components", group="Stuck",
         slice={"start": "unconn = [", "end": "unconn = [", "result": ["unconn"]},
         fields={"_components": "List[Obj]", "status": "Dict[Obj,Int]"}, params={}, ignore_params=["time"], ret="List[Obj]",
         consts={"m.status": ("((Py.dictGet? self_status m).getD (-1))", "Int"), "ComponentStatus.CONNECTED": ("(0 : Int)", "Int"),
                 "m.name": ("m", "Obj")},
         props=["C06", "C04"]),
]

INTEG_COMMON = dict(
    path="adapters/time_integration.py", group="Integ", ret="Rat",
    calls={"self._unpack": "id", "interpolate": {"lean": "interpolate", "args": [0, 1, 2], "ret": "Rat"}},
    consts={"tools.UNITS.Unit('s')": ("(1 : Rat)", "Rat")},
    locals={"sum_value": "Opt[Rat]"}, props=["C12"],
)

SPECS += [
    # ---- adapters/time_integration.py (C12) ---------------------------------------------------------------------
    dict(lean="AvgOverTime__interpolate", qual="AvgOverTime._interpolate",
         fields={"data": RDATA, "_prev_time": "Time", "_step": "Opt[Rat]"}, params={"time": "Time"}, **INTEG_COMMON),
    dict(lean="SumOverTime__interpolate", qual="SumOverTime._interpolate",
         fields={"data": RDATA, "_prev_time": "Time", "_step": "Opt[Rat]", "_per_time": "Bool", "_initial_interval": "Dur"},
         params={"time": "Time"}, **INTEG_COMMON),
]

SPECS += [
    # ---- sdk/output.py : eviction (C09) ---------------------------------------------------------------------------
    dict(lean="Output__clear_data", path="sdk/output.py", qual="Output._clear_data", group="Output",
         fields={"data": DATA, "_connected_inputs": "Dict[Obj,Opt[Time]]"}, params={"time": "Time", "target": "Obj"},
         ret="Unit", assume_false=["isinstance(d[1], str)"], ignore_fields=["_total_mem"], locals={"d": ENTRY},
         fuel={"len(self.data) > 1 and self.data[1][0] <= t_min": "len(self.data)"}, props=["C09"]),
]

RANGE = "Tuple[Opt[Time],Opt[Time]]"
CHECK_TIME_CALL = {"lean": "check_time", "args": [1, 2], "argtypes": ["Time", RANGE], "stmt": True}


def _get_data_variant(kind, interp, data, val, extra_fields=None, extra_args=None):
    f = {"data": data}
    f.update(extra_fields or {})
    return dict(
        lean=f"TimeCachingAdapter__get_data_{kind}", path="adapters/time.py", qual="TimeCachingAdapter._get_data",
        group="Time", fields=f, params={"time": "Time"}, ignore_params=["_target"], ret=val,
        calls={"check_time": CHECK_TIME_CALL,
               "self._interpolate": {"lean": interp, "args": ["self.data"] + (extra_args or []) + [0], "ret": val},
               "self._clear_cached_data": {"lean": "TimeCachingAdapter__clear_cached_data", "args": ["self.data", 0],
                                           "stmt": True, "updates": ["data"]}},
        props=["C11"])


SPECS += [
    # ---- adapters/time.py : check_time and the whole `_get_data` of the four interpolation adapters (C11) ---------
    dict(lean="check_time", path="adapters/time.py", qual="check_time", group="TimeBase",
         params={"time": "Time", "time_range": RANGE}, ignore_params=["logger"], ret="Unit",
         assume_false=["not isinstance(time, datetime)"], props=["C11", "C12"]),
    _get_data_variant("next", "NextTime__interpolate", DATA, "Val"),
    _get_data_variant("prev", "PreviousTime__interpolate", DATA, "Val"),
    _get_data_variant("linear", "LinearTime__interpolate", RDATA, "Rat"),
    _get_data_variant("step", "StepTime__interpolate", DATA, "Val", {"step": "Rat"}, ["self.step"]),
]


def _integ_get_data(kind, interp, fields, args):
    f = {"data": RDATA, "_prev_time": "Time"}
    f.update(fields)
    return dict(
        lean=f"TimeIntegrationAdapter__get_data_{kind}", path="adapters/time_integration.py",
        qual="TimeIntegrationAdapter._get_data", group="Integ", fields=f, params={"time": "Time"},
        ignore_params=["_target"], ret="Rat",
        calls={"check_time": CHECK_TIME_CALL,
               "self._interpolate": {"lean": interp, "args": ["self.data", "self._prev_time"] + args + [0], "ret": "Rat"},
               "self._clear_cached_data": {"lean": "TimeCachingAdapter__clear_cached_data", "args": ["self.data", 0],
                                           "stmt": True, "updates": ["data"]}},
        props=["C12"])


SPECS += [
    # ---- adapters/time_integration.py : the whole `_get_data` (range check, integral, eviction by the *previous*
    #      request, `_prev_time` advanced afterwards) (C12) ---------------------------------------------------------
    _integ_get_data("avg", "AvgOverTime__interpolate", {"_step": "Opt[Rat]"}, ["self._step"]),
    _integ_get_data("sum", "SumOverTime__interpolate",
                    {"_step": "Opt[Rat]", "_per_time": "Bool", "_initial_interval": "Dur"},
                    ["self._step", "self._per_time", "self._initial_interval"]),
]

SPECS += [
    # ---- sdk/output.py : the whole `Output.get_data` (C08 C09 C20) ------------------------------------------------
    dict(lean="Output_get_data", path="sdk/output.py", qual="Output.get_data", group="Output",
         fields={"_output_info": "Opt[Unit]", "_out_infos_exchanged": "Int", "_connected_inputs": "Dict[Obj,Opt[Time]]",
                 "data": DATA, "is_static": "Bool"},
         params={"time": "Time", "target": "Obj"}, ret="Val", drop_calls=["_check_time"],
         calls={"self._unpack": "id",
                "self._interpolate": {"lean": "Output__interpolate", "args": ["self.data", 0], "ret": "Val"},
                "self._clear_data": {"lean": "Output__clear_data", "args": ["self.data", "self._connected_inputs", 0, 1],
                                     "stmt": True, "updates": ["_connected_inputs", "data"]}},
         props=["C08", "C09", "C20"]),
]

SPECS += [
    # ---- schedule.py : the run loop's choice of the component to update and its stop test (C02 C03) --------------
    dict(lean="run_select", path="schedule.py", qual="Composition.run", group="Run",
         slice={"start": "sort_components = list(time_components)", "end": "to_update = sort_components[0]",
                "result": ["to_update"]},
         params={"time_components": "List[Obj]"}, ret="Obj", props=["C02", "C03", "C05"], **SCHED_COMMON),
    dict(lean="run_any_running", path="schedule.py", qual="Composition.run", group="Run",
         slice={"start": "any_running = False", "end": "for comp in time_components", "result": ["any_running"]},
         params={"time_components": "List[Obj]", "end_time": "Int"}, ret="Bool",
         conds={"comp.status != ComponentStatus.FINISHED": "(h.finished comp = false)"},
         props=["C03"], **SCHED_COMMON),
]

SPECS += [
    # ---- sdk/input.py : Input.pull_data, static inputs fetch once (C20) -------------------------------------------
    dict(lean="Input_pull_data", path="sdk/input.py", qual="Input.pull_data", group="Static",
         fields={"is_static": "Bool", "_cached_data": "Opt[Val]"}, params={"time": "Time"}, ignore_params=["target"],
         extra_params={"src_data": "Val"}, ret="Val",
         consts={"self._source.get_data(time, target or self)": ("src_data", "Val")},
         calls={"self._convert_and_check": "id"}, locals={"data": "Val"},
         assume_false=["time is not None and (not isinstance(time, datetime))"], props=["C20"]),
]

NAMED_OPT = "Dict[Obj,Opt[Unit]]"
NAMED_BOOL = "Dict[Obj,Bool]"

SPECS += [
    # ---- tools/connect_helper.py : the status a connect call reports (C06);  schedule.py : what the connect loop makes
    #      of it (C04 C06) -------------------------------------------------------------------------------------------
    dict(lean="connect_status", path="tools/connect_helper.py", qual="ConnectHelper.connect", group="Connect",
         slice={"start": "if all(", "end": "return ComponentStatus.CONNECTING_IDLE"},
         fields={"in_infos": NAMED_OPT, "out_infos": NAMED_OPT, "in_data": NAMED_OPT, "infos_pushed": NAMED_BOOL,
                 "data_pushed": NAMED_BOOL},
         params={"any_done": "Bool"}, ret="Int", drop_calls=["_check_times"],
         consts={"ComponentStatus.CONNECTED": ("(0 : Int)", "Int"), "ComponentStatus.CONNECTING": ("(1 : Int)", "Int"),
                 "ComponentStatus.CONNECTING_IDLE": ("(2 : Int)", "Int")},
         props=["C06"]),
    dict(lean="connect_flags", path="schedule.py", qual="Composition._connect_components", group="Connect",
         slice={"start": "if comp.status == ComponentStatus.CONNECTED", "end": "if comp.status == ComponentStatus.CONNECTED",
                "result": ["any_new_connection", "any_unconnected"]},
         params={"status": "Int", "any_new_connection": "Bool", "any_unconnected": "Bool"}, ret="Tuple[Bool,Bool]",
         consts={"comp.status": ("status", "Int"), "ComponentStatus.CONNECTED": ("(0 : Int)", "Int"),
                 "ComponentStatus.CONNECTING": ("(1 : Int)", "Int")},
         props=["C06", "C04"]),
]

SPECS += [
    # ---- sdk/output.py : what `Output.push_data` decides before the payload is prepared (C20 C06) -----------------
    dict(lean="push_data_gate", path="sdk/output.py", qual="Output.push_data", group="Output",
         slice={"start": "if self.has_targets and self._out_infos_exchanged < len(self._connected_inputs)",
                "end": "if self.is_static"},
         fields={"has_targets": "Bool", "_out_infos_exchanged": "Int", "_connected_inputs": "Dict[Obj,Opt[Time]]",
                 "data": DATA, "is_static": "Bool"},
         params={"time": "Opt[Time]"}, ret="Opt[Time]", slice_result=["time"], props=["C20"]),
]
SPECS[-1]["slice"]["result"] = ["time"]

UCACHE = "Dict[Tuple[Obj,Obj],Tuple[Bool,Bool]]"
UNITS_COMMON = dict(path="data/tools/units.py", group="Units", extra_params={"_UNIT_PAIRS_CACHE": UCACHE},
                    mut_params=["_UNIT_PAIRS_CACHE"], props=["C17"])
CACHE_CALL = {"lean": "cache_units", "args": [0, 1, "_UNIT_PAIRS_CACHE", "conv"],
              "argtypes": ["Obj", "Obj", UCACHE, "Opt[Bool]"], "ret": "Tuple[Bool,Bool]", "updates": ["_UNIT_PAIRS_CACHE"]}

SPECS += [
    # ---- data/tools/units.py : the unit-pair memo (C17).  Units are numbered objects; `conv` is what pint answers for
    #      `np.isclose((1.0 * unit1).to(unit2).magnitude, 1.0)`: None = DimensionalityError --------------------------
    dict(lean="cache_units", qual="_cache_units", params={"unit1": "Obj", "unit2": "Obj"}, ret="Tuple[Bool,Bool]",
         raising={"np.isclose((1.0 * unit1).to(unit2).magnitude, 1.0)": ("conv", "Opt[Bool]")},
         **{**UNITS_COMMON, "extra_params": {"_UNIT_PAIRS_CACHE": UCACHE, "conv": "Opt[Bool]"}}),
    dict(lean="compatible_units", qual="compatible_units", params={"unit1": "Obj", "unit2": "Obj"}, ret="Bool",
         calls={"_get_pint_units": "id", "_cache_units": CACHE_CALL}, locals={"comp_equiv": "Opt[Tuple[Bool,Bool]]"},
         **{**UNITS_COMMON, "extra_params": {"_UNIT_PAIRS_CACHE": UCACHE, "conv": "Opt[Bool]"}}),
    dict(lean="equivalent_units", qual="equivalent_units", params={"unit1": "Obj", "unit2": "Obj"}, ret="Bool",
         calls={"_get_pint_units": "id", "_cache_units": CACHE_CALL}, locals={"comp_equiv": "Opt[Tuple[Bool,Bool]]"},
         **{**UNITS_COMMON, "extra_params": {"_UNIT_PAIRS_CACHE": UCACHE, "conv": "Opt[Bool]"}}),
]


def by_group():
    g = {}
    for s in SPECS:
        g.setdefault(s["group"], []).append(s)
    return g


# ---- sdk/component.py, schedule.py : the status automaton of a component and the driver's status checks (C03) -----
ST = {"CREATED": 0, "INITIALIZED": 1, "CONNECTING": 2, "CONNECTING_IDLE": 3, "CONNECTED": 4, "VALIDATED": 5,
      "UPDATED": 6, "FINISHED": 7, "FINALIZED": 8, "FAILED": 9}
ST_CONSTS = {"ComponentStatus." + k: ("(%d : Int)" % v, "Int") for k, v in ST.items()}
# a hook (`_initialize`, `_connect`, `_validate`, `_update`, `_finalize`) is user code: it leaves the status alone or
# sets it (Py.hook (some s)); the theorems quantify over what it does
def _hook(name):
    return {"self." + name: {"lean": "Py.hook hook", "args": ["self.status"], "argtypes": ["Int"], "stmt": True, "updates": ["status"]}}
LC_COMMON = dict(path="sdk/component.py", group="Lifecycle", fields={"status": "Int"}, extra_params={"hook": "Opt[Int]"},
                 consts=ST_CONSTS, props=["C03"], ret="Unit")
SPECS += [
    dict(lean="Component_initialize", qual="Component.initialize", calls=_hook("_initialize"),
         drop_assign=["self.inputs.frozen", "self.outputs.frozen"], **LC_COMMON),
    dict(lean="Component_connect", qual="Component.connect", calls=_hook("_connect"), ignore_params=["start_time"],
         assume_false=["start_time is not None and (not isinstance(start_time, datetime))"],
         drop_loops=["for (_, inp) in self.inputs.items()"], **LC_COMMON),
    dict(lean="Component_validate", qual="Component.validate", calls=_hook("_validate"), **LC_COMMON),
    dict(lean="Component_update", qual="Component.update", calls=_hook("_update"),
         conds={"isinstance(self, ITimeComponent)": "True"}, **LC_COMMON),
    dict(lean="Component_finalize", qual="Component.finalize", calls=_hook("_finalize"),
         drop_loops=["for (_n, out) in self.outputs.items()"], **LC_COMMON),
    dict(lean="check_status", path="schedule.py", qual="Composition._check_status", group="Lifecycle",
         params={"desired_list": "List[Int]"}, extra_params={"status": "Int"}, ignore_params=["comp"],
         consts={"comp.status": ("status", "Int")}, ret="Unit", props=["C03"]),
]

# the driver's call sites: the status check before / after each life-cycle call, with the literal status lists
_CHK = {"self._check_status": {"lean": "check_status", "args": [1, "self.status"], "argtypes": ["List[Int]", "Int"], "stmt": True}}
def _lc(meth):
    return {"comp." + meth: {"lean": "Component_" + meth, "args": ["self.status", "hook"], "argtypes": ["Int", "Opt[Int]"],
                             "stmt": True, "updates": ["status"]}}
LC_SITE = dict(path="schedule.py", group="Lifecycle", fields={"status": "Int"}, params={}, ret="Unit", props=["C03"],
               consts=dict(ST_CONSTS, **{"comp.status": ("self_status", "Int")}))
SPECS += [
    dict(lean="site_created", qual="Composition.__init__", calls=_CHK,
         slice={"start": "self._check_status(comp, [ComponentStatus.CREATED])", "end": "self._check_status(comp, [ComponentStatus.CREATED])"},
         **LC_SITE),
    dict(lean="site_initialize", qual="Composition.__init__", calls=dict(_CHK, **_lc("initialize")), extra_params={"hook": "Opt[Int]"},
         slice={"start": "comp.initialize()", "end": "self._check_status(comp, [ComponentStatus.INITIALIZED])"},
         drop_calls=["comp.inputs.set_logger", "comp.outputs.set_logger"], drop_loops=["for (_, out) in comp.outputs.items()"],
         **LC_SITE),
    dict(lean="site_connect", qual="Composition._connect_components", calls=dict(_CHK, **_lc("connect")), extra_params={"hook": "Opt[Int]"},
         slice={"start": "comp.connect(time)", "end": "self._check_status("}, **LC_SITE),
    dict(lean="site_validate", qual="Composition.connect", calls=dict(_CHK, **_lc("validate")), extra_params={"hook": "Opt[Int]"},
         slice={"start": "comp.validate()", "end": "self._check_status(comp, [ComponentStatus.VALIDATED])"}, **LC_SITE),
    dict(lean="site_updated", qual="Composition.run", calls=_CHK,
         slice={"start": "self._check_status(updated", "end": "self._check_status(updated"}, **LC_SITE),
    dict(lean="site_finalize", qual="Composition._finalize_components", calls=dict(_CHK, **_lc("finalize")), extra_params={"hook": "Opt[Int]"},
         slice={"start": "self._check_status(", "end": "self._check_status(comp, [ComponentStatus.FINALIZED])"},
         conds={"isinstance(comp, ITimeComponent)": "True"}, **LC_SITE),
]


# ---- schedule.py : which adapters the composition finalizes (C03: every adapter on a link exactly once) -----------
ADSET = "Set[Obj]"
SPECS += [
    dict(lean="collect_adapters_input", path="schedule.py", qual="_collect_adapters_input", group="Collect",
         params={"inp": "Obj", "out_adapters": ADSET}, mut_params=["out_adapters"], recursive=True, ret="Unit",
         locals={"src": "Obj"}, conds={"src is None": "(h.hasSource inp = false)"},
         calls={"_collect_adapters_input": {"lean": "collect_adapters_input", "args": [0, 1], "argtypes": ["Obj", ADSET],
                                            "stmt": True, "heap": True, "rec": True, "param_updates": ["out_adapters"]}},
         props=["C03"], **SCHED_COMMON),
    dict(lean="collect_adapters_output", path="schedule.py", qual="_collect_adapters_output", group="Collect",
         params={"out": "Obj", "out_adapters": ADSET}, mut_params=["out_adapters"], recursive=True, ret="Unit",
         calls={"_collect_adapters_output": {"lean": "collect_adapters_output", "args": [0, 1], "argtypes": ["Obj", ADSET],
                                             "stmt": True, "heap": True, "rec": True, "param_updates": ["out_adapters"]}},
         props=["C03"], **SCHED_COMMON),
    dict(lean="collect_adapters", path="schedule.py", qual="Composition._collect_adapters", group="Collect",
         fields={"_components": "List[Obj]", "_adapters": ADSET}, ret="Unit",
         consts={"comp.inputs.items()": ("(List.map (fun i => ((), i)) (h.inputs comp))", "List[Tuple[Unit,Obj]]"),
                 "comp.outputs.items()": ("(List.map (fun i => ((), i)) (h.outputs comp))", "List[Tuple[Unit,Obj]]")},
         calls={"_collect_adapters_input": {"lean": "collect_adapters_input", "args": [0, 1], "argtypes": ["Obj", ADSET],
                                            "stmt": True, "heap": True, "fuel": "(h.size + 1)", "updates": ["_adapters"]},
                "_collect_adapters_output": {"lean": "collect_adapters_output", "args": [0, 1], "argtypes": ["Obj", ADSET],
                                             "stmt": True, "heap": True, "fuel": "(h.size + 1)", "updates": ["_adapters"]}},
         props=["C03"], **SCHED_COMMON),
]


# ---- data/tools/mask.py, data/tools/info.py : the compatibility rule of the metadata exchange (C07) ---------------
# masks: None / Mask.FLEX = -1 / Mask.NONE = -2 / an explicit mask k >= 0; grids and units are identifiers; what the
# package says about two grids, two explicit masks, two units are parameters (relations: C15, C17, C18)
MASK = "Opt[Int]"
MASKEQ = "Lean:((Option Int) → (Option Int) → (Option Nat) → (Option Nat) → Except Err Bool)"
SPECS += [
    dict(lean="masks_compatible", path="data/tools/mask.py", qual="masks_compatible", group="Info",
         params={"this": MASK, "incoming": MASK, "incoming_donwstream": "Bool", "this_grid": "Opt[Obj]", "incoming_grid": "Opt[Obj]"},
         extra_params={"masksEqual": MASKEQ}, ret="Bool",
         consts={"Mask.FLEX": ("(-1 : Int)", "Int"), "Mask.NONE": ("(-2 : Int)", "Int")},
         conds={"mask_specified(downstream)": "(Py.maskSpecified downstream = true)",
                "mask_specified(upstream)": "(Py.maskSpecified upstream = true)"},
         calls={"masks_equal": {"lean": "masksEqual", "args": [0, 1, 2, 3], "argtypes": [MASK, MASK, "Opt[Obj]", "Opt[Obj]"], "ret": "Bool"}},
         props=["C07"]),
]

# the same function once more, owned by C18 (the mask rules of the connect phase), with theorems stated on it directly
SPECS += [
    dict(lean="masks_compatible_rules", path="data/tools/mask.py", qual="masks_compatible", group="MaskRules",
         params={"this": MASK, "incoming": MASK, "incoming_donwstream": "Bool", "this_grid": "Opt[Obj]", "incoming_grid": "Opt[Obj]"},
         extra_params={"masksEqual": MASKEQ}, ret="Bool",
         consts={"Mask.FLEX": ("(-1 : Int)", "Int"), "Mask.NONE": ("(-2 : Int)", "Int")},
         conds={"mask_specified(downstream)": "(Py.maskSpecified downstream = true)",
                "mask_specified(upstream)": "(Py.maskSpecified upstream = true)"},
         calls={"masks_equal": {"lean": "masksEqual", "args": [0, 1, 2, 3], "argtypes": [MASK, MASK, "Opt[Obj]", "Opt[Obj]"], "ret": "Bool"}},
         props=["C18"]),
]

SPECS += [
    dict(lean="Info_accepts", path="data/tools/info.py", qual="Info.accepts", group="Info",
         fields={"grid": "Opt[Obj]", "mask": MASK, "units": "Opt[Obj]"},
         params={"incoming_donwstream": "Bool"}, ignore_params=["incoming", "fail_info"],
         extra_params={"in_grid": "Opt[Obj]", "in_mask": MASK, "in_units": "Opt[Obj]",
                       "gridCompat": "Lean:(Nat → (Option Nat) → Bool)", "unitsCompat": "Lean:(Nat → Nat → Bool)",
                       "masksEqual": MASKEQ},
         ret="Bool", locals={"u1": "Opt[Obj]", "u2": "Opt[Obj]"},
         consts={"incoming.grid": ("in_grid", "Opt[Obj]"), "incoming.mask": ("in_mask", MASK), "incoming.units": ("in_units", "Opt[Obj]")},
         conds={"self.grid.compatible_with(incoming.grid)": "(gridCompat (self_grid.getD 0) in_grid = true)",
                "compatible_units(u1, u2)": "(unitsCompat (u1.getD 0) (u2.getD 0) = true)"},
         assume_false=["not isinstance(incoming, Info)"],
         drop_assign=["fail_info['grid']", "fail_info['mask']", "fail_info['units']"],
         calls={"masks_compatible": {"lean": "masks_compatible", "args": [0, 1, 2, 3, 4, "masksEqual"],
                                     "argtypes": [MASK, MASK, "Bool", "Opt[Obj]", "Opt[Obj]", MASKEQ], "ret": "Bool"}},
         props=["C07"]),
]


# ---- sdk/output.py, adapters/time*.py : a publication enters the history / the adapter's buffer -------------------
SPECS += [
    dict(lean="Output_push_data", path="sdk/output.py", qual="Output.push_data", group="Output",
         fields={"has_targets": "Bool", "_out_infos_exchanged": "Int", "_connected_inputs": "Dict[Obj,Opt[Time]]",
                 "data": DATA, "is_static": "Bool", "_time": "Opt[Time]"},
         params={"time": "Time"}, ignore_params=["data"], extra_params={"prepared": "Val"}, ret="Unit",
         consts={"tools.prepare(data, self.info, report_conversion=True)": ("(prepared, (none : Option Unit))", "Tuple[Val,Opt[Unit]]")},
         calls={"self._pack": "id"}, locals={"xdata": "Val", "conv": "Opt[Unit]", "d": "Val"},
         # the non-static path (the static one: slice `push_data_gate` and the model `SOut`)
         assume_false=["self.is_static", "isinstance(self.data[-1][1], str)", "np.may_share_memory(d.data, xdata.data)"],
         drop_calls=["_check_time", "self.notify_targets", "self.logger.profile"], props=["C08", "C09", "C20"]),
    dict(lean="TimeCachingAdapter__source_updated", path="adapters/time.py", qual="TimeCachingAdapter._source_updated",
         group="TimeBase", fields={"data": "List[Tuple[Time,Val]]"}, params={"time": "Time"}, extra_params={"pulled": "Val"},
         ret="Unit", consts={"dtools.strip_time(self.pull_data(time, self), self._input_info.grid)": ("pulled", "Val")},
         calls={"self._pack": "id"}, drop_calls=["check_time"], props=["C11"]),
    dict(lean="TimeIntegrationAdapter__source_updated", path="adapters/time_integration.py",
         qual="TimeIntegrationAdapter._source_updated", group="Integ",
         fields={"data": "List[Tuple[Time,Val]]", "_prev_time": "Opt[Time]"}, params={"time": "Time"}, extra_params={"pulled": "Val"},
         ret="Unit", consts={"tools.strip_time(self.pull_data(time, self), self._input_info.grid)": ("pulled", "Val")},
         calls={"self._pack": "id"}, drop_calls=["check_time"], props=["C12"]),
]


# ---- sdk/output.py : Output.get_info — the producer's side of the metadata exchange (C07) --------------------------
# the output's Info is read as flat fields (grid / time / mask / units / the other meta entries by key id), the request
# likewise; `Info.accepts` is the translated one
META = "Dict[Obj,Opt[Obj]]"
SPECS += [
    dict(lean="Output_get_info", path="sdk/output.py", qual="Output.get_info", group="Exchange",
         fields={"has_info": "Bool", "oi_grid": "Opt[Obj]", "oi_time": "Opt[Time]", "oi_mask": MASK, "oi_units": "Opt[Obj]",
                 "oi_meta": META, "is_static": "Bool", "_out_infos_exchanged": "Int"},
         params={}, ignore_params=["info"],
         extra_params={"info_grid": "Opt[Obj]", "info_time": "Opt[Time]", "info_mask": MASK, "info_units": "Opt[Obj]", "info_meta": META,
                       "gridCompat": "Lean:(Nat → (Option Nat) → Bool)", "unitsCompat": "Lean:(Nat → Nat → Bool)", "masksEqual": MASKEQ},
         ret="Unit", return_unit=["self._output_info"],
         alias={"self._output_info.grid": "self.oi_grid", "self._output_info.time": "self.oi_time",
                "self._output_info.meta": "self.oi_meta", "info.grid": "info_grid", "info.time": "info_time", "info.meta": "info_meta"},
         conds={"self._output_info is None": "(self_has_info = false)"},
         calls={"self._output_info.accepts": {"lean": "Info_accepts",
                                              "args": ["self.oi_grid", "self.oi_mask", "self.oi_units", "True", "info_grid", "info_mask",
                                                       "info_units", "gridCompat", "unitsCompat", "masksEqual"],
                                              "argtypes": ["Opt[Obj]", MASK, "Opt[Obj]", "Bool", "Opt[Obj]", MASK, "Opt[Obj]",
                                                           "Lean:(Nat → (Option Nat) → Bool)", "Lean:(Nat → Nat → Bool)", MASKEQ],
                                              "ret": "Bool"}},
         drop_assign=["fail_info"], props=["C07"]),
]

# ---- sdk/adapter.py : where a delay adapter takes its clamp time from (C13 C04 C02) -----------------------------------
SPECS += [
    dict(lean="TimeDelayAdapter_get_info", path="sdk/adapter.py", qual="TimeDelayAdapter.get_info", group="Delay",
         fields={"initial_time": "Opt[Time]"}, params={}, ignore_params=["info"], extra_params={"src_time": "Opt[Time]", "req_time": "Opt[Time]"},
         ret="Unit", return_unit=["self._output_info"], ignore_fields=["_output_info"],
         alias={"self._output_info.time": "src_time", "info.time": "req_time"}, props=["C13", "C04", "C02"]),
]

# ---- sdk/output.py : when an output hands out its metadata (C06: never while an exchange is outstanding) -------------
SPECS += [
    dict(lean="Output_info", path="sdk/output.py", qual="Output.info", group="Output",
         fields={"has_info": "Bool", "has_targets": "Bool", "_out_infos_exchanged": "Int", "_connected_inputs": "Dict[Obj,Opt[Time]]"},
         params={}, ret="Unit", return_unit=["self._output_info"], property=True,
         conds={"self._output_info is None": "(self_has_info = false)"}, props=["C06", "C20"]),
]


# ---- adapters/regrid.py : the metadata side of the regridding adapters (C07 C16) --------------------------------------
# grids are identifiers, masks `None` / FLEX / NONE / an explicit mask id; the upstream exchange (`self.exchange_info`) is
# given by its answer (in_grid, in_mask), `_update_grid_specs` is RegridNearest's as far as the metadata are concerned
# (`_check_and_set_out_mask()`), `x.crs` of a grid is a relation of the catalogue (an `AttributeError` for `NoGrid`)
CRSOF = "Lean:((Option Nat) → Except Err (Option Nat))"
CSOM = {"lean": "ARegridding__check_and_set_out_mask", "args": ["self.output_mask", "self.downstream_mask", "self._out_mask_checked", "masksEqual"],
        "argtypes": [MASK, MASK, "Bool", MASKEQ], "stmt": True, "updates": ["_out_mask_checked", "output_mask"]}
SPECS += [
    dict(lean="ARegridding__check_and_set_out_mask", path="adapters/regrid.py", qual="ARegridding._check_and_set_out_mask", group="Regrid",
         fields={"output_mask": MASK, "downstream_mask": MASK, "_out_mask_checked": "Bool"}, params={},
         extra_params={"masksEqual": MASKEQ}, ret="Unit",
         calls={"dtools.masks_compatible": {"lean": "masks_compatible", "args": [0, 1, 2, "None", "None", "masksEqual"],
                                            "argtypes": [MASK, MASK, "Bool", "Opt[Obj]", "Opt[Obj]", MASKEQ], "ret": "Bool"}},
         drop_assign=["msg"], props=["C07", "C16"]),
    dict(lean="ARegridding__get_info", path="adapters/regrid.py", qual="ARegridding._get_info", group="Regrid",
         fields={"input_grid": "Opt[Obj]", "output_grid": "Opt[Obj]", "output_mask": MASK, "downstream_mask": MASK, "input_mask": MASK,
                 "_is_initialized": "Bool", "_out_mask_checked": "Bool"},
         params={}, ignore_params=["info"], ignore_fields=["input_meta", "transformer"],
         extra_params={"info_grid": "Opt[Obj]", "info_mask": MASK, "in_grid": "Opt[Obj]", "in_mask": MASK,
                       "gridNe": "Lean:((Option Nat) → (Option Nat) → Bool)", "crsOf": CRSOF, "masksEqual": MASKEQ},
         ret="Unit", return_unit=["in_info.copy_with(grid=self.output_grid, mask=self.output_mask)"],
         alias={"info.grid": "info_grid", "info.mask": "info_mask", "in_info.grid": "in_grid", "in_info.mask": "in_mask",
                "self.input_grid.crs": "crs_of(self.input_grid)", "self.output_grid.crs": "crs_of(self.output_grid)"},
         conds={"self.output_grid != info_grid": "(gridNe self_output_grid info_grid = true)"},
         calls={"crs_of": {"lean": "crsOf", "args": [0], "argtypes": ["Opt[Obj]"], "ret": "Opt[Obj]"},
                "self._update_grid_specs": CSOM, "self._check_and_set_out_mask": CSOM},
         drop_assign=["request", "in_info", "self.input_meta", "self.transformer", "msg"], props=["C07", "C16"]),
]


# ---- sdk/output.py : the spill files of an output (C10) -------------------------------------------------------------
# A stored entry (`Val`) is a quantity or a file name; what is on disk is a state `φ` given with its operations
# (`os.remove`, `np.save` / `MaskedArray.dump`, `np.load`) as parameters, like `nbytes`, `isinstance(x, str)` and the name
# `os.path.join(memory_location or "", f"{id(self)}-{counter}.npy")` of the next file (`mkFile counter data`).
FS = "Lean:φ"
FS_PARAMS = {"isFile": "Lean:(α → Bool)", "nbytes": "Lean:(α → Int)", "fsRemove": "Lean:(φ → α → Except Err φ)"}
FS_REMOVE = {"lean": "fsRemove", "args": ["self.fs", 0], "stmt": True, "updates": ["fs"]}
FS_CREATE = {"lean": "fsCreate", "args": ["self.fs", "fn", "data"], "stmt": True, "updates": ["fs"]}
SPECS += [
    dict(lean="Output__pack", path="sdk/output.py", qual="Output._pack", group="Spill", type_params=["φ"],
         fields={"memory_limit": "Opt[Int]", "_total_mem": "Int", "_mem_counter": "Int", "fs": FS}, params={"data": "Val"},
         extra_params={"nbytes": "Lean:(α → Int)", "isMasked": "Lean:(α → Bool)", "mkFile": "Lean:(Int → α → α)",
                       "fsCreate": "Lean:(φ → α → α → Except Err φ)"},
         ret="Val", locals={"fn": "Val"},
         consts={"data.nbytes": ("(nbytes data)", "Int"),
                 "os.path.join(self.memory_location or '', f'{id(self)}-{self._mem_counter}.npy')": ("(mkFile self__mem_counter data)", "Val")},
         conds={"np.ma.isMaskedArray(data.magnitude)": "(isMasked data = true)"},
         calls={"data.magnitude.dump": FS_CREATE, "np.save": FS_CREATE}, props=["C10"]),
    dict(lean="Output__unpack", path="sdk/output.py", qual="Output._unpack", group="Spill", type_params=["φ"],
         fields={"fs": FS}, params={"where": "Val"}, extra_params={"isFile": "Lean:(α → Bool)", "fsLoad": "Lean:(φ → α → Except Err α)"},
         ret="Val", locals={"data": "Val"}, conds={"isinstance(where_, str)": "(isFile where_ = true)"},
         calls={"np.load": {"lean": "fsLoad", "args": ["self.fs", 0], "ret": "Val"}, "tools.UNITS.Quantity": "id"}, props=["C10"]),
    dict(lean="Output__clear_data_files", path="sdk/output.py", qual="Output._clear_data", group="Spill", type_params=["φ"], loop_extras=True,
         fields={"data": "List[Tuple[Time,Val]]", "_connected_inputs": "Dict[Obj,Opt[Time]]", "_total_mem": "Int", "fs": FS},
         params={"time": "Time", "target": "Obj"}, extra_params=FS_PARAMS, ret="Unit", locals={"d": "Tuple[Time,Val]"},
         conds={"isinstance(d[1], str)": "(isFile d.2 = true)"}, consts={"d[1].nbytes": ("(nbytes d.2)", "Int")},
         calls={"os.remove": FS_REMOVE},
         fuel={"len(self.data) > 1 and self.data[1][0] <= t_min": "len(self.data)"}, props=["C10"]),
    dict(lean="Output_finalize", path="sdk/output.py", qual="Output.finalize", group="Spill", type_params=["φ"], loop_extras=True,
         fields={"data": "List[Tuple[Time,Val]]", "fs": FS}, params={},
         extra_params={"isFile": "Lean:(α → Bool)", "fsRemove": "Lean:(φ → α → Except Err φ)"}, ret="Unit",
         conds={"isinstance(d, str)": "(isFile d = true)"}, calls={"os.remove": FS_REMOVE}, props=["C10"]),
]


# ---- adapters/time.py : the spill files of the time-caching / time-integration adapters (C10) -----------------------
# (`_pack` is inherited from `Output`; eviction is up to the request time, `_unpack` re-wraps with the source's units)
SPECS += [
    dict(lean="TimeCachingAdapter__clear_cached_data_files", path="adapters/time.py", qual="TimeCachingAdapter._clear_cached_data",
         group="Spill", type_params=["φ"], loop_extras=True,
         fields={"data": "List[Tuple[Time,Val]]", "_total_mem": "Int", "fs": FS}, params={"time": "Time"},
         extra_params=FS_PARAMS, ret="Unit", locals={"d": "Tuple[Time,Val]"},
         conds={"isinstance(d[1], str)": "(isFile d.2 = true)"}, consts={"d[1].nbytes": ("(nbytes d.2)", "Int")},
         calls={"os.remove": FS_REMOVE},
         fuel={"len(self.data) > 1 and self.data[1][0] <= time": "len(self.data)"}, props=["C10"]),
    dict(lean="TimeCachingAdapter__unpack", path="adapters/time.py", qual="TimeCachingAdapter._unpack", group="Spill", type_params=["φ"],
         fields={"fs": FS}, params={"where": "Val"}, extra_params={"isFile": "Lean:(α → Bool)", "fsLoad": "Lean:(φ → α → Except Err α)"},
         ret="Val", locals={"data": "Val"}, conds={"isinstance(where_, str)": "(isFile where_ = true)"},
         calls={"np.load": {"lean": "fsLoad", "args": ["self.fs", 0], "ret": "Val"}, "dtools.UNITS.Quantity": "id"}, props=["C10"]),
    dict(lean="TimeCachingAdapter__finalize", path="adapters/time.py", qual="TimeCachingAdapter._finalize", group="Spill",
         type_params=["φ"], loop_extras=True, fields={"data": "List[Tuple[Time,Val]]", "fs": FS}, params={},
         extra_params={"isFile": "Lean:(α → Bool)", "fsRemove": "Lean:(φ → α → Except Err φ)"}, ret="Unit",
         conds={"isinstance(d, str)": "(isFile d = true)"}, calls={"os.remove": FS_REMOVE}, props=["C10"]),
]


# ---- sdk/input.py : Input.exchange_info — the consumer's side of the metadata exchange (C07 C06) ---------------------
# the input's own metadata (given at construction or with the call, never both) and the source's answer are read as flat
# fields; building the merged info (`copy_with`) and the grid transformation stay with the hand model (`mergeInfo`)
SPECS += [
    dict(lean="Input_exchange_info", path="sdk/input.py", qual="Input.exchange_info", group="Exchange",
         fields={"_in_info_exchanged": "Bool", "has_info": "Bool"}, params={}, ignore_params=["info"],
         ignore_fields=["_input_info", "_transform"],
         extra_params={"info_given": "Bool", "own_grid": "Opt[Obj]", "own_mask": MASK, "own_units": "Opt[Obj]",
                       "src_grid": "Opt[Obj]", "src_mask": MASK, "src_units": "Opt[Obj]",
                       "gridCompat": "Lean:(Nat → (Option Nat) → Bool)", "unitsCompat": "Lean:(Nat → Nat → Bool)", "masksEqual": MASKEQ},
         ret="Unit", return_unit=["self._input_info"],
         conds={"self._input_info is None": "(self_has_info = false)", "self._input_info is not None": "(self_has_info = true)",
                "info is None": "(info_given = false)", "info is not None": "(info_given = true)"},
         assume_false=["not isinstance(info, Info)"],
         calls={"info.accepts": {"lean": "Info_accepts",
                                 "args": ["own_grid", "own_mask", "own_units", "False", "src_grid", "src_mask", "src_units",
                                          "gridCompat", "unitsCompat", "masksEqual"],
                                 "argtypes": ["Opt[Obj]", MASK, "Opt[Obj]", "Bool", "Opt[Obj]", MASK, "Opt[Obj]",
                                              "Lean:(Nat → (Option Nat) → Bool)", "Lean:(Nat → Nat → Bool)", MASKEQ],
                                 "ret": "Bool"}},
         drop_assign=["info", "src_info", "fail_info", "self._input_info", "self._transform"], props=["C07", "C06"]),
]


# ---- tools/connect_helper.py : how the initial data of an output is published (C06 C04 C08) --------------------------
# the publications are recorded in a trace (`pushes`): `None` for a static output; the composition's start time and the
# time of the output's metadata when they differ; the metadata time alone otherwise
SPECS += [
    dict(lean="ConnectHelper__push_data", path="tools/connect_helper.py", qual="ConnectHelper._push_data", group="Connect",
         fields={"data_pushed": NAMED_BOOL, "pushes": "List[Opt[Time]]"}, params={"name": "Obj", "time": "Opt[Time]", "info_time": "Opt[Time]"},
         ignore_params=["data"], extra_params={"is_static": "Bool"}, ret="Unit", ignore_fields=["_out_data_cache"],
         consts={"out.is_static": ("is_static", "Bool")},
         calls={"out.push_data": {"lean": "Py.recordPush", "args": ["self.pushes", 1], "argtypes": ["List[Opt[Time]]", "Opt[Time]"],
                                  "stmt": True, "updates": ["pushes"]}},
         drop_assign=["out"], drop_calls=["self._out_data_cache.pop"], props=["C06"]),
]


# ---- sdk/output.py, sdk/adapter.py : push notifications (C01 C11 C12) ---------------------------------------------------
# `target.source_updated(time)` on another object is recorded in a trace: who was notified, with which time, in which order
NOTES = "List[Tuple[Obj,Opt[Time]]]"
NOTIFY = {"lean": "Py.recordPush", "args": ["self.notes", "(target, time)"], "argtypes": [NOTES, "Tuple[Obj,Opt[Time]]"],
          "stmt": True, "updates": ["notes"]}
SPECS += [
    dict(lean="Output_notify_targets", path="sdk/output.py", qual="Output.notify_targets", group="Notify",
         fields={"_targets": "List[Obj]", "notes": NOTES}, params={"time": "Opt[Time]"}, ret="Unit",
         drop_calls=["_check_time"], calls={"target.source_updated": NOTIFY}, props=["C01", "C11", "C12"]),
    dict(lean="Adapter_notify_targets", path="sdk/adapter.py", qual="Adapter.notify_targets", group="Notify",
         fields={"targets": "List[Obj]", "notes": NOTES}, params={"time": "Opt[Time]"}, ret="Unit",
         assume_false=["time is not None and (not isinstance(time, datetime))"],
         calls={"target.source_updated": NOTIFY}, props=["C01", "C11", "C12"]),
    dict(lean="Adapter_source_updated", path="sdk/adapter.py", qual="Adapter.source_updated", group="Notify",
         fields={"targets": "List[Obj]", "notes": NOTES}, params={"time": "Opt[Time]"}, ret="Unit",
         assume_false=["time is not None and (not isinstance(time, datetime))"], drop_calls=["self._source_updated"],
         calls={"self.notify_targets": {"lean": "Adapter_notify_targets", "args": ["self.targets", "self.notes", 0],
                                        "stmt": True, "updates": ["notes"]}}, props=["C01", "C11", "C12"]),
]


# ---- sdk/adapter.py : TimeDelayAdapter.get_data — the time a delay adapter asks its source for (C13 C02 C01) -----------
# `with_delay` (of the subclass) is a parameter; the upstream pull is recorded (time, requesting end point) and answered
# with a given value; `_pulled` (the hook in which DelayToPull remembers the request) is recorded too
SPECS += [
    dict(lean="TimeDelayAdapter_get_data", path="sdk/adapter.py", qual="TimeDelayAdapter.get_data", group="Delay",
         fields={"reqs": "List[Tuple[Time,Obj]]", "pulled": "List[Time]"}, params={"time": "Time", "target": "Obj"},
         extra_params={"withDelay": "Lean:(Int → Except Err Int)", "answer": "Val"}, ret="Val",
         assume_false=["time is not None and (not isinstance(time, datetime))"],
         calls={"self.with_delay": {"lean": "withDelay", "args": [0], "ret": "Time"},
                "self._get_data": {"lean": "Py.recordReq", "args": ["self.reqs", "(new_time, target)", "answer"],
                                   "argtypes": ["List[Tuple[Time,Obj]]", "Tuple[Time,Obj]", "Val"], "ret": "Val", "updates": ["reqs"]},
                "self._pulled": {"lean": "Py.recordPush", "args": ["self.pulled", 0], "argtypes": ["List[Time]", "Time"],
                                 "stmt": True, "updates": ["pulled"]}},
         consts={"tools.prepare(data, self._output_info, report_conversion=True)": ("(data, (none : Option Unit))", "Tuple[Val,Opt[Unit]]")},
         locals={"xdata": "Val", "conv": "Opt[Unit]", "data": "Val", "new_time": "Time"}, props=["C13", "C02", "C01"]),
]


# ---- tools/connect_helper.py : metadata composed by transfer rules (C06) ---------------------------------------------
# an Info is read as (time, grid, meta dict by key id; key 0 = "time", 1 = "grid"); a rule is (kind, name-or-field, fields,
# value) with kind 0 = FromInput, 1 = FromOutput, 2 = FromValue; MissingInfoError is the "other" error of the translation
IMETA = "Dict[Obj,Opt[Obj]]"
RULE = "Tuple[Int,Obj,List[Obj],Opt[Obj]]"
INFOS3 = "Dict[Obj,Opt[Tuple[Opt[Obj],Opt[Obj],Dict[Obj,Opt[Obj]]]]]"
TRANSFER = {"lean": "transfer_fields", "stmt": True, "param_updates": ["info_time", "info_grid", "info_meta"]}
SPECS += [
    dict(lean="transfer_fields", path="tools/connect_helper.py", qual="_transfer_fields", group="Rules",
         params={"fields": "List[Obj]"}, ignore_params=["source_info", "target_info"],
         extra_params={"s_time": "Opt[Obj]", "s_grid": "Opt[Obj]", "s_meta": IMETA, "t_time": "Opt[Obj]", "t_grid": "Opt[Obj]", "t_meta": IMETA},
         mut_params=["t_time", "t_grid", "t_meta"], ret="Unit",
         alias={"source_info.time": "s_time", "source_info.grid": "s_grid", "source_info.meta": "s_meta",
                "target_info.time": "t_time", "target_info.grid": "t_grid", "target_info.meta": "t_meta"},
         consts={"'time'": ("(0 : Nat)", "Obj"), "'grid'": ("(1 : Nat)", "Obj")}, calls={"copy.copy": "id"}, props=["C06"]),
]

INFO3 = "Tuple[Opt[Obj],Opt[Obj],Dict[Obj,Opt[Obj]]]"
SPECS += [
    dict(lean="ConnectHelper__apply_rules", path="tools/connect_helper.py", qual="ConnectHelper._apply_rules", group="Rules",
         fields={"in_infos": INFOS3, "out_infos": INFOS3}, params={"rules": "List[" + RULE + "]"}, ret="Unit", return_unit=["info"],
         init={"info_time": ("(none : Option Nat)", "Opt[Obj]"), "info_grid": ("(none : Option Nat)", "Opt[Obj]"),
               "info_meta": ("([(2, some 3)] : List (Nat × Option Nat))", IMETA)},   # `Info(time=None, grid=None)`: units "" (id 3) under key "units" (id 2)
         mut_params=["info_time", "info_grid", "info_meta"], drop_assign=["info"], rename={"out_info": "in_info"},
         alias={"info.time": "info_time", "info.grid": "info_grid", "info.meta": "info_meta"},
         locals={"in_info": "Opt[" + INFO3 + "]"},
         conds={"isinstance(rule, FromInput)": "(rule.1 = 0)", "isinstance(rule, FromOutput)": "(rule.1 = 1)",
                "isinstance(rule, FromValue)": "(rule.1 = 2)"},
         consts={"rule.name": ("rule.2.1", "Obj"), "rule.fields": ("rule.2.2.1", "List[Obj]"), "rule.field": ("rule.2.1", "Obj"),
                 "rule.value": ("rule.2.2.2", "Opt[Obj]"), "'time'": ("(0 : Nat)", "Obj"), "'grid'": ("(1 : Nat)", "Obj"),
                 "in_info[0]": ("(in_info.getD (none, none, [])).1", "Opt[Obj]"), "in_info[1]": ("(in_info.getD (none, none, [])).2.1", "Opt[Obj]"),
                 "in_info[2]": ("(in_info.getD (none, none, [])).2.2", IMETA)},
         calls={"_transfer_fields": {"lean": "transfer_fields", "args": ["rule.fields", "in_info[0]", "in_info[1]", "in_info[2]",
                                                                          "info_time", "info_grid", "info_meta"],
                                     "stmt": True, "param_updates": ["info_time", "info_grid", "info_meta"]}},
         props=["C06"]),
]

# the wrappers that decide *which* rule sets are applied in a connect call (F18 was here): `self._apply_rules(rules)` is a
# parameter by slot name (None = MissingInfoError)
APPLIED = "Lean:(Nat → Option Nat)"
SPECS += [
    dict(lean="ConnectHelper__apply_in_info_rules", path="tools/connect_helper.py", qual="ConnectHelper._apply_in_info_rules", group="Rules", loop_extras=True,
         fields={"_in_info_rules": "Dict[Obj,Int]", "in_infos": "Dict[Obj,Opt[Unit]]", "_cache": "Bool", "_in_info_cache": "Dict[Obj,Obj]"},
         params={}, extra_params={"applied": APPLIED}, ret="Dict[Obj,Obj]", locals={"exchange_infos": "Dict[Obj,Obj]", "info": "Obj"},
         raising={"self._apply_rules(rules)": ("(applied name)", "Opt[Obj]")}, props=["C06"]),
    dict(lean="ConnectHelper__apply_out_info_rules", path="tools/connect_helper.py", qual="ConnectHelper._apply_out_info_rules", group="Rules", loop_extras=True,
         fields={"_out_info_rules": "Dict[Obj,Int]", "infos_pushed": "Dict[Obj,Bool]", "_cache": "Bool", "_out_info_cache": "Dict[Obj,Obj]"},
         params={}, extra_params={"applied": APPLIED}, ret="Dict[Obj,Obj]", locals={"push_infos": "Dict[Obj,Obj]", "info": "Obj"},
         raising={"self._apply_rules(rules)": ("(applied name)", "Opt[Obj]")}, props=["C06"]),
]


# ---- schedule.py : the whole `Composition._connect_components` loop (C06 C04) -----------------------------------------
# component statuses are a table by component id; what `comp.connect(time)` does to the world (helpers, caches, outputs) and
# to the statuses is a parameter; the iteration bound of `while True` is a parameter too (running out of it is an error result)
CONNECT_COMP = "Lean:(φ → (List (Nat × Int)) → Nat → Except Err ((List (Nat × Int)) × φ))"
SPECS += [
    dict(lean="connect_components", path="schedule.py", qual="Composition._connect_components", group="Connect", type_params=["φ"],
         loop_extras=True,
         fields={"_components": "List[Obj]", "status": "Dict[Obj,Int]", "world": "Lean:φ"}, params={}, ignore_params=["time"],
         extra_params={"connectComp": CONNECT_COMP, "fuelN": "Lean:Nat"}, ret="Unit", fuel={"True": "lean:fuelN"},
         consts={"comp.status": ("((Py.dictGet? self_status comp).getD (-1))", "Int"), "ComponentStatus.CONNECTED": ("(0 : Int)", "Int"),
                 "ComponentStatus.CONNECTING": ("(1 : Int)", "Int"), "ComponentStatus.CONNECTING_IDLE": ("(2 : Int)", "Int")},
         calls={"comp.connect": {"lean": "connectComp", "args": ["self.world", "self.status", "comp"], "stmt": True,
                                 "updates": ["status", "world"]}},
         drop_calls=["self._check_status"], drop_assign=["unconn"], props=["C06", "C04"]),
]


# ---- schedule.py : Composition._finalize_components (C03 C10) --------------------------------------------------------
# `comp.finalize()` / `ada.finalize()` on other objects are recorded in traces; the status checks around them are the
# translated call sites of the Lifecycle group
SPECS += [
    dict(lean="finalize_components", path="schedule.py", qual="Composition._finalize_components", group="Finalize",
         fields={"_components": "List[Obj]", "_adapters": "List[Obj]", "fin": "List[Obj]", "finAd": "List[Obj]"}, params={}, ret="Unit",
         assume_false=["isinstance(comp, ITimeComponent) and comp.status == ComponentStatus.VALIDATED"],
         drop_calls=["self._check_status"],
         calls={"comp.finalize": {"lean": "Py.recordPush", "args": ["self.fin", "comp"], "argtypes": ["List[Obj]", "Obj"], "stmt": True, "updates": ["fin"]},
                "ada.finalize": {"lean": "Py.recordPush", "args": ["self.finAd", "ada"], "argtypes": ["List[Obj]", "Obj"], "stmt": True, "updates": ["finAd"]}},
         props=["C03", "C10"]),
]


# ---- sdk/output.py, sdk/adapter.py : the ping phase — who is an end point of an output (C09 C06) ------------------------
SPECS += [
    dict(lean="Output_pinged", path="sdk/output.py", qual="Output.pinged", group="Output",
         fields={"_connected_inputs": "Dict[Obj,Opt[Time]]"}, params={"source": "Obj"}, extra_params={"isAdapter": "Lean:(Nat → Bool)"},
         ret="Unit", conds={"isinstance(source, IAdapter)": "(isAdapter source = true)"}, props=["C09", "C06"]),
    dict(lean="Adapter_pinged", path="sdk/adapter.py", qual="Adapter.pinged", group="Output",
         fields={"needs_push": "Bool", "announced": "List[Obj]"}, params={"source": "Obj"}, extra_params={"me": "Obj"}, ret="Unit",
         consts={"self": ("me", "Obj")},
         calls={"self._source.pinged": {"lean": "Py.recordPush", "args": ["self.announced", 0], "argtypes": ["List[Obj]", "Obj"],
                                        "stmt": True, "updates": ["announced"]}}, props=["C09", "C06"]),
]
