"""Shared helpers of the grid engines (C14, C15, C18): grid specs -> real FINAM grids and -> the
JSON the Lean driver expects; array <-> JSON; float-vs-rational comparison.

A grid spec is a JSON-able dict:
  {"kind": "uniform", "dims": [3,4], "spacing": [1,2], "origin": [10,20], "order": "F", "rev": false,
   "inc": [true,false], "loc": "cells"}
  {"kind": "rect", "axes": [[0,1,3],[0,2]], "order": …, "rev": …, "inc": […], "loc": …}   (axes increasing)
  {"kind": "esri", "ncols": 3, "nrows": 2, "cellsize": 1, "xll": 0, "yll": 0, "order": "C"}
All coordinates are small integers, so every coordinate and cell centre is exact in binary floating
point and the model's rationals can be compared tightly.
"""
import itertools

import numpy as np

from .fmutil import close, fm, rat

LOCS = {"cells": fm.Location.CELLS, "points": fm.Location.POINTS}
LOC_NAMES = {fm.Location.CELLS: "cells", fm.Location.POINTS: "points"}


def spec_axes(spec):
    """increasing integer axes (xyz order) described by the spec"""
    k = spec["kind"]
    if k == "uniform":
        return [[o + s * i for i in range(d)] for d, s, o in zip(spec["dims"], spec["spacing"], spec["origin"])]
    if k == "rect":
        return [list(a) for a in spec["axes"]]
    if k == "esri":
        cs = spec["cellsize"]
        return [[spec["xll"] + cs * i for i in range(spec["ncols"] + 1)],
                [spec["yll"] + cs * i for i in range(spec["nrows"] + 1)]]
    raise ValueError(k)


def spec_flags(spec):
    """(inc, rev, order, loc) as the layout conventions of the grid classes define them"""
    if spec["kind"] == "esri":
        # ESRI rasters: rows first (axes reversed), northing decreasing
        return [True, False], True, spec["order"], "cells"
    axes = spec_axes(spec)
    # an axis of length one has no direction: the constructors report it as increasing
    inc = [bool(b) or len(a) == 1 for a, b in zip(axes, spec["inc"])]
    return inc, bool(spec["rev"]), spec["order"], spec["loc"]


def model_grid(spec, loc=None):
    inc, rev, order, l = spec_flags(spec)
    return {"axes": spec_axes(spec), "inc": inc, "rev": rev, "order": order, "loc": loc or l,
            "crs": spec.get("crs")}


def valid_locs(spec):
    return ["cells"] if spec["kind"] == "esri" else ["cells", "points"]


def build_grid(spec, loc=None):
    """the real FINAM grid; "to_rect": the rectilinear grid derived from it by `to_rectilinear()` (same geometry,
    same layout flags)"""
    g = _build_grid(spec, loc)
    if spec.get("to_rect") and hasattr(g, "to_rectilinear"):
        g = g.to_rectilinear()
    return g


def _build_grid(spec, loc=None):
    k = spec["kind"]
    if k == "esri":
        return fm.EsriGrid(ncols=spec["ncols"], nrows=spec["nrows"], cellsize=float(spec["cellsize"]),
                           xllcorner=float(spec["xll"]), yllcorner=float(spec["yll"]), order=spec["order"],
                           crs=spec.get("crs"))
    location = LOCS[loc or spec["loc"]]
    if k == "uniform":
        d = len(spec["dims"])
        return fm.UniformGrid(tuple(spec["dims"]), spacing=tuple(float(s) for s in spec["spacing"]),
                              origin=tuple(float(o) for o in spec["origin"]), data_location=location,
                              order=spec["order"], axes_reversed=spec["rev"], axes_increase=list(spec["inc"])[:d],
                              crs=spec.get("crs"))
    if k == "rect":
        # "dtype": the axes as the caller hands them over (e.g. float32 arrays read from a raster file)
        axes = [np.array(a if inc else a[::-1], dtype=spec.get("dtype", float)) for a, inc in zip(spec["axes"], spec["inc"])]
        return fm.RectilinearGrid(axes, data_location=location, order=spec["order"], axes_reversed=spec["rev"],
                                  crs=spec.get("crs"))
    raise ValueError(k)


def spec_dims(spec):
    return [len(a) for a in spec_axes(spec)]


def layouts(d):
    """all (order, rev, inc) layouts of a d-dimensional grid"""
    for order in "CF":
        for rev in (False, True):
            for inc in itertools.product((True, False), repeat=d):
                yield order, rev, list(inc)


RECT_STEPS = [1, 2, 1, 3]


def rect_axis(n, start=0):
    """irregular increasing integer axis of n points"""
    out, x = [], start
    for i in range(n):
        out.append(x)
        x += RECT_STEPS[i % len(RECT_STEPS)]
    return out


def make_spec(kind, dims, order, rev, inc, loc, variant=0):
    d = len(dims)
    if kind == "uniform":
        # variant 2: the same spacing and origin on every axis (with equal dims: x and y coordinates coincide)
        return {"kind": "uniform", "dims": list(dims), "spacing": [[1, 2, 3], [2, 1, 4], [1, 1, 1]][variant % 3][:d],
                "origin": [[10, 20, 30], [0, -4, 7], [0, 0, 0]][variant % 3][:d], "order": order, "rev": rev,
                "inc": list(inc), "loc": loc}
    if kind == "rect":
        return {"kind": "rect", "axes": [rect_axis(n, 5 * (a + variant)) for a, n in enumerate(dims)],
                "order": order, "rev": rev, "inc": list(inc), "loc": loc}
    raise ValueError(kind)


# ---------------------------------------------------------------------------------------------
def pts_close(impl, model):
    """impl: float array (n, k); model: list of n lists of k [num, den] pairs"""
    a = np.asarray(impl, dtype=float)
    if a.ndim != 2 or a.shape[0] != len(model):
        return False
    for p, q in zip(a.tolist(), model):
        if len(p) != len(q) or not all(close(x, rat(y)) for x, y in zip(p, q)):
            return False
    return True


def axes_close(impl_axes, model_axes):
    if len(impl_axes) != len(model_axes):
        return False
    for a, m in zip(impl_axes, model_axes):
        a = np.asarray(a, dtype=float).tolist()
        if len(a) != len(m) or not all(close(x, rat(y)) for x, y in zip(a, m)):
            return False
    return True


def arr_json(a):
    """integer ndarray -> {"shape", "data"} in C order"""
    a = np.asarray(a)
    return {"shape": list(a.shape), "data": [int(v) for v in a.reshape(-1, order="C")]}


def bool_json(m):
    m = np.asarray(m, dtype=bool)
    return {"shape": list(m.shape), "flat": [bool(v) for v in m.reshape(-1, order="C")]}


def short(x, n=12):
    """abbreviated form of an observable for divergence reports"""
    if isinstance(x, np.ndarray):
        x = x.tolist()
    s = repr(x)
    return s if len(s) < 400 else s[:400] + "…"
