"""Builds real FINAM compositions from a JSON spec, runs them with instrumentation (subclasses and
instance-level wrappers only), and translates the same spec for the Lean scheduler model.

Spec
----
{"comps": [{"kind": "time", "start": <h>, "steps": [<h>, ...]} | {"kind": "pull", "nout": 1|2} | {"kind": "static"}],
 "links": [{"src": ci, "out": oi, "dst": cj, "ads": [[kind, params...], ...]}],   # adapters listed source -> consumer
 "order": [permutation of component indices],  "end": <h>}
Times are integer hours since the epoch.  Adapter kinds: scale | lin | step | next | prev | avg | sum |
dfix d | dpull n add | dpush | nodep.
"""
import signal

import numpy as np

from .fmutil import EPOCH, ad, err_class, fm
import datetime as dt

H = dt.timedelta(hours=1)
MAX_UPDATES = 4000
CACHE = {"lin", "step", "next", "prev", "avg", "sum"}


def TH(h):
    return EPOCH + h * H


def hours(t):
    if t is None:
        return None
    h = (t - EPOCH) / H
    return int(h) if h == int(h) else h


class NoDep(fm.adapters.Scale, fm.interfaces.NoDependencyAdapter):
    """marker-only no-dependency adapter (passes data through)"""

    def __init__(self):
        super().__init__(1.0)


def mk_adapter(a):
    k = a[0]
    if k == "scale":
        return ad.Scale(1.0)
    if k == "lin":
        return ad.LinearTime()
    if k == "step":
        return ad.StepTime(0.5)
    if k == "next":
        return ad.NextTime()
    if k == "prev":
        return ad.PreviousTime()
    if k == "avg":
        return ad.AvgOverTime()
    if k == "sum":
        return ad.SumOverTime(per_time=False)
    if k == "dfix":
        return ad.DelayFixed(a[1] * H)
    if k == "dpull":
        return ad.DelayToPull(steps=a[1], additional_delay=a[2] * H)
    if k == "dpush":
        return ad.DelayToPush()
    if k == "nodep":
        return NoDep()
    raise ValueError(k)


class Trace:
    def __init__(self):
        self.events = []  # ("update", comp, new_time) / ("req", element_id, time) / ("got", comp, time, values) / ("cb", comp, out, time)
        self.calls = {}  # comp idx -> list of life-cycle calls
        self.current = None  # component being updated


class TC(fm.TimeComponent):
    def __init__(self, idx, spec, nin, nout, trace):
        super().__init__()
        self.idx, self.spec, self.nin, self.nout, self.tr = idx, spec, nin, nout, trace
        self._name = f"C{idx}"
        # "late_time": the component only learns its time during connect (as e.g. a reader that opens its file
        # there); before that `time` is None, which the SDK allows in the CREATED / INITIALIZED states
        self._time = None if spec.get("late_time") else TH(spec["start"])
        self.k = 0
        self.tr.calls[idx] = []

    def _step(self):
        s = self.spec["steps"]
        return s[self.k % len(s)] * H

    @property
    def next_time(self):
        return self.time + self._step()

    def _next_time(self):
        return self.time + self._step()

    def value(self, t):
        return float(hours(t)) + 1000.0 * self.idx

    def _initialize(self):
        self.tr.calls[self.idx].append("initialize")
        for i in range(self.nin):
            self.inputs.add(name=f"In{i}", time=TH(self.spec["start"]), grid=fm.NoGrid(), units="")
        for o in range(self.nout):
            self.outputs.add(name=f"Out{o}", time=TH(self.spec["start"]), grid=fm.NoGrid(), units="")
        self.create_connector()

    def _connect(self, start_time):
        self.tr.calls[self.idx].append("connect")
        if self._time is None:
            self._time = TH(self.spec["start"])
        self.try_connect(start_time, push_data={f"Out{o}": self.value(self.time) + 0.5 * o for o in range(self.nout)})

    def _validate(self):
        self.tr.calls[self.idx].append("validate")

    def _update(self):
        self.tr.calls[self.idx].append("update")
        nt = self.time + self._step()
        self.k += 1
        self.tr.current = self.idx
        self.tr.n_updates = getattr(self.tr, "n_updates", 0) + 1
        if self.tr.n_updates > MAX_UPDATES:
            raise Timeout()  # runaway run: far more updates than any generated composition needs
        self.tr.events.append(("update", self.idx, hours(nt)))
        vals = []
        for i in range(self.nin):
            v = self.inputs[f"In{i}"].pull_data(nt)
            vals.append(round(float(np.ravel(fm.data.get_magnitude(v))[0]), 9))
        self._time = nt
        if self.spec.get("finish_at") is not None and hours(nt) >= self.spec["finish_at"]:
            # the component declares that it has no more steps to make (as CsvReader does at its last row)
            self.status = fm.ComponentStatus.FINISHED
            self.tr.events.append(("finished", self.idx, hours(nt)))
        self.tr.events.append(("got", self.idx, hours(nt), vals))
        # "mix": the published value depends on what was pulled, so that a wrong value propagates downstream (C05)
        extra = 0.001 * sum(vals) if self.spec.get("mix") else 0.0
        for o in range(self.nout):
            self.outputs[f"Out{o}"].push_data(self.value(nt) + 0.5 * o + extra, nt)
        if getattr(self.tr, "all_outputs", None) is not None:
            # retained history length of every output (and of every push-based adapter's buffer) after this update
            # (C01 network correspondence)
            self.tr.events.append(("ret", self.idx, [len(x.data) for x in self.tr.all_outputs]
                                   + [len(a.data) for a in getattr(self.tr, "cache_adapters", [])]))
        self.tr.current = None

    def _finalize(self):
        self.tr.calls[self.idx].append("finalize")


class PC(fm.Component):
    """pull-based component: every output's provider pulls all inputs for the requested time"""

    def __init__(self, idx, nin, nout, t0, trace):
        super().__init__()
        self.idx, self.nin, self.nout, self.t0, self.tr = idx, nin, nout, t0, trace
        self._name = f"C{idx}"
        self.tr.calls[idx] = []

    def _initialize(self):
        self.tr.calls[self.idx].append("initialize")
        for i in range(self.nin):
            self.inputs.add(name=f"In{i}", time=self.t0, grid=fm.NoGrid(), units="")
        for o in range(self.nout):
            self.outputs.add(
                fm.CallbackOutput(callback=(lambda caller, time, o=o: self._provide(o, time)), name=f"Out{o}",
                                  time=self.t0, grid=fm.NoGrid(), units="")
            )
        self.create_connector()

    def _connect(self, start_time):
        self.tr.calls[self.idx].append("connect")
        self.try_connect(start_time)

    def _validate(self):
        self.tr.calls[self.idx].append("validate")

    def _update(self):
        self.tr.calls[self.idx].append("update")

    def _finalize(self):
        self.tr.calls[self.idx].append("finalize")

    def _provide(self, o, time):
        self.tr.events.append(("cb", self.idx, o, hours(time)))
        total = 0.0
        for i in range(self.nin):
            v = self.inputs[f"In{i}"].pull_data(time)
            total += float(np.ravel(fm.data.get_magnitude(v))[0])
        return np.array(total + 0.25 * o)


class SC(fm.Component):
    """static generator: one static output published once during connect"""

    def __init__(self, idx, trace):
        super().__init__()
        self.idx, self.tr = idx, trace
        self._name = f"C{idx}"
        self.tr.calls[idx] = []

    def _initialize(self):
        self.tr.calls[self.idx].append("initialize")
        self.outputs.add(name="Out0", static=True, time=None, grid=fm.NoGrid(), units="")
        self.create_connector()

    def _connect(self, start_time):
        self.tr.calls[self.idx].append("connect")
        self.try_connect(start_time, push_data={"Out0": 7.0 + self.idx})

    def _validate(self):
        self.tr.calls[self.idx].append("validate")

    def _update(self):
        self.tr.calls[self.idx].append("update")

    def _finalize(self):
        self.tr.calls[self.idx].append("finalize")


class Timeout(Exception):
    pass


def _alarm(_s, _f):
    raise Timeout()


def layout(spec):
    """numbers of inputs / outputs per component and global output indices"""
    n = len(spec["comps"])
    nin = [0] * n
    nout = [0] * n
    for c, cs in enumerate(spec["comps"]):
        if cs["kind"] == "pull":
            nout[c] = cs.get("nout", 1)
        elif cs["kind"] == "static":
            nout[c] = 1
    for l in spec["links"]:
        nin[l["dst"]] += 1
        nout[l["src"]] = max(nout[l["src"]], l["out"] + 1)
    out_index = {}
    for c in range(n):
        for o in range(nout[c]):
            out_index[(c, o)] = len(out_index)
    return nin, nout, out_index


def build(spec, mem_limit=None, mem_location=None):
    trace = Trace()
    nin, nout, out_index = layout(spec)
    t0 = TH(min([c["start"] for c in spec["comps"] if c["kind"] == "time"] or [0]))
    comps = []
    for i, cs in enumerate(spec["comps"]):
        if cs["kind"] == "time":
            comps.append(TC(i, cs, nin[i], nout[i], trace))
        elif cs["kind"] == "pull":
            comps.append(PC(i, nin[i], nout[i], t0, trace))
        else:
            comps.append(SC(i, trace))
    order = spec.get("order") or list(range(len(comps)))
    trace.comps = comps
    trace.out_index = out_index
    kw = {}
    if mem_limit is not None:
        kw = {"slot_memory_limit": mem_limit, "slot_memory_location": mem_location}
    comp = fm.Composition([comps[i] for i in order], **kw)
    # links in creation order
    in_count = [0] * len(comps)
    elements = {}  # id -> description
    adapters = []
    link_objs = []
    link_order = spec.get("link_order") or list(range(len(spec["links"])))
    in_index = {}
    for li, l in enumerate(spec["links"]):
        in_index[li] = in_count[l["dst"]]
        in_count[l["dst"]] += 1
    # links carrying "via": k start at the last adapter of link k's chain (a pass-through adapter that fans out);
    # they are created after the plain links, in the given order
    last_of = {}
    ordered = [li for li in link_order if "via" not in spec["links"][li]] + [li for li in link_order if "via" in spec["links"][li]]
    for li in ordered:
        l = spec["links"][li]
        out = comps[l["src"]].outputs[f"Out{l['out']}"]
        inp = comps[l["dst"]].inputs[f"In{in_index[li]}"]
        cur = last_of[l["via"]] if "via" in l else out
        ads = []
        for a in l["ads"]:
            obj = mk_adapter(a)
            cur = cur >> obj
            ads.append(obj)
        last_of[li] = cur
        cur >> inp
        link_objs.append((li, out, ads, inp))
        adapters.extend(ads)
    # instance-level wrappers logging every request that reaches an output or an adapter
    def wrap(obj, tag):
        orig = obj.get_data

        def logged(time, target, _orig=orig, _tag=tag):
            trace.events.append(("req", _tag, hours(time), trace.current))
            return _orig(time, target)

        obj.get_data = logged

    if spec.get("record_retained"):
        trace.all_outputs = [None] * len(out_index)
    for c, cobj in enumerate(comps):
        for o in range(nout[c]):
            wrap(cobj.outputs[f"Out{o}"], ("out", out_index[(c, o)]))
            if spec.get("record_retained"):
                trace.all_outputs[out_index[(c, o)]] = cobj.outputs[f"Out{o}"]
    for li, out, ads, inp in link_objs:
        for ai, a in enumerate(ads):
            wrap(a, ("ad", li, ai))
    if spec.get("record_retained"):
        # buffers of push-based adapters, in link order (at most one per link in the specs that use this)
        trace.cache_adapters = []
        for li, out, ads, inp in sorted(link_objs, key=lambda x: x[0]):
            for a, desc in zip(ads, spec["links"][li]["ads"]):
                if desc[0] in CACHE:
                    trace.cache_adapters.append(a)
    fin_count = {}
    for a in adapters:
        orig = a.finalize

        def fin(_orig=orig, _a=a):
            fin_count[id(_a)] = fin_count.get(id(_a), 0) + 1
            return _orig()

        a.finalize = fin
    return comp, comps, adapters, trace, fin_count, link_objs


def run_impl(spec, timeout=8, connect_only=False, mem_limit=None, mem_location=None):
    """returns a dict of observables"""
    res = {"error": None}
    try:
        comp, comps, adapters, trace, fin_count, link_objs = build(spec, mem_limit, mem_location)
    except Exception as e:  # noqa
        return {"error": err_class(e), "msg": f"build: {type(e).__name__}: {e}"[:300], "phase": "build", "updates": [],
                "events": [], "calls": {}, "final": [], "status": []}
    old = signal.signal(signal.SIGALRM, _alarm)
    signal.alarm(timeout)
    phase = "connect"
    try:
        try:
            if connect_only:
                times = [c["start"] for c in spec["comps"] if c["kind"] == "time"]
                comp.connect(TH(min(times)) if times else None)
            else:
                has_time = any(c["kind"] == "time" for c in spec["comps"])
                # run() connects first; remember where a failure happened
                orig_connect = comp.connect

                def conn(*a, **k):
                    r = orig_connect(*a, **k)
                    nonlocal phase
                    phase = "run"
                    return r

                comp.connect = conn
                comp.run(end_time=TH(spec["end"]) if has_time else None)
                phase = "done"
        except Timeout:
            res["error"] = "timeout"
            res["msg"] = "timeout"
        except RecursionError as e:
            res["error"] = "RecursionError"
            res["msg"] = "RecursionError"
        except Exception as e:  # noqa
            res["error"] = err_class(e)
            res["msg"] = f"{type(e).__name__}: {e}"[:400]
            res["exc_type"] = type(e).__name__
    finally:
        signal.alarm(0)
        signal.signal(signal.SIGALRM, old)
    res["phase"] = phase
    res["events"] = trace.events
    res["updates"] = [[e[1], e[2]] for e in trace.events if e[0] == "update"]
    res["calls"] = trace.calls
    def _final_time(c):
        # a component whose time was never set (it never saw `_connect`) answers `time` with a ValueError
        try:
            return hours(c.time)
        except Exception:  # noqa
            return "unset"

    res["final"] = [_final_time(c) if isinstance(c, fm.TimeComponent) else None for c in comps]
    res["status"] = [c.status.name for c in comps]
    res["fin_counts"] = [fin_count.get(id(a), 0) for a in adapters]
    res["n_adapters"] = len(adapters)
    res["n_adapters_set"] = len(comp._adapters) if hasattr(comp, "_adapters") else None
    res["retained"] = [[e[1], e[2]] for e in trace.events if e[0] == "ret"]
    res["series"] = {}
    for e in trace.events:
        if e[0] == "got":
            res["series"].setdefault(e[1], []).append([e[2], e[3]])
    return res


def model_ad(a, dpid, init):
    k = a[0]
    if k in ("scale",):
        return ["pass"]
    if k in CACHE:
        return ["cache"]
    if k == "dfix":
        return ["dfix", a[1], init]
    if k == "dpull":
        return ["dpull", dpid, a[1], a[2], init]
    if k == "dpush":
        return ["dpush"]
    if k == "nodep":
        return ["nodep"]
    raise ValueError(k)


def model_request(spec, fuel=4000):
    """the same composition for the Lean driver (op sched_run); components in listing order"""
    nin, nout, out_index = layout(spec)
    order = spec.get("order") or list(range(len(spec["comps"])))
    pos = {c: i for i, c in enumerate(order)}  # model index of component c
    starts = [c["start"] for c in spec["comps"] if c["kind"] == "time"]
    t0 = min(starts) if starts else 0
    outs = [None] * len(out_index)
    for (c, o), gi in out_index.items():
        cs = spec["comps"][c]
        outs[gi] = {"owner": pos[c], "time": cs["start"] if cs["kind"] == "time" else t0}
    inputs = {c: [] for c in range(len(spec["comps"]))}
    ndp = 0
    for l in spec["links"]:
        src_spec = spec["comps"][l["src"]]
        init = src_spec["start"] if src_spec["kind"] == "time" else t0
        ads = []
        full = (spec["links"][l["via"]]["ads"] if "via" in l else []) + l["ads"]  # shared pass-through prefix first
        for a in full:
            ads.append(model_ad(a, ndp, init))
            if a[0] == "dpull":
                ndp += 1
        inputs[l["dst"]].append({"src": out_index[(l["src"], l["out"])], "static": src_spec["kind"] == "static",
                                 "ads": ads[::-1]})
    comps = []
    for c in order:
        cs = spec["comps"][c]
        if cs["kind"] == "time":
            comps.append({"kind": "time", "start": cs["start"], "steps": cs["steps"], "inputs": inputs[c]})
        else:
            comps.append({"kind": "pull", "inputs": inputs[c]})
    return {"op": "sched_run", "comps": comps, "outs": outs, "ndp": ndp, "end": spec["end"], "fuel": fuel}, order


def net_request(spec, fuel=4000):
    """the same composition for the Lean network model (op net_run): scheduler state + initial publications of every
    output + end points (one per non-static link)"""
    req, order = model_request(spec, fuel)
    req = dict(req)
    req["op"] = "net_run"
    nin, nout, out_index = layout(spec)
    pos = {c: i for i, c in enumerate(order)}
    starts = [c["start"] for c in spec["comps"] if c["kind"] == "time"]
    t0 = min(starts) if starts else 0
    hist = [None] * len(out_index)
    for (c, o), gi in out_index.items():
        p = spec["comps"][c]["start"]
        hist[gi] = [t0, p] if p != t0 else [p]
    neps = [0] * len(out_index)
    ep = []
    jcount = {}
    for l in spec["links"]:
        gi = out_index[(l["src"], l["out"])]
        j = jcount.get(l["dst"], 0)
        jcount[l["dst"]] = j + 1
        ep.append([pos[l["dst"]], j, neps[gi]])
        neps[gi] += 1
    req["hist"], req["neps"], req["ep"] = hist, neps, ep
    return req, order


def netc_request(spec, fuel=4000):
    """the Lean network model with push-based adapters as relay nodes (op netc_run).  Chains (source -> consumer):
    Scale* [one push-based adapter] (Scale | DelayFixed)*"""
    req, order = model_request(spec, fuel)
    req = dict(req)
    req["op"] = "netc_run"
    nin, nout, out_index = layout(spec)
    pos = {c: i for i, c in enumerate(order)}
    starts = [c["start"] for c in spec["comps"] if c["kind"] == "time"]
    t0 = min(starts) if starts else 0
    nodes_hist = [None] * len(out_index)
    for (c, o), gi in out_index.items():
        p = spec["comps"][c]["start"]
        nodes_hist[gi] = [t0, p] if p != t0 else [p]
    neps = [0] * len(out_index)
    last = [[] for _ in out_index]
    links, relays = [], []
    jcount = {}
    for l in spec["links"]:
        gi = out_index[(l["src"], l["out"])]
        j = jcount.get(l["dst"], 0)
        jcount[l["dst"]] = j + 1
        if any(a[0] in CACHE for a in l["ads"]):
            r = len(nodes_hist)
            nodes_hist.append(list(nodes_hist[gi]))   # the buffer holds one entry per initial publication
            neps.append(1)
            last.append([None])
            relays.append([r, gi, neps[gi]])
            neps[gi] += 1
            last[gi].append(nodes_hist[gi][-1])        # the adapter pulled at every initial publication already
            links.append([pos[l["dst"]], j, r, 0])
        else:
            links.append([pos[l["dst"]], j, gi, neps[gi]])
            neps[gi] += 1
            last[gi].append(None)
    # evictions that already happened during connect: an output all of whose end points are push-based adapters has
    # been pulled by every end point at its last initial publication
    ret = [list(h) for h in nodes_hist]
    for gi in range(len(out_index)):
        if last[gi] and all(x is not None for x in last[gi]):
            ret[gi] = nodes_hist[gi][-1:]
    req["hist"], req["neps"], req["links"], req["relays"], req["last"], req["ret"] = nodes_hist, neps, links, relays, last, ret
    return req, order
