"""Time adapters whose buffer spills to disk (a memory limit on the adapter) with *masked* payloads under a flexible-mask
info: the masks live in the data only, differ from publication to publication, and must come back from disk with the
values.  Oracle: the answers (values of the unmasked cells and the mask) equal those of the same run without a limit.
Used by C11 (Next/Previous/Linear/Step) and C12 (Avg/Sum)."""
import os
import shutil

import numpy as np

from ..fmutil import T, ad, err_class, fm

HOUR = 3_600_000_000
MAKE = {
    "next": lambda c: ad.NextTime(), "prev": lambda c: ad.PreviousTime(), "linear": lambda c: ad.LinearTime(),
    "step": lambda c: ad.StepTime(step=c["pos"] / 8),
    "avg": lambda c: ad.AvgOverTime(step=None if c["pos"] is None else c["pos"] / 8),
    "sum": lambda c: ad.SumOverTime(step=None if c["pos"] is None else c["pos"] / 8, per_time=c.get("per_time", True)),
}


def gen(rng, kinds):
    kind = rng.choice(kinds)
    case = {"part": "spillmask", "kind": kind, "pos": rng.choice([None, 0, 2, 4, 8]) if kind in ("avg", "sum") else rng.randrange(0, 9),
            "limit_payloads": rng.choice([0, 0, 1, 2]), "per_time": rng.random() < 0.7}
    t, events, pubs, last = 0, [], [], None
    strict = kind in ("avg", "sum")
    for _ in range(rng.randint(6, 18)):
        if not pubs or rng.random() < 0.5 or (strict and pubs[-1] <= (last if last is not None else pubs[0])):
            t = t + rng.choice([1, 2, 3]) if pubs else 0
            pubs.append(t)
            events.append(["push", t, [rng.randrange(-9, 10) for _ in range(4)], [rng.random() < 0.3 for _ in range(4)]])
        else:
            lo = last if last is not None else pubs[0]
            cands = [x / 2 for x in range(int(2 * lo) + (1 if strict else 0), int(2 * pubs[-1]) + 1)]
            if not cands:
                continue
            tt = rng.choice(cands)
            events.append(["pull", tt])
            last = tt
    case["events"] = events
    return case


def run(case, location, limited=True):
    grid = fm.UniformGrid((3, 3))
    out = fm.Output(name="out", info=fm.Info(time=T(0), grid=grid, units="m", mask=fm.Mask.FLEX))
    inp = fm.Input(name="in", info=fm.Info(time=None, grid=None, units=None))
    a = MAKE[case["kind"]](case)
    out >> a >> inp
    inp.ping()
    inp.exchange_info()
    os.makedirs(location, exist_ok=True)
    if limited:
        a.memory_limit = case["limit_payloads"] * 32
        a.memory_location = location
    answers, spilled = [], 0
    try:
        for ev in case["events"]:
            if ev[0] == "push":
                data = np.ma.masked_array(np.array(ev[2], dtype=float).reshape(2, 2), mask=np.array(ev[3]).reshape(2, 2))
                try:
                    out.push_data(data, T(int(ev[1] * HOUR)))
                    answers.append(None)
                except Exception as e:  # noqa
                    answers.append({"err": err_class(e), "at": "push"})
                spilled = max(spilled, sum(1 for _t, d in a.data if isinstance(d, str)))
            else:
                try:
                    v = fm.data.get_magnitude(inp.pull_data(T(int(ev[1] * HOUR))))
                    m = np.ma.getmaskarray(v).reshape(-1).tolist()
                    d = np.ma.getdata(v).reshape(-1).tolist()
                    answers.append({"ok": [None if mm else float(x) for x, mm in zip(d, m)]})
                except Exception as e:  # noqa
                    answers.append({"err": err_class(e)})
        try:
            out.finalize()
            a.finalize()
        except Exception as e:  # noqa
            answers.append({"err": err_class(e), "at": "finalize"})
    finally:
        left = sorted(os.listdir(location)) if os.path.isdir(location) else []
        shutil.rmtree(location, ignore_errors=True)
    return {"answers": answers, "spilled": spilled, "left": left}


def check(case, location):
    """returns (None | (required, observed), number of buffer entries that went to disk)"""
    lim = run(case, os.path.join(location, "lim"), True)
    ref = run(case, os.path.join(location, "ref"), False)
    for i, (x, y) in enumerate(zip(lim["answers"], ref["answers"])):
        if x != y:
            return ("with a memory limit on the adapter (masked payloads, masks carried by the data) the answers equal those "
                    "of the run without a limit: the buffered publication comes back from disk with its mask",
                    {"event": i, "with_limit": x, "without_limit": y, "limit_payloads": case["limit_payloads"]}), lim["spilled"]
    if len(lim["answers"]) != len(ref["answers"]):
        return ("the run with a limit ends like the run without", {"with_limit": lim["answers"][-1:], "without": ref["answers"][-1:]}), lim["spilled"]
    if lim["left"]:
        return ("no spill file remains after finalize", {"left": lim["left"]}), lim["spilled"]
    return None, lim["spilled"]
